"""
C13 — fail-stop.  Proof: Sqfs/Props/C13.lean about Sqfs/Model/FailStop.lean (skeleton of the four tools' main
functions, sqfs_writer_init/finish/cleanup, pack_files, process_tarball as ordered fallible call sites, with the
working directory as state) and Sqfs/Model/FailStopBlockProc.lean (block processor with fallible primitives).

Tie (every run of the check): the real tools are built from the working tree with ASan+UBSan, project allocations
renamed to counting wrappers, system calls wrapped at link time and every function instrumented
(-finstrument-functions, harness/shim_fault.c).  Per case a counting run, then single faults at every position
(errno failures, NULL allocations, *truncated input*: EOF / short read).  For every run
  (1) the ordered list of calls made by the skeleton functions is mapped to model sites (an unknown callee is a
      correspondence failure) and must equal `Trace.ran` of the model for a fault at the same position; exit status,
      presence of the output, what unlink hit, diagnostic and progress messages must equal the model's `Result`;
  (2) the site in which the fault fired must be the last site executed (first_failure_stops on the implementation);
  (3) the outcome is judged by the specification Sqfs.FailStop.Spec.verdict.
Further fault classes: `stdout` (standard output is /dev/full, closed, or a pipe whose reader has gone) for every
tool that prints results; `mmap` (the pool allocator) in builds of /repo's default configuration (mempool.c
compiled, NO_CUSTOM_ALLOC not defined), in which a share of the cases is run a second time.
"""
import concurrent.futures, hashlib, io, json, os, re, shutil, subprocess, tarfile, time
from pathlib import Path
import vlib

LEVEL = "proof"
MODULE = "Sqfs.Props.C13"
REQUIRED = ["Sqfs.C13." + n for n in (
    "run_checked", "status_success_only_at_end", "status_success_no_fault", "cleanup_unlinks_the_stored_name",
    "cleanup_not_reached_only_in_init", "failure_never_leaves_output", "failure_never_leaves_output_partial",
    "failure_reports_site", "all_sites_have_diagnostic", "failure_has_diagnostic", "exit0_output_eq_fault_free", "first_failure_stops", "reader_status_success_no_fault",
    "reader_first_failure_stops", "reader_exit0_results_delivered", "reader_exit0_results_delivered_partial",
    "packer_meets_spec", "reader_meets_spec", "blockproc_error_propagates", "blockproc_session_propagates")]

ALLOC_DEFS = ["-Dmalloc=vf_malloc", "-Dcalloc=vf_calloc", "-Drealloc=vf_realloc", "-Dstrdup=vf_strdup",
              "-Dstrndup=vf_strndup", "-fno-pie", "-finstrument-functions"]
WRAP_SYMS = ["write", "pwrite", "pwrite64", "read", "pread", "pread64", "ftruncate", "ftruncate64", "lseek", "lseek64",
             "fsync", "close", "open", "open64", "openat", "openat64",
             "chdir", "unlink", "realpath", "mkdir", "mknod", "symlink", "fstat", "fstatat", "dup", "lsetxattr", "utimensat",
             "fchownat", "fchmodat", "readlinkat", "llistxattr", "lgetxattr",
             "opendir", "fdopendir", "readdir", "readdir64", "fflush", "mmap", "mmap64"]
SYS_CLASSES = ["write", "read", "trunc", "open", "lseek", "fsync", "close", "fsop"]
ALLOC_CLASSES = ["malloc", "calloc", "realloc", "strdup", "mmap"]     # mmap: only the pool-allocator builds make such calls
STDOUT_KINDS = ["devfull", "closed", "epipe"]                         # fault class `stdout` (environment, not the shim)
KINDS = ["ENOSPC", "EIO", "EINTR"]
CUT_KINDS = ["EOF", "SHORT"]          # truncated input
TOOLS = ["gensquashfs", "tar2sqfs", "sqfs2tar", "rdsquashfs"]
TIMEOUT = 120           # a run needs ~60 ms on an idle machine; see rerun_if_timeout
TIMEOUT_ISOLATED = 900
BS = 4096

SKELETON = {
    "gensquashfs": ["main", "sqfs_writer_init", "remove_output_file", "pack_files", "sqfs_writer_finish",
                    "sqfs_dir_writer_write_export_table", "sqfs_writer_cleanup"],
    "tar2sqfs": ["main", "sqfs_writer_init", "remove_output_file", "process_tarball", "sqfs_writer_finish",
                 "sqfs_dir_writer_write_export_table", "sqfs_writer_cleanup"],
    "sqfs2tar": ["main"],
    "rdsquashfs": ["main"],
}


class Infra(vlib.CheckFailure):
    """the check's own machinery did not do what it must (never a pass)"""


# ------------------------------------------------------------------------------------------------ build
class SymTab:
    def __init__(self, exe):
        r = vlib.sh(["nm", "--defined-only", str(exe)])
        if r.returncode != 0 or not r.stdout.strip():
            raise Infra("nm failed on %s: %s" % (exe, r.stderr[-300:]))
        self.by_addr, self.by_name = {}, {}
        for l in r.stdout.splitlines():
            w = l.split()
            if len(w) != 3 or w[1] not in "tTwW":
                continue
            a, name = int(w[0], 16), w[2].split(".")[0]
            self.by_addr.setdefault(a, name)
            self.by_name.setdefault(name, []).append(a)

    def name(self, a):
        return self.by_addr.get(a, "0x%x" % a)


def build_tools(ctx):
    shim = ctx.scratch / "shim_fault.o"
    cmd = ["gcc", "-O1", "-g", "-c", "-DVF_WRAP", "-fno-pie", "-fno-omit-frame-pointer", str(vlib.HARNESS / "shim_fault.c"), "-o", str(shim)]
    r = vlib.sh(cmd)
    if r.returncode != 0:
        raise vlib.CheckFailure("shim_fault.c does not compile: " + r.stderr[-2000:])
    ld = ["-no-pie", "-Wl," + ",".join("--wrap=" + s for s in WRAP_SYMS)]
    tools = {t: ctx.build_tool(t, tag="fault", flags=ALLOC_DEFS, extra_objs=[str(shim)], ldflags=ld) for t in TOOLS}
    # /repo's default configuration: pool allocator (mempool.c, mmap) instead of plain malloc for the rbtree nodes
    for t in TOOLS:
        tools[t + "@pool"] = ctx.build_tool(t, tag="faultpool", flags=ALLOC_DEFS, extra_objs=[str(shim)], ldflags=ld, custom_alloc=True)
    syms, skel = {}, {}
    for t, exe in tools.items():
        st = SymTab(exe)
        addrs = []
        if t.endswith("@pool") and "mem_pool_create" not in st.by_name:
            raise Infra("%s was not built with the pool allocator (mem_pool_create missing)" % t)
        for fn in SKELETON[t.split("@")[0]]:
            if fn not in st.by_name:
                raise vlib.CheckFailure("skeleton function %s is not in the symbol table of %s: the model's phase structure no longer "
                                        "matches the sources" % (fn, t))
            addrs += st.by_name[fn]
        syms[t], skel[t] = st, ",".join("%x" % a for a in addrs)
    return tools, syms, skel


# ------------------------------------------------------------------------------------------------ inputs
def det_bytes(seed, n):
    out, h = bytearray(), hashlib.sha256(seed.encode()).digest()
    while len(out) < n:
        out += h
        h = hashlib.sha256(h).digest()
    return bytes(out[:n])


def file_set(rng, scale=1):
    """(name, bytes) list: a fragment-only file, a duplicate pair of multi-block files, an all-zero tail, sparse
    blocks, a file that is an exact multiple of the block size, an empty file — plus seed-dependent extras"""
    big = det_bytes("big%d" % rng.randint(0, 9), BS * 2 * scale + rng.choice([1, 100, 1000, BS - 1]))
    fs = [
        ("a.txt", b"hello fail-stop\n" * 3),
        ("big1.bin", big),
        ("dir1/big2.bin", big),                                  # duplicate of big1 (block dedup + fragment dedup)
        ("dir1/frag.txt", b"hello fail-stop\n" * 3),             # duplicate fragment of a.txt
        ("zero_small", b"\0" * rng.choice([1, 100, 511])),       # sparse tail: backend.c process_completed_fragment
        ("zero_big", b"\0" * (BS * 2 + 17)),                     # sparse blocks + sparse tail (index 2)
        ("exact.bin", det_bytes("exact", BS * scale)),           # no tail → sentinel path
        ("dir2/empty", b""),
        ("dir2/incompr.bin", det_bytes("inc", BS + 1234)),
    ]
    for i in range(rng.randint(0, 2)):                           # seed-dependent extras
        kind = rng.choice("uzm")
        n = rng.choice([7, 700, BS, BS + 9, 3 * BS + 50])
        data = b"\0" * n if kind == "z" else det_bytes("x%d%d" % (i, n), n) if kind == "u" else (b"\0" * BS + det_bytes("m", n))
        fs.append(("dir2/x%d.dat" % i, data))
    return fs


def small_file_set(rng):
    return [("f0.txt", b"relative output\n"), ("sub/f1.bin", det_bytes("rel%d" % rng.randint(0, 99), BS + rng.choice([5, 900]))),
            ("sub/z", b"\0" * 300)]


def make_tree(d, files, links=True):
    d.mkdir(parents=True, exist_ok=True)
    for name, data in files:
        p = d / name
        p.parent.mkdir(parents=True, exist_ok=True)
        p.write_bytes(data)
    if links:
        os.link(d / "a.txt", d / "dir2" / "hl_a")                     # hard link
        os.symlink("../a.txt", d / "dir1" / "sl")
    for p in sorted(d.rglob("*")):
        os.utime(p, (1000000000, 1000000000), follow_symlinks=False)
    os.utime(d, (1000000000, 1000000000))


def dirs_of(files):
    dirs = []
    for name, _ in files:
        parts = name.split("/")[:-1]
        for i in range(len(parts)):
            x = "/".join(parts[:i + 1])
            if x not in dirs:
                dirs.append(x)
    return dirs


def make_packfile(d, files, extras=True, src_prefix=""):
    """pack file + xattr file + sort file (+ SELinux context file) for gensquashfs -F"""
    lines = ["dir %s 0755 1000 100" % x for x in sorted(dirs_of(files))]
    for name, _ in files:
        lines.append("file %s 0644 1000 100 %s%s" % (name, src_prefix, name))
    if extras:
        lines.append("slink dir1/sl 0777 0 0 ../a.txt")
        lines.append("link dir2/hl_a 0 0 0 a.txt")
        lines.append("nod dir2/console 0600 0 5 c 5 1")
        lines.append("pipe dir2/fifo 0600 7 7")
    (d / "pack.txt").write_text("\n".join(lines) + "\n")
    (d / "xattr.txt").write_text("# file: a.txt\nuser.k1=\"v1\"\nuser.k2=0xCAFE\n\n# file: dir1\nuser.k1=\"v1\"\n\n# file: big1.bin\nuser.k1=\"v1\"\nuser.k2=0xCAFE\n")
    (d / "sort.txt").write_text("-10 dir2/incompr.bin\n5 [dont_compress,dont_fragment] exact.bin\n7 [dont_deduplicate] dir1/big2.bin\n")
    (d / "contexts").write_text("/.*\tsystem_u:object_r:etc_t:s0\n/a\\.txt\tsystem_u:object_r:bin_t:s0\n")


def make_tar(path, files, root_prefix=None):
    """PAX tar; returns (entry letters for the model, header offsets, end of the last entry's data)"""
    members = []
    with tarfile.open(path, "w", format=tarfile.PAX_FORMAT) as tf:
        seen = set()

        def add(ti, data=None):
            tf.addfile(ti, io.BytesIO(data) if data is not None else None)
            members.append(ti)
        for name, data in files:
            for dn in dirs_of([(name, b"")]):
                if dn not in seen:
                    seen.add(dn)
                    ti = tarfile.TarInfo(dn)
                    ti.type, ti.mode, ti.mtime = tarfile.DIRTYPE, 0o755, 1000000000
                    add(ti)
            ti = tarfile.TarInfo(name)
            ti.size, ti.mode, ti.mtime, ti.uid, ti.gid = len(data), 0o644, 1000000000, 1000, 100
            if name in ("a.txt", "big1.bin", "dir1/frag.txt"):
                ti.pax_headers = {"SCHILY.xattr.user.k1": "v1"}
            add(ti, data)
        for nm, typ, target in (("dir1/sl", tarfile.SYMTYPE, "../a.txt"), ("dir1/sl2", tarfile.SYMTYPE, "dir1/frag.txt"),
                                ("dir2/hl_a", tarfile.LNKTYPE, "a.txt"), ("dir1/hl_f", tarfile.LNKTYPE, "dir1/frag.txt")):
            ti = tarfile.TarInfo(nm)
            ti.type, ti.linkname, ti.mtime = typ, target, 1000000000
            add(ti)
    letters = []
    for ti in members:
        link = ti.type in (tarfile.SYMTYPE, tarfile.LNKTYPE)
        skipped = root_prefix is not None and not (ti.name == root_prefix or ti.name.startswith(root_prefix + "/"))
        letters.append({(False, False): "n", (True, False): "l", (False, True): "s", (True, True): "k"}[(link, skipped)])
    with tarfile.open(path) as tf:
        ms = tf.getmembers()
        offs = [m.offset for m in ms]
        last = ms[-1]
        end = last.offset_data + ((last.size + 511) // 512) * 512
    # places where an archive can end that are *not* between two entries: inside a header, inside the payload or the
    # padding of an extended (PAX) header, inside file data, inside the padding behind file data
    struct = []
    for m in ms:
        struct.append(("header", m.offset + 100))
        if m.offset_data - m.offset > 512:
            struct += [("pax-payload", m.offset + 512 + 10), ("pax-padding", m.offset + 1024 - 200), ("main-header", m.offset_data - 300)]
        if m.size:
            struct.append(("data", m.offset_data + m.size // 2))
            if m.size % 512:
                struct.append(("data-padding", m.offset_data + m.size + (512 - m.size % 512) // 2))
    make_tar.names = [ti.name for ti in members]         # for callers that filter entries (tar2sqfs --exclude-dir)
    return "".join(letters), offs + [end], (end, struct)


def make_gz_boundary(path, rng):
    """gzip file of a ustar archive [dir, 128 000-byte file | two more files] made of *two members*, the first one exactly
    131072 bytes long (= BUFSZ of lib/sqfs/src/io/istream.c; stored deflate blocks padded with empty ones): the first
    buffer the file stream reads ends between two members and between two tar entries.  Returns (path, entry letters,
    length of the first member)"""
    import struct, zlib
    import gzip as _gz
    buf = io.BytesIO()
    with tarfile.open(fileobj=buf, mode="w", format=tarfile.USTAR_FORMAT) as tf:
        def add(name, data=None):
            ti = tarfile.TarInfo(name)
            ti.mtime, ti.mode = 1000000000, 0o755 if data is None else 0o644
            if data is None:
                ti.type = tarfile.DIRTYPE
            else:
                ti.size = len(data)
            tf.addfile(ti, io.BytesIO(data) if data is not None else None)
        add("d")
        add("d/a.bin", det_bytes("gzb%d" % rng.randint(0, 99), 250 * 512))
        add("d/b.bin", det_bytes("gzb-b", rng.choice([700, 5000, 9000])))
        add("c.txt", b"hello world\n")
    T = buf.getvalue()
    b = 252 * 512                      # end of the second entry; 10 + 5 * nblocks + b + 8 == 131072 has a solution (b = 4 mod 5)

    def stored(data, final=False):
        return bytes([1 if final else 0]) + struct.pack("<HH", len(data), len(data) ^ 0xFFFF) + data
    out = bytearray(b"\x1f\x8b\x08\x00\x00\x00\x00\x00\x00\x03")
    pos = 0
    while pos < b:
        n = min(65535, b - pos)
        out += stored(T[pos:pos + n])
        pos += n
    while len(out) < 131072 - 8 - 5:
        out += stored(b"")
    out += stored(b"", final=True)
    out += struct.pack("<II", zlib.crc32(T[:b]) & 0xFFFFFFFF, b & 0xFFFFFFFF)
    if len(out) != 131072:
        raise Infra("make_gz_boundary: cannot align the stream (%d)" % len(out))
    out += _gz.compress(T[b:], mtime=0)
    if _gz.decompress(bytes(out)) != T:
        raise Infra("make_gz_boundary: stream does not decode")
    Path(path).write_bytes(bytes(out))
    return path, "nnnn", 131072


# ------------------------------------------------------------------------------------------------ running one case
class Case:
    """one tool invocation whose faults are enumerated"""

    def __init__(self, name, tool, argv, out_kind, stdin=None, cwd=None, rel_out=False, model=None, plan="full", mt=False,
                 cut=None, subst=None, pool=False, stdout_faults=False):
        self.name, self.tool, self.argv, self.out_kind = name, tool, argv, out_kind
        self.pool = pool                      # run the build of /repo's default configuration (pool allocator)
        self.stdout_faults = stdout_faults    # also enumerate the fault class `stdout`
        self.stdin, self.cwd, self.rel_out, self.model, self.plan, self.mt = stdin, cwd, rel_out, model, plan, mt
        # out_kind: 'file' (packer image), 'stdout' (sqfs2tar / rdsquashfs -c), 'tree' (rdsquashfs -u)
        # model: ('packer', tool, flags, nfiles, entries) | ('reader', tool, flags) | None
        # cut: how truncated input is judged: ('tar', boundaries, data_end) | ('tree', root) | ('image',) | None
        self.cut, self.subst = cut, subst or {}


def tree_digest(root):
    """sha256 over the unpacked tree (names, types, sizes, bytes, symlink targets, modes when restored)"""
    h = hashlib.sha256()
    root = Path(root)
    if not root.exists():
        return "absent"
    for p in sorted(root.rglob("*")):
        rel = p.relative_to(root).as_posix()
        st = p.lstat()
        if p.is_symlink():
            h.update(("L %s %s\n" % (rel, os.readlink(p))).encode())
        elif p.is_dir():
            h.update(("D %s\n" % rel).encode())
        elif p.is_file():
            h.update(("F %s %d " % (rel, st.st_size)).encode())
            h.update(hashlib.sha256(p.read_bytes()).digest())
        else:
            h.update(("O %s %o\n" % (rel, st.st_mode)).encode())
    return h.hexdigest()


def parse_report(rep):
    report = {"count": {}, "fired": False, "bt": [], "exit": 0, "present": rep.exists(), "nsites": None, "stack": [], "cut": None,
              "thread": 0, "fn": ""}
    if not rep.exists():
        return report
    for l in rep.read_text().splitlines():
        w = l.split()
        if not w:
            continue
        if w[0] == "count" and len(w) == 4:
            report["count"][(w[1], w[2])] = int(w[3])
        elif w[0] == "fired":
            report["fired"] = len(w) > 1 and w[1] == "1"
            report["fn"] = w[3] if len(w) > 3 else ""
        elif w[0] == "bt":
            report["bt"] = w[1:]
        elif w[0] == "post":
            report["post"] = int(w[1])
        elif w[0] == "exit":
            report["exit"] = int(w[1])
        elif w[0] == "nsites":
            report["nsites"], report["thread"] = int(w[1]), int(w[2])
        elif w[0] == "stack":
            report["stack"] = [int(x, 16) for x in w[1:]]
        elif w[0] == "cut" and len(w) >= 3:
            report["cut"] = (" ".join(w[1:-1]), int(w[-1]))
    return report


def parse_sites(path):
    """[(caller address, callee address | '@pseudo')], complete?"""
    if not path.exists():
        return [], False
    log, done = [], False
    for l in path.read_text().splitlines():
        w = l.split()
        if len(w) != 2:
            continue
        if w[0] == "end":
            done = int(w[1]) == len(log)
        elif w[0] == "overflow":
            return log, False
        else:
            log.append((int(w[0], 16), w[1] if w[1].startswith("@") else int(w[1], 16)))
    return log, done


def run_case(case, exe, workdir, skel, fault=None, timeout=TIMEOUT, env_base=None, trace=False, stdin_override=None, argv_subst=None,
             stdio=None):
    """run once; returns dict(rc, timeout, out, stdout, stderr, report, sites, sites_ok[, trace]).
    stdio: None | devfull (stdout is /dev/full: ENOSPC) | closed (descriptor 1 closed: EBADF) | epipe (stdout is a pipe
    without a reader, SIGPIPE ignored: EPIPE) | errfull (stderr is /dev/full)"""
    workdir = Path(workdir)
    if workdir.exists():
        shutil.rmtree(workdir)
    workdir.mkdir(parents=True)
    out = workdir / "out"
    out_arg = os.path.relpath(out, case.cwd) if case.rel_out else str(out)
    argv = [a.replace("@OUT@", out_arg) for a in case.argv]
    for a, b in (argv_subst or {}).items():
        argv = [x.replace(a, b) for x in argv]
    env = dict(env_base)
    rep = workdir / "report"
    env.update({"VF_REPORT": str(rep), "VF_SKEL": skel, "VF_SITES": str(workdir / "sites")})
    if trace:
        env["VF_TRACE"] = str(workdir / "trace")
    if case.out_kind in ("file", "tree"):
        env["VF_OUT"] = str(out)
    else:
        env["VF_OUT_FD1"] = "1"
    if fault:
        env.update({"VF_CLASS": fault["cls"], "VF_K": str(fault["k"]), "VF_SIDE": fault.get("side", "any"),
                    "VF_KIND": fault.get("kind", "EIO")})
        if "short" in fault:
            env["VF_SHORT"] = str(fault["short"])
    sp = stdin_override or case.stdin
    stdin = open(sp, "rb") if sp else subprocess.DEVNULL
    res = {"timeout": False}
    cmd, so_arg, se_arg, extra, closers = [str(exe)] + argv, subprocess.PIPE, subprocess.PIPE, {}, []
    if stdio == "devfull":
        so_arg = open("/dev/full", "wb")
        closers.append(so_arg)
    elif stdio == "errfull":
        se_arg = open("/dev/full", "wb")
        closers.append(se_arg)
    elif stdio == "closed":
        cmd, so_arg = ["/bin/sh", "-c", 'exec "$0" "$@" >&-'] + cmd, subprocess.DEVNULL
    elif stdio == "epipe":
        rfd, wfd = os.pipe()
        os.close(rfd)                                   # nobody will ever read
        so_arg, extra = wfd, {"restore_signals": False}  # Python ignores SIGPIPE; the child inherits that: write → EPIPE
    elif stdio is not None:
        raise Infra("unknown stdio fault " + stdio)
    try:
        p = subprocess.run(cmd, stdin=stdin, stdout=so_arg, stderr=se_arg, env=env, cwd=case.cwd, timeout=timeout, **extra)
        res["rc"] = p.returncode
        so, se = p.stdout or b"", p.stderr or b""
    except subprocess.TimeoutExpired as e:
        res["rc"], res["timeout"] = 124, True
        so, se = e.stdout or b"", e.stderr or b""
    finally:
        if sp:
            stdin.close()
        for f in closers:
            f.close()
        if stdio == "epipe":
            os.close(wfd)
    res["out_len"] = len(so)
    res["stderr"] = se.decode("utf-8", "replace")
    if case.out_kind == "stdout":
        res["out"] = hashlib.sha256(so).hexdigest()
        res["stdout"] = ""
    else:
        res["stdout"] = so.decode("utf-8", "replace")
        if case.out_kind == "file":
            res["out"] = hashlib.sha256(out.read_bytes()).hexdigest() if out.exists() else "absent"
        else:
            res["out"] = tree_digest(out)
    res["report"] = parse_report(rep)
    res["sites"], res["sites_ok"] = parse_sites(workdir / "sites")
    if trace:
        tr = {}
        tp = workdir / "trace"
        if tp.exists():
            for l in tp.read_text().splitlines():
                c, sd, k, h = l.split()
                tr.setdefault((c, sd, h), []).append(int(k))
        res["trace"] = tr
    shutil.rmtree(workdir, ignore_errors=True)
    return res


_A2L = {}


def resolve_bt(exe, addrs):
    """[(function, file:line)] innermost first, inlined frames expanded; cached per address"""
    need = [a for a in addrs if (str(exe), a) not in _A2L]
    if need:
        # return addresses: subtract 1 so that the call instruction's line is reported
        q = ["0x%x" % (int(a, 16) - 1) for a in need]
        r = vlib.sh(["addr2line", "-f", "-i", "-a", "-e", str(exe)] + q)
        if r.returncode != 0:
            raise Infra("addr2line failed: " + r.stderr[-300:])
        cur, frames = None, {}
        lines = r.stdout.splitlines()
        i = 0
        while i < len(lines):
            if lines[i].startswith("0x"):
                cur = lines[i]
                frames[cur] = []
                i += 1
                continue
            fn, loc = lines[i], lines[i + 1] if i + 1 < len(lines) else "?"
            loc = re.sub(r" \(discriminator \d+\)", "", loc)
            frames[cur].append((fn, "/".join(loc.split("/")[-2:])))
            i += 2
        for a, qa in zip(need, q):
            key = "0x%016x" % int(qa, 16)
            _A2L[(str(exe), a)] = frames.get(key, [("?", "?")])
    out = []
    for a in addrs:
        out.extend(_A2L[(str(exe), a)])
    return out


SHIM_FN = re.compile(r"^(vf_|__wrap_|__interceptor|backtrace|__sanitizer|__cyg_profile)")


def project_frames(frames):
    return [(fn, loc) for fn, loc in frames if fn != "??" and not SHIM_FN.match(fn) and "shim_fault" not in loc]


# ------------------------------------------------------------------------------------------------ call log → model sites
def S(name):
    return ("site", name)


def S2(a, b):
    return ("site2", (a, b))


def IDX(name, ctr, pre):
    """indexed site; `ctr` counter, pre=True: index = counter value, then increment; False: index = counter - 1"""
    return ("idx", (name, ctr, pre))


IGN, PHASE, UNLINK = ("ignore", None), ("phase", None), ("unlink", None)

WRITER_MAP = {
    "sqfs_writer_init": [
        ("compressor_cfg_init_options", S("compCfg")), ("sqfs_native_file_open", S("openOut")), ("sqfs_file_open_handle", S("openHandle")),
        ("parse_fstree_defaults", S("fsDefaults")), ("fstree_init", S("fstreeInit")), ("sqfs_compressor_create", S2("cmpCreate", "uncmpCreate")),
        ("sqfs_super_init", S("superInit")), ("sqfs_super_write", S("superWrite")), (r"\w+_write_options", S("cmpOptions")),
        ("sqfs_block_writer_create", S("blkwrCreate")), ("sqfs_frag_table_create", S("fragtblCreate")),
        ("sqfs_block_processor_create_ex", S("procCreate")), ("sqfs_id_table_create", S("idtblCreate")),
        ("sqfs_xattr_writer_create", S("xwrCreate")), ("sqfs_meta_writer_create", S2("imCreate", "dmCreate")),
        ("sqfs_dir_writer_create", S("dirwrCreate")),
        ("remove_output_file", PHASE), ("sqfs_perror|sqfs_drop|fstree_cleanup|sqfs_native_file_close", IGN)],
    "remove_output_file": [(r"@unlink:\w+", UNLINK)],
    "sqfs_writer_finish": [
        ("sqfs_block_processor_finish", S("procFinish")), ("sqfs_serialize_fstree", S("serialize")), ("sqfs_frag_table_write", S("fragTable")),
        ("sqfs_dir_writer_write_export_table", PHASE), ("sqfs_id_table_write", S("idTable")), ("sqfs_xattr_writer_flush", S("xattrFlush")),
        ("sqfs_super_write", S("superRewrite")), ("padd_sqfs", S("pad")),
        (r"\w*get_size|print_statistics|fstree_collect_stats|sqfs_perror", IGN)],
    "sqfs_dir_writer_write_export_table": [("add_export_table_entry", S("exportAddRoot")), ("sqfs_write_table", S("exportWrite"))],
    "sqfs_writer_cleanup": [(r"@unlink:\w+", UNLINK), ("sqfs_drop|fstree_cleanup", IGN)],
}
SITE_MAP = {
    "gensquashfs": dict(WRITER_MAP, **{
        "main": [("process_command_line", ("args", None)), ("sqfs_writer_init|pack_files|sqfs_writer_finish|sqfs_writer_cleanup", PHASE),
                 (r"@realpath:\w+", S("realpathOut")), ("selinux_open_context_file", S("selinuxOpen")), ("xattr_open_map_file", S("xattrMapOpen")),
                 ("sqfs_istream_open_file", S("sortfileOpen")), ("dir_tree_iterator_create", S("dirIterCreate")), ("scan_directory", S("scanDir")),
                 ("fstree_from_file", S("fstreeFromFile")), ("fstree_post_process", S("postProcess")), ("apply_xattrs", S("applyXattrs")),
                 ("fstree_sort_files", S("sortFiles")), ("sqfs_drop|sqfs_perror|selinux_close_context_file", IGN)],
        "pack_files": [(r"@chdir:\w+", S("chdirPack")), ("fstree_get_path", IDX("nodePath", "file", None)), ("canonicalize_name", IGN),
                       ("pack_file", IDX("packFile", "file", True))],
    }),
    "tar2sqfs": dict(WRITER_MAP, **{
        "main": [("process_args", ("args", None)), ("sqfs_writer_init|process_tarball|sqfs_writer_finish|sqfs_writer_cleanup", PHASE),
                 ("istream_open_stdin", S("openStdin")), ("tar_open_stream", S("tarOpen")), ("fstree_post_process", S("postProcess")),
                 ("sqfs_drop|sqfs_perror", IGN)],
        "process_tarball": [("it_next", IDX("tarNext", "ent", True)), ("it_read_link", IDX("tarReadLink", "ent", False)),
                            ("set_root_attribs|create_node_and_repack_data", IDX("tarEntry", "ent", False)),
                            ("sqfs_perror|canonicalize_name", IGN)],
    }),
    "sqfs2tar": {
        "main": [("process_args", ("args", None)), ("ostream_open_stdout", S("sOpenStdout")), ("compressor_stream_create", S("sXfrmCreate")),
                 ("ostream_xfrm_create", S("sXfrmWrap")), ("tar_compat_iterator_create", S("sIterCreate")),
                 ("sqfs_hard_link_filter_create", S("sHlFilter")), (r"(\w+_)?next", IDX("sNext", "ent", True)),
                 ("write_entry", IDX("sEntry", "ent", False)), ("terminate_archive", S("sTerminate")), (r"\w*flush", S("sFlush")),
                 (r"sqfs_drop|sqfs_free|sqfs_perror|strlist_cleanup|\w*get_filename", IGN)],
    },
    "rdsquashfs": {
        "main": [("process_command_line", ("args", None)), ("sqfs_file_open", S("rOpen")), ("sqfs_super_read", S("rSuper")),
                 ("sqfs_compressor_config_init", IGN), ("sqfs_compressor_create", S("rCmpCreate")), ("sqfs_xattr_reader_create", S("rXattrCreate")),
                 ("sqfs_xattr_reader_load", S("rXattrLoad")), ("sqfs_id_table_create", S("rIdCreate")), ("sqfs_id_table_read", S("rIdRead")),
                 ("sqfs_dir_reader_create", S("rDirReader")), ("sqfs_data_reader_create", S("rDataReader")),
                 ("sqfs_data_reader_load_fragment_table", S("rFragTable")), ("sqfs_dir_reader_get_full_hierarchy", S("rHierarchy")),
                 ("list_files", IGN), ("stat_file", S("rStat")), ("sqfs_data_reader_create_stream", S("rCatStream")),
                 ("ostream_open_stdout", S("rCatStdout")), ("sqfs_istream_splice", IDX("rSplice", "splice", True)), ("tree_sort", S("rTreeSort")),
                 ("mkdir_p", S("rMkdirP")), (r"@chdir:\w+", S("rChdir")), ("restore_fstree", S("rRestore")), ("fill_unpacked_files", S("rFill")),
                 ("update_tree_attribs", S("rAttribs")), ("describe_tree", S("rDescribe")), ("dump_xattrs", S("rDumpXattrs")),
                 (r"@fflush:\w+", S("rStdoutFlush")),
                 ("sqfs_dir_tree_destroy|sqfs_drop|sqfs_perror", IGN)],
    },
}
_MAP_RE = {t: {p: [(re.compile("^(?:%s)$" % pat), act) for pat, act in rules] for p, rules in m.items()} for t, m in SITE_MAP.items()}


def map_log(tool, st, log):
    """[(kind, site name | pseudo name | None, caller name, callee name)] for every log entry; kind ∈ site | phase | ignore | args |
    unlink | unknown"""
    items, occ, ctr = [], {}, {}
    for pa, ca in log:
        parent = st.name(pa)
        callee = ca if isinstance(ca, str) else st.name(ca)
        act = None
        for rx, a in _MAP_RE[tool].get(parent, []):
            if rx.match(callee):
                act = a
                break
        if act is None:
            items.append(("unknown", None, parent, callee))
            continue
        kind, arg = act
        if kind == "site":
            items.append(("site", arg, parent, callee))
        elif kind == "site2":
            n = occ.get((parent, callee), 0)
            occ[(parent, callee)] = n + 1
            items.append(("site", arg[min(n, 1)] if n < 2 else "%s#%d" % (arg[1], n), parent, callee))
        elif kind == "idx":
            name, c, pre = arg
            v = ctr.get(c, 0)
            if pre is True:
                ctr[c] = v + 1
                i = v
            elif pre is False:
                i = v - 1
            else:
                i = v                      # belongs to the element whose main call follows
            items.append(("site", "%s:%d" % (name, i), parent, callee))
        elif kind == "unlink":
            items.append(("unlink", callee.split(":")[1], parent, callee))
        else:
            items.append((kind, None, parent, callee))
    return items


def fault_position(tool, st, skel_addrs, items, log, report):
    """(index into the list of *sites* of the site inside which the fault fired | None, description)"""
    n, stack = report["nsites"], report["stack"]
    if n is None:
        return None, "no-stack"
    deepest = max((i for i, a in enumerate(stack) if a in skel_addrs), default=None)
    if deepest is None:
        return None, "before-main"
    nsite_before = sum(1 for it in items[:n] if it[0] == "site")
    fn = report.get("fn", "")
    if deepest + 1 >= len(stack):
        # in the body of a skeleton function: a libc call made there (chdir / realpath are sites of their own)
        parent = st.name(stack[deepest])
        if fn in ("chdir", "realpath", "fflush") and any(rx.match("@%s:fail" % fn) and a[0] == "site" for rx, a in _MAP_RE[tool].get(parent, [])):
            return nsite_before, "pseudo:" + fn
        return None, "body:" + parent
    if n == 0:
        return None, "unlogged"
    last = items[n - 1]
    pa, ca = log[n - 1]
    if isinstance(ca, str) or (pa, ca) != (stack[deepest], stack[deepest + 1]):
        return None, "callee:" + st.name(stack[deepest + 1])
    if last[0] != "site":
        return None, "%s:%s" % (last[0], last[3])
    return nsite_before - 1, "site"


def step_function(st, stack):
    """name used in finding keys: the callee of main the fault lies in (for sqfs_writer_finish: its callee)"""
    names = [st.name(a) for a in stack]
    if "main" not in names:
        return names[0] if names else "?"
    i = names.index("main")
    if i + 1 >= len(names):
        return "main"
    c = names[i + 1]
    if c == "sqfs_writer_finish" and i + 2 < len(names):
        return names[i + 2]
    return c


# ------------------------------------------------------------------------------------------------ cases
def growth_constants():
    """flush / growth thresholds read from the working tree's sources (never hard-coded): an input just beyond each
    of them makes the corresponding flush-in-the-middle or grow-the-array path run, with few calls of its class"""
    def grab(rel, pat, default):
        try:
            m = re.search(pat, (vlib.REPO / rel).read_text(errors="replace"))
            return int(m.group(1)) if m else default
        except OSError:
            return default
    return {
        "meta_block": grab("include/sqfs/block.h", r"#define\s+SQFS_META_BLOCK_SIZE\s+\(?(\d+)", 8192),       # meta writer flush
        "array_first": grab("lib/util/src/array.c", r"new_count\s*=\s*(\d+)", 128),                         # array_append / set_capacity from empty
        "blkwr_init": grab("lib/sqfs/src/block_writer.c", r"#define\s+INIT_BLOCK_COUNT\s+\(?(\d+)", 128),      # block writer's block list
        "export_init": grab("lib/sqfs/src/dir_writer.c", r"array_init\(&writer->export_tbl,[^;]*?,\s*(\d+)\)", 512),
        "xattr_pairs": grab("lib/sqfs/src/xattr/xattr_writer.h", r"#define\s+XATTR_INITIAL_PAIR_CAP\s+\(?(\d+)", 128),
        "inode_blocks_first": grab("lib/sqfs/src/block_processor/backend.c", r"sizeof\(sqfs_u32\)\s*\*\s*(\d+)", 4),  # set_block_size, then doubling
    }


def gen_cases(ctx, d, rng, tools, thorough):
    """inputs under d; returns list of Case"""
    d = Path(d)
    scale = 4 if thorough else 1
    files = file_set(rng, scale)
    T = d / "tree"
    make_tree(T, files)
    make_packfile(T, files)
    nreg = len(files)
    comp = rng.choice(["gzip", "xz", "lz4", "zstd"])
    selinux = os.path.exists("/usr/include/selinux/selinux.h")
    common = ["-b", str(BS), "-j", "1"]
    cases = []
    # ---- gensquashfs, pack file + every optional input
    argv = ["-F", str(T / "pack.txt"), "-D", str(T), "-A", str(T / "xattr.txt"), "-S", str(T / "sort.txt")]
    flags = "xopde"
    if selinux:
        argv += ["-s", str(T / "contexts")]
        flags += "s"
    cases.append(Case("gen-F", "gensquashfs", argv + common + ["-c", comp, "-e", "@OUT@"], "file",
                      model=("packer", "gen", flags, nreg, "-"), cut=("tree", str(T))))
    nscan = count_files(T)              # a directory scan packs every regular file it meets, the option files and the hard link included
    cases.append(Case("gen-D", "gensquashfs", ["-D", str(T)] + common + ["@OUT@"], "file", model=("packer", "gen", "d", nscan, "-"),
                      cut=("tree", str(T))))
    # ---- relative output name × pack directory (the unlink of the cleanup is resolved against the *current* directory)
    R = d / "rel"
    sfiles = small_file_set(rng)
    make_tree(R / "in", sfiles, links=False)
    make_packfile(R, sfiles, extras=False)
    (R / "packabs.txt").write_text("".join("file %s 0644 0 0 %s\n" % (n.replace("/", "_"), R / "in" / n) for n, _ in sfiles))
    (R / "in" / "pack.txt").write_text((R / "pack.txt").read_text())
    # extended attributes in the scanned tree (read only with --keep-xattr: llistxattr / lgetxattr of the directory iterator)
    try:
        os.setxattr(R / "in" / "f0.txt", "user.c13", b"value-%d" % rng.randint(0, 999))
        os.setxattr(R / "in" / "sub", "user.c13dir", b"d")
        os.setxattr(R / "in" / "sub" / "z", "user.empty", b"")
        have_xattr = True
    except OSError:
        have_xattr = False
    # a pack file with glob lines (glob.c: its own directory scans, prefix handling, result of scan_directory)
    (R / "glob.txt").write_text("dir /g 0755 0 0\nglob /g 0755 0 0 -type d -- in\nglob /g 0644 0 0 -type f -name \"*.bin\" -- in\n"
                                "glob /g * * * -type f -name \"z\" -keeptime -- in\nfile top 0644 0 0 in/f0.txt\n")
    q = [] if rng.random() < 0.5 else ["-q"]
    qf = "q" if q else ""
    cases.append(Case("gen-rel", "gensquashfs", ["-F", "pack.txt", "-D", "in", "-b", str(BS), "-j", "1"] + q + ["@OUT@"], "file", cwd=str(R), rel_out=True,
                      model=("packer", "gen", "pdr" + qf, len(sfiles), "-")))
    cases.append(Case("gen-rel-scan", "gensquashfs", ["--pack-dir", "in", "-b", str(BS), "-j", "1", "-q", "@OUT@"], "file", cwd=str(R), rel_out=True,
                      model=("packer", "gen", "drq", len(sfiles) + 1, "-"), plan="sys+sample:60"))
    cases.append(Case("gen-rel-dot", "gensquashfs", ["-F", "pack.txt", "-D", ".", "-b", str(BS), "-j", "1", "-q", "@OUT@"], "file", cwd=str(R / "in"),
                      rel_out=True, model=("packer", "gen", "pdcrq", len(sfiles), "-"), plan="sys+sample:60"))
    cases.append(Case("gen-rel-nodir", "gensquashfs", ["-F", "packabs.txt", "-b", str(BS), "-j", "1", "-q", "@OUT@"], "file", cwd=str(R), rel_out=True,
                      model=("packer", "gen", "prq", len(sfiles), "-"), plan="sys+sample:60"))
    cases.append(Case("gen-glob", "gensquashfs", ["-F", str(R / "glob.txt"), "-D", str(R), "-b", str(BS), "-j", "1", "-q", "@OUT@"], "file",
                      model=("packer", "gen", "pdq", 3, "-"), plan="sys+sample:%d" % rng.choice([50, 70])))
    if have_xattr:
        cases.append(Case("gen-kx", "gensquashfs", ["--pack-dir", str(R / "in"), "--keep-xattr", "-b", str(BS), "-j", "1", "-q", "@OUT@"], "file",
                          model=("packer", "gen", "dq", len(sfiles) + 1, "-"), plan="sys+sample:50"))
    # ---- tar2sqfs
    letters, offs, end = make_tar(d / "in.tar", files)
    cases.append(Case("t2s", "tar2sqfs", common + ["-c", comp, "-e", "@OUT@"], "file", stdin=str(d / "in.tar"),
                      model=("packer", "t2s", "e", 0, letters), cut=("tar", offs, end)))
    letters_r, offs_r, end_r = make_tar(d / "in_r.tar", files, root_prefix="dir1")
    jt = str(rng.choice([1, 2, 3]))
    cases.append(Case("t2s-root", "tar2sqfs", ["-b", str(BS), "-j", jt, "-r", "dir1", "-q", "@OUT@"], "file", stdin=str(d / "in_r.tar"),
                      model=("packer", "t2s", "q", 0, letters_r), cut=("tar", offs_r, end_r), mt=jt != "1"))
    # compressed input (xfrm istream between the file and the tar parser), no xattrs copied, --no-skip
    import gzip as _gz
    with open(d / "in.tar", "rb") as fi, open(d / "in.tar.gz", "wb") as fo:
        with _gz.GzipFile(fileobj=fo, mode="wb", mtime=0, compresslevel=rng.choice([1, 6, 9])) as g:
            g.write(fi.read())
    import fnmatch as _fn
    excl = rng.choice(["dir2*", "dir1/*", "*.bin"])          # entries the tar iterator drops before process_tarball sees them
    letters_gz = "".join(l for l, nm in zip(letters, make_tar.names) if not _fn.fnmatchcase(nm, excl))
    if len(letters) != len(make_tar.names) or len(letters_gz) == len(letters):
        raise Infra("t2s-gz: --exclude-dir %s excludes nothing" % excl)
    cases.append(Case("t2s-gz", "tar2sqfs", ["-b", str(BS), "-j", "1", "-x", "--no-skip", "-E", excl, "-q", "@OUT@"], "file", stdin=str(d / "in.tar.gz"),
                      model=("packer", "t2s", "nq", 0, letters_gz), cut=("gz", os.path.getsize(d / "in.tar.gz")), plan="sys+sample:60"))
    # a compressed archive longer than the 128 KiB buffer of the file stream, in two gzip members, the first one exactly as
    # long as that buffer and ending between two tar entries: a failing second read must be an error, not the end of the input
    gzb, gzb_letters, gzb_m1 = make_gz_boundary(d / "in_b.tar.gz", rng)
    cases.append(Case("t2s-gzb", "tar2sqfs", ["-b", str(BS), "-j", "1", "-q", "@OUT@"], "file", stdin=str(gzb),
                      model=("packer", "t2s", "q", 0, gzb_letters), cut=("gz", os.path.getsize(gzb), [gzb_m1]), plan="sys+sample:25"))
    # archives with sparse members (old GNU format, PAX 0.1 and PAX 1.0 sparse maps): corpus/C13/tars
    sp = sorted((vlib.CORPUS / "C13" / "tars").glob("*.tar"))
    if len(sp) < 3:
        raise Infra("corpus/C13/tars: sparse archives missing")
    for i, tp in enumerate(sp):
        cases.append(Case("t2s-sparse%d" % i, "tar2sqfs", ["-b", str(BS), "-j", "1", "-q", "@OUT@"], "file", stdin=str(tp),
                          model=("packer", "t2s", "q", 0, "n"), plan="sys+sample:%d" % (60 if i == rng.randrange(len(sp)) else 25)))
    # ---- 512 directories + root = 513 inodes: the root's export-table slot is the first one beyond the initial
    # capacity of 512 entries, so add_export_table_entry has to grow the table inside write_export_table
    M = d / "many"
    M.mkdir()
    (M / "pack.txt").write_text("".join("dir m%04d 0755 0 0\n" % i for i in range(512)))
    cases.append(Case("gen-many", "gensquashfs", ["-F", str(M / "pack.txt"), "-j", "1", "-e", "-q", "@OUT@"], "file",
                      model=("packer", "gen", "pdeq", 0, "-"), plan="realloc-tail"))
    # ---- several compressor threads: teardown after a failure in the middle of a run
    jm = str(rng.choice([2, 3, 4]))
    cases.append(Case("gen-mt", "gensquashfs", ["-D", str(T), "-b", str(BS), "-j", jm, "-c", comp, "-q", "@OUT@"], "file",
                      model=("packer", "gen", "dq", nscan, "-"), plan="sample:%d" % (600 if thorough else 140), mt=True))
    # ---- an image for the readers, made by the (fault-free) packer built from the same tree
    img = d / "img.sqfs"
    r = vlib.sh([str(tools["gensquashfs"]), "-F", str(T / "pack.txt"), "-D", str(T), "-A", str(T / "xattr.txt"), "-b", str(BS), "-j", "1",
                 "-c", comp, "-e", "-q", str(img)], env=ctx.san_env(), timeout=TIMEOUT_ISOLATED, stdout=subprocess.DEVNULL)
    if r.returncode != 0:
        raise vlib.CheckFailure("cannot build the reader image: " + r.stderr[-1000:])
    img2 = d / "img_nox.sqfs"             # an image without any extended attribute (SQFS_FLAG_NO_XATTRS)
    r = vlib.sh([str(tools["gensquashfs"]), "--pack-dir", str(R / "in"), "-b", str(BS), "-j", "1", "-q", str(img2)], env=ctx.san_env(),
                timeout=TIMEOUT_ISOLATED, stdout=subprocess.DEVNULL)
    if r.returncode != 0:
        raise vlib.CheckFailure("cannot build the second reader image: " + r.stderr[-1000:])
    scomp = rng.choice(["gzip", "xz", "zstd"])
    catf = rng.choice(["big1.bin", "dir2/incompr.bin", "zero_big"])
    cases += [
        Case("s2t", "sqfs2tar", [str(img)], "stdout", model=("reader", "s2t", "-"), cut=("image",), stdout_faults=True),
        Case("s2t-c", "sqfs2tar", ["-c", scomp, str(img)], "stdout", model=("reader", "s2t", "c"), cut=("image",), stdout_faults=True),
        Case("s2t-sub", "sqfs2tar", ["-d", "dir1", "-d", "dir2", "--keep-as-dir", "-r", "new/root", "-X", "-s", str(img)], "stdout", model=("reader", "s2t", "-"),
             plan="sys+sample:40"),
        Case("rd-u", "rdsquashfs", ["-u", "/", "-p", "@OUT@", str(img)], "tree", model=("reader", "rd", "up"), cut=("image",), stdout_faults=True),
        Case("rd-ua", "rdsquashfs", ["-u", "/", "-C", "-O", "-T", "-X", "-p", "@OUT@", str(img)], "tree", model=("reader", "rd", "up")),
        Case("rd-c", "rdsquashfs", ["-c", catf, str(img)], "stdout", model=("reader", "rd", "c"), cut=("image",), stdout_faults=True),
        Case("rd-x", "rdsquashfs", ["-x", "a.txt", str(img)], "stdout", model=("reader", "rd", "x"), stdout_faults=True),
        Case("rd-d", "rdsquashfs", ["-d", str(img)], "stdout", model=("reader", "rd", "d"), stdout_faults=True),
        Case("rd-s", "rdsquashfs", ["-s", "dir1/big2.bin", str(img)], "stdout", model=("reader", "rd", "s"), stdout_faults=True),
        Case("rd-l", "rdsquashfs", ["-l", "dir1", str(img)], "stdout", model=("reader", "rd", "l"), stdout_faults=True, plan="sys+sample:30"),
        # an image without extended attributes: main skips the xattr reader (model flag N)
        Case("rd-d-nox", "rdsquashfs", ["-d", str(img2)], "stdout", model=("reader", "rd", "dN"), stdout_faults=True, plan="sys+sample:40"),
    ]
    for c in cases:
        if c.name in ("gen-F", "t2s"):
            c.stdout_faults = True            # the packers print progress and statistics: a write error there must not damage the image
    # ---- /repo's default configuration (pool allocator): a share of the cases a second time; every mmap made to fail
    for c in list(cases):
        if c.name in ("gen-F", "t2s", "s2t", "rd-u", "rd-ua", "rd-d"):
            cases.append(Case(c.name + "@pool", c.tool, c.argv, c.out_kind, stdin=c.stdin, cwd=c.cwd, rel_out=c.rel_out, model=c.model,
                              plan="pool:%d" % (120 if thorough else 35), cut=c.cut, pool=True))
    if thorough:
        cases.append(Case("s2t-nolinks", "sqfs2tar", ["--no-hard-links", str(img)], "stdout", model=("reader", "s2t", "L"), cut=("image",)))
        cases.append(Case("s2t-root", "sqfs2tar", ["-d", "dir1", "-r", "new/root", str(img)], "stdout", model=("reader", "s2t", "-")))
    return cases


def boundary_cases(ctx, d, thorough):
    """gensquashfs inputs sized just beyond the thresholds of growth_constants()"""
    G = growth_constants()
    d = Path(d)
    cases = []
    mb = G["meta_block"]
    # --- metadata: every table longer than one meta block, so that sqfs_write_table's append flushes *inside* its loop
    #     (export table 8 B/inode, id table 4 B/id, xattr id table 16 B/set), directory and inode table of several meta
    #     blocks, id / xattr pair / string / export arrays grown beyond their first capacity
    M = d / "bmeta"
    M.mkdir(parents=True)
    name_len = 40
    ndirs = max(G["export_init"] + 8, (3 * mb) // (8 + name_len) + 8, (2 * mb) // 32 + 8, mb // 8 + 40, mb // 4 + 20)
    nids = mb // 4 + 12
    nx = max(G["xattr_pairs"], G["array_first"], mb // 16) + 9
    lines, xl = [], []
    for i in range(ndirs):
        nm = ("directory_with_a_rather_long_name_%04d" % i).ljust(name_len, "x")
        lines.append("dir %s 0755 %d %d" % (nm, 1000 + (i % nids), 5))
        if i < nx:
            xl.append("# file: %s\nuser.k=\"value-%04d\"\n" % (nm, i))
    (M / "pack.txt").write_text("\n".join(lines) + "\n")
    (M / "xattr.txt").write_text("\n".join(xl))
    cases.append(Case("b-meta", "gensquashfs", ["-F", str(M / "pack.txt"), "-A", str(M / "xattr.txt"), "-c", "gzip", "-j", "1", "-e", "-q", "@OUT@"],
                      "file", model=("packer", "gen", "pdxeq", 0, "-"), plan="stratified"))
    # --- data: more blocks than the block writer's initial list (twice: second doubling inside the duplicate), a
    #     multi-block duplicate that is truncated away again, a block list per inode grown up to index ≥ blkwr_init,
    #     a duplicate tail whose fragment block is already on disk (read-back in chunk_info_equals → load_frag_block),
    #     more than one fragment block
    Dd = d / "bdata"
    Dd.mkdir()
    nblk = G["blkwr_init"] + 2
    big = det_bytes("bdata", nblk * BS + 700)
    (Dd / "a.bin").write_bytes(big)
    (Dd / "b.bin").write_bytes(big)
    for i in range(10):
        (Dd / ("t%d" % i)).write_bytes(det_bytes("tail%d" % i, 1000))
    (Dd / "u0").write_bytes(det_bytes("tail0", 1000))           # same bytes as t0, whose fragment block was written long ago
    (Dd / "u1").write_bytes(det_bytes("tail5", 1000))
    for p in sorted(Dd.rglob("*")):
        os.utime(p, (1000000000, 1000000000))
    os.utime(Dd, (1000000000, 1000000000))
    cases.append(Case("b-data", "gensquashfs", ["-D", str(Dd), "-b", str(BS), "-c", "gzip", "-j", "1", "-q", "@OUT@"], "file",
                      model=("packer", "gen", "dq", 14, "-"), plan="stratified"))
    if thorough:
        # more fragment blocks than the fragment table's first capacity (two 2100-byte unique tails per 4 KiB block)
        F = d / "bfrag"
        F.mkdir()
        nf = 2 * (G["array_first"] + 2)
        for i in range(nf):
            (F / ("f%04d" % i)).write_bytes(det_bytes("frag%d" % i, 2100))
        for p in sorted(F.rglob("*")):
            os.utime(p, (1000000000, 1000000000))
        os.utime(F, (1000000000, 1000000000))
        cases.append(Case("b-frag", "gensquashfs", ["-D", str(F), "-b", str(BS), "-c", "gzip", "-j", "1", "-q", "@OUT@"], "file",
                          model=("packer", "gen", "dq", nf, "-"), plan="stratified"))
    return cases, G


# ------------------------------------------------------------------------------------------------ enumeration plans
def plan_faults(ctx, case, base):
    """every position of every class; truncated input (EOF / short read) at every read of the input"""
    jobs = []
    cnt = base["report"]["count"]
    for cls in SYS_CLASSES:
        for side in ("in", "out"):
            n = cnt.get((cls, side), 0)
            for k in range(1, n + 1):
                kinds = KINDS if cls == "write" else ["EIO"] if cls == "fsop" else ["EIO", "EINTR"]
                for kind in kinds:
                    jobs.append({"cls": cls, "k": k, "side": side, "kind": kind})
    if case.cut is not None:
        n = cnt.get(("read", "in"), 0)
        for k in range(1, n + 1):
            jobs.append({"cls": "read", "k": k, "side": "in", "kind": "EOF"})
            jobs.append({"cls": "read", "k": k, "side": "in", "kind": "SHORT", "short": ctx.rng.choice([1, 17, 511, 512, 513, 1000, 3000])})
            if ctx.rng.random() < 0.5:
                jobs.append({"cls": "read", "k": k, "side": "in", "kind": "SHORT"})
        if case.cut[0] == "tar":
            # the archive ends at a structurally interesting place (the first read fills the 128 KiB stream buffer): one of
            # each kind always, more by the seed
            first = [x for x in case.cut[2][1] if x[1] < 131072 - 512]
            pick, seen = [], set()
            for kind, pos in first:
                if kind not in seen:
                    seen.add(kind)
                    pick.append(pos)
            rest = [pos for _, pos in first if pos not in pick]
            ctx.rng.shuffle(rest)
            for pos in pick + rest[:12 if ctx.quick() else len(rest)]:
                jobs.append({"cls": "read", "k": 1, "side": "in", "kind": "SHORT", "short": pos})
    for cls in ALLOC_CLASSES:
        n = cnt.get((cls, "in"), 0)
        for k in range(1, n + 1):
            jobs.append({"cls": cls, "k": k})
    return jobs


def plan_for(ctx, case, base, thorough):
    plan = case.plan
    if plan == "stratified":
        return plan_stratified(ctx, base, thorough)
    jobs = plan_faults(ctx, case, base)
    if plan == "full":
        return jobs
    if plan == "realloc-tail":
        n = base["report"]["count"].get(("realloc", "in"), 0)
        ks = list(range(1, n + 1))
        if not thorough and n > 200:          # the tail (finish phase) completely, the parsing phase sampled
            ks = sorted(set(ctx.rng.sample(range(1, n - 63), 100)) | set(range(n - 63, n + 1)))
        return [{"cls": "realloc", "k": k} for k in ks]
    m = re.match(r"(sys\+|pool:)?(?:sample:)?(\d+)$", plan)
    if not m:
        raise Infra("unknown plan " + plan)
    n = int(m.group(2)) * (4 if thorough and m.group(1) != "pool:" else 1)
    if m.group(1) == "pool:":
        keep = [j for j in jobs if j["cls"] == "mmap"]
        if not keep:
            raise Infra("pool-allocator build of %s made no mmap call: mempool.c is not in use" % case.name)
        rest = [j for j in jobs if j["cls"] in ALLOC_CLASSES and j["cls"] != "mmap"]
    elif m.group(1):
        keep = [j for j in jobs if j["cls"] in SYS_CLASSES and j.get("kind") in ("EIO", "ENOSPC")]
        rest = [j for j in jobs if j not in keep]
    else:
        keep, rest = [], jobs
    ctx.rng.shuffle(rest)
    return keep + rest[:n]


def plan_stratified(ctx, base, thorough):
    """boundary cases: every write-like call on the output (EIO), every truncate / read-back on the output; the
    allocation classes stratified by call site (hash of the six innermost return addresses, from the counting run's
    trace): every position of a site with few calls, first / last / spread sample of the mass sites"""
    lim = {"realloc": 64 if thorough else 12, "malloc": 16 if thorough else 3, "calloc": 16 if thorough else 3, "strdup": 8 if thorough else 2,
           "write": 10 ** 9, "trunc": 10 ** 9, "read": 64 if thorough else 12, "lseek": 8, "fsync": 8, "close": 4, "open": 8 if thorough else 3,
           "fsop": 4}
    jobs = []
    for (cls, side, h), ks in sorted(base["trace"].items()):
        if cls in SYS_CLASSES and side != "out" and cls != "open":
            continue                                   # input-side syscalls are covered by the small cases
        L = lim.get(cls, 3)
        ks = sorted(ks)
        if len(ks) > L:
            pick = {ks[0], ks[-1]}
            rest = [k for k in ks if k not in pick]
            step = max(1, len(rest) // max(1, L - 2))
            pick |= set(rest[ctx.rng.randrange(step)::step][:max(0, L - 2)])
            ks = sorted(pick)
        for k in ks:
            if cls in SYS_CLASSES:
                jobs.append({"cls": cls, "k": k, "side": side, "kind": "ENOSPC" if cls == "write" else "EIO"})
                if thorough and cls == "write" and k % 3 == 0:
                    jobs.append({"cls": cls, "k": k, "side": side, "kind": "EINTR"})
            else:
                jobs.append({"cls": cls, "k": k})
    return jobs


# ------------------------------------------------------------------------------------------------ oracle
FIN_MSGS = [("Waiting for remaining data blocks...", "waiting"), ("Writing inodes and directories...", "inodes"),
            ("Writing fragment table...", "fragtbl"), ("Writing export table...", "exporttbl"),
            ("Writing ID table...", "idtbl"), ("Writing extended attributes...", "xattrs")]


def real_msgs(stdout):
    out = []
    for l in stdout.splitlines():
        for text, tag in FIN_MSGS:
            if l.strip() == text:
                out.append(tag)
    return ",".join(out) if out else "-"


def parse_model(line):
    if line == "bad-op" or "=" not in line:
        raise Infra("model driver answered %r" % line)
    return dict(kv.split("=", 1) for kv in line.split())


def verdict_py(o):
    """mirror of Sqfs.FailStop.Spec.verdict (cross-checked against the Lean definition on every distinct observation)"""
    if o["crashed"]:
        return "crash"
    if o["exit0"]:
        return "ok" if o["same"] else "exit0-different-output"
    if o["packer"] and o["left"]:
        return "failure-output-left"
    if not o["diag"]:
        return "failure-no-diagnostic"
    return "ok"


def observe(case, base, r, same=None):
    packer = case.out_kind == "file"
    crashed = r["timeout"] or r["rc"] < 0 or r["rc"] >= 90
    # a diagnostic = something on stderr that the fault-free run does not print (its stderr is required to be empty
    # for every case but those listed in process_case; then: anything at all)
    diag = bool(r["stderr"].strip()) and r["stderr"].strip() != base["stderr"].strip()
    return {"crashed": crashed, "exit0": r["rc"] == 0, "diag": diag, "packer": packer,
            "left": packer and r["out"] != "absent", "same": (r["out"] == base["out"]) if same is None else same}


def cls_group(cls):
    return "mmap" if cls == "mmap" else "alloc" if cls in ALLOC_CLASSES else cls


def count_files(root):
    """regular files a directory scan packs: one per inode (further names of the same inode become hard links)"""
    return len({(p.lstat().st_dev, p.lstat().st_ino) for p in Path(root).rglob("*") if p.is_file() and not p.is_symlink()})


class Dedup:
    """one VIOLATION / KNOWN-FINDING per key and run; further hits of the same key are counted"""

    def __init__(self, ctx):
        self.ctx, self.count = ctx, {}

    def __call__(self, key, what, replay, found_input=True):
        self.count[key] = self.count.get(key, 0) + 1
        if self.count[key] == 1:
            self.ctx.violation(key, what, replay, found_input)


def driver_lines(ctx, lines):
    """one answer per query, or the check's machinery is broken"""
    if not lines:
        return []
    out = ctx.driver(["c13"], "\n".join(lines) + "\n")
    if len(out) != len(lines):
        raise Infra("model driver answered %d lines to %d queries" % (len(out), len(lines)))
    return out


def model_cfg(case, base_items):
    """driver arguments describing the case; the per-input counts of the readers come from the fault-free run"""
    m = case.model
    if m[0] == "packer":
        return "run %%s %s %s %d %s" % (m[1], m[2], m[3], m[4]), True
    names = [it[1] for it in base_items if it[0] == "site"]
    if m[1] == "s2t":
        n = sum(1 for x in names if x.startswith("sEntry:"))
    else:
        n = sum(1 for x in names if x.startswith("rSplice:"))
    return "rrun %%s %s %s %d" % (m[1], m[2], n), False


# ------------------------------------------------------------------------------------------------ truncated input: the reference
class CutRef:
    """what the tool makes of the input as it appears after the cut (same bytes, genuinely shorter file)"""

    def __init__(self, ctx, case, exe, skel, env, work):
        self.ctx, self.case, self.exe, self.skel, self.env, self.work = ctx, case, exe, skel, env, work
        self.cache = {}

    def get(self, path, off):
        key = (path, off)
        if key in self.cache:
            return self.cache[key]
        c, ref = self.case, None
        d = self.work / ("cut_%d" % len(self.cache))
        if c.cut[0] in ("tar", "gz") and c.stdin and os.path.realpath(path) == os.path.realpath(c.stdin):
            d.mkdir(parents=True)
            (d / "in.tar").write_bytes(Path(c.stdin).read_bytes()[:off])
            ref = run_case(c, self.exe, d / "w", self.skel, None, env_base=self.env, timeout=TIMEOUT_ISOLATED, stdin_override=str(d / "in.tar"))
        elif c.cut[0] == "tree" and os.path.realpath(path).startswith(os.path.realpath(c.cut[1]) + "/"):
            root = Path(os.path.realpath(c.cut[1]))
            rel = Path(os.path.realpath(path)).relative_to(root)
            shutil.copytree(root, d / "t", symlinks=True, copy_function=os.link)     # hard links: same inodes, link structure kept
            st0 = (root / rel).lstat()
            same = [p.relative_to(root) for p in root.rglob("*") if not p.is_symlink() and p.is_file() and p.lstat().st_ino == st0.st_ino]
            new = d / "cutfile"
            new.write_bytes((root / rel).read_bytes()[:off])
            os.utime(new, ns=(st0.st_atime_ns, st0.st_mtime_ns))
            for q_ in same:                               # every name of the file that was cut
                (d / "t" / q_).unlink()
                os.link(new, d / "t" / q_)
            for q_ in {x.parent for x in same}:           # directory time stamps as in the original
                st_ = (root / q_).lstat()
                os.utime(d / "t" / q_, ns=(st_.st_atime_ns, st_.st_mtime_ns))
            ref = run_case(c, self.exe, d / "w", self.skel, None, env_base=self.env, timeout=TIMEOUT_ISOLATED, argv_subst={str(c.cut[1]): str(d / "t")})
        shutil.rmtree(d, ignore_errors=True)
        self.cache[key] = ref
        return ref


def judge_cut(case, base, r, cutref):
    """(same, note): is the output of a run on truncated input acceptable if it exits 0?"""
    cut = r["report"]["cut"]
    if r["rc"] != 0 or r["out"] == base["out"]:
        return r["out"] == base["out"], "-"
    if cut is None:
        return False, "no-cut-report"
    path, off = cut
    if case.cut[0] == "image":
        return False, "image"                # a shortened image never legitimately reads as something else
    if case.cut[0] == "gz" and 0 < off < case.cut[1] and off not in (case.cut[2] if len(case.cut) > 2 else []):
        return False, "mid-stream"           # a compressed stream that ends inside a member must be refused (an empty input is an
                                             # empty archive; the end of a member is the end of a valid, shorter file: reference run)
    if case.cut[0] == "tar":
        bounds, end = case.cut[1], case.cut[2][0]
        if off < end and off not in bounds:
            return False, "mid-record"       # the archive ends inside a header or inside file data: must be reported
    ref = cutref.get(path, off)
    if ref is None:
        return False, "no-reference"
    return (ref["rc"] == 0 and ref["out"] == r["out"]), "reference rc=%d" % ref["rc"]


# Sites that are known to absorb a failure of an operation inside them, the run failing at a later site instead (tool,
# site the fault fired in, site that reports).  Each entry is a place where the *implementation* does not satisfy
# first_failure_stops although the statement of C13 is met (non-zero exit, diagnostic, output removed):
#   tar_open_stream (lib/tar/src/iterator.c:390-392): `ret = strm->get_buffered_data(...); if (ret != 0) goto out_strm;` — a read
#   error while probing for a compressed stream is taken as "not compressed".  With a persistent error the next read
#   (it_next) reports it; with a single transient one a compressed archive is then refused by the tar parser ("input is
#   not a ustar tar archive", exit 1).  An uncompressed archive is simply read again (exit 0, same output: tolerated).
ABSORBED = {("tar2sqfs", "tarOpen", "tarNext")}

# ------------------------------------------------------------------------------------------------ one case
WHAT = {"crash": "crashes / hangs / sanitizer report", "exit0-different-output": "exits 0 with an output that differs from the fault-free run",
        "failure-output-left": "fails but leaves its partial output file behind", "failure-no-diagnostic": "fails without any diagnostic on stderr"}


def process_case(ctx, case, tools, syms, skels, env, work, report, stats, thorough, nworkers, acc):
    tkey = case.tool + ("@pool" if case.pool else "")
    exe, st, skel = tools[tkey], syms[tkey], skels[tkey]
    skel_addrs = {int(x, 16) for x in skel.split(",")}
    base = run_case(case, exe, work / "base", skel, None, env_base=env, timeout=TIMEOUT_ISOLATED, trace=case.plan == "stratified")
    if base["rc"] != 0 or base["out"] == "absent":
        report("base:" + case.name, "fault-free run of %s fails: rc=%s %s" % (case.name, base["rc"], base["stderr"][-300:]),
               {"case": case.name, "argv": case.argv}, found_input=False)
        return
    if not base["report"]["present"] or not base["sites_ok"] or not base["sites"]:
        raise Infra("fault-free run of %s produced no report / no complete call log" % case.name)
    if base["stderr"].strip():
        # a fault-free run that already prints to stderr would make "diagnostic" meaningless: only differences count then
        stats["noisy_baselines"].append(case.name)
    base2 = run_case(case, exe, work / "base2", skel, None, env_base=env, timeout=TIMEOUT_ISOLATED)
    if base2["out"] != base["out"]:
        report("nondet:" + case.name, "two fault-free runs of %s differ" % case.name, {"case": case.name}, found_input=False)
        return
    items_b = map_log(case.tool, st, base["sites"])

    def unknowns(items, replay):
        bad = sorted({(it[2], it[3]) for it in items if it[0] == "unknown"})
        for parent, callee in bad:
            report("corr:unknown-call:%s:%s->%s" % (case.tool, parent, callee),
                   "%s calls %s, which the model of %s does not know (neither a site nor a listed helper): the skeleton changed"
                   % (parent, callee, case.tool), replay, found_input=False)
        return bool(bad)
    model_ok = not unknowns(items_b, {"case": case.name, "argv": case.argv})
    real_ff = [it[1] for it in items_b if it[0] == "site"]
    if [it for it in items_b if it[0] == "unlink"]:
        model_ok = False
        report("corr:faultfree-unlink:" + case.name, "the fault-free run of %s calls unlink on its output" % case.name, {"case": case.name}, found_input=False)
    qfmt, packer = model_cfg(case, items_b)
    # `cur` = /repo as it is, `fix` = /repo + fixes/C13-check-stdout-errors.patch (the two differ for rdsquashfs only; the
    # first that matches is taken, so everything but rdsquashfs is always compared with `cur`).  A tree that matches neither
    # is a correspondence violation — also the source before b5ce20d (`old`), which is tried only to say so in the report.
    variants = ["cur", "fix"]

    def q(v, faults):
        return (qfmt % v) + " " + faults
    ff = [parse_model(x) for x in driver_lines(ctx, [q(v, "-") for v in variants])]
    if len(ff) != len(variants):
        raise Infra("model answers / variants mismatch")
    tree_variant, model_ff = None, None
    for v, m in zip(variants, ff):
        if m["ran"] == (",".join(real_ff) or "-") and m["status"] == "0" and (not packer or m["msgs"] == real_msgs(base["stdout"])):
            tree_variant = v
            model_ff = m
            break
    if tree_variant is None:
        model_ok = False
        mm = ff[0]["ran"].split(",")
        i = next((i for i, (a, b) in enumerate(zip(mm, real_ff)) if a != b), min(len(mm), len(real_ff)))
        old = parse_model(driver_lines(ctx, [q("old", "-")])[0]) if packer else None
        hint = " — this is the program of the source before b5ce20d (no realpath of the output name)" if old and old["ran"] == ",".join(real_ff) else ""
        report("corr:faultfree:" + case.name,
               "fault-free call sequence of %s differs from the model's program at position %d: real %s, model %s (real msgs %s, model msgs %s)%s"
               % (case.name, i, real_ff[i:i + 3], mm[i:i + 3], real_msgs(base["stdout"]), ff[0].get("msgs"), hint),
               {"case": case.name, "argv": case.argv, "real": real_ff, "model": mm}, found_input=False)
    acc["tree_variant"].setdefault(tree_variant, []).append(case.name)
    # from here on the model of the source the tree turned out to be: /repo as it is, or the repaired one
    variants = [tree_variant or "cur"]
    jobs = plan_for(ctx, case, base, thorough)
    if not jobs:
        raise Infra("no fault position planned for %s (counting run reported nothing)" % case.name)
    cutref = CutRef(ctx, case, exe, skel, env, work) if case.cut else None

    def one(i):
        return jobs[i], run_case(case, exe, work / ("%s_%d" % (case.name, i)), skel, jobs[i], env_base=env)
    with concurrent.futures.ThreadPoolExecutor(nworkers) as ex:
        results = list(ex.map(one, range(len(jobs))))
    if len(results) != len(jobs):
        raise Infra("lost results for %s" % case.name)
    for i, (f, r) in enumerate(results):
        if r["timeout"]:
            # a timeout under load is not a hang: repeat the one case alone with a much longer limit
            stats["timeouts_rerun"] = stats.get("timeouts_rerun", 0) + 1
            results[i] = (f, run_case(case, exe, work / ("%s_iso" % case.name), skel, f, env_base=env, timeout=TIMEOUT_ISOLATED))
    cstat = stats["by_case"].setdefault(case.name, {"faults": len(jobs), "fired": 0, "verdicts": {}, "model_compared": 0})
    pending, queries = [], []
    for f, r in results:
        stats["runs"] += 1
        rep = r["report"]
        if not rep["present"] and not r["timeout"]:
            report("infra:noreport:" + case.name, "run of %s with fault %s left no report" % (case.name, f), {"case": case.name, "fault": f}, found_input=False)
            continue
        if not rep["fired"] and not r["timeout"]:
            if case.mt and r["rc"] == 0 and r["out"] == base["out"]:
                stats["mt_not_reached"] = stats.get("mt_not_reached", 0) + 1     # allocation counts depend on thread timing
                continue
            report("infra:notfired:%s:%s" % (case.name, f["cls"]), "fault %s did not fire in %s" % (f, case.name), {"case": case.name, "fault": f}, found_input=False)
            continue
        stats["fired"] += 1
        cstat["fired"] += 1
        is_cut = f.get("kind") in CUT_KINDS
        same, cutnote = judge_cut(case, base, r, cutref) if is_cut else (None, "-")
        o = observe(case, base, r, same)
        v = verdict_py(o)
        acc["monitor"].add(("monitor %d %d %d %d %d %d" % tuple(int(o[k]) for k in ("crashed", "exit0", "diag", "packer", "left", "same")), v))
        frames = project_frames(resolve_bt(exe, rep["bt"]))
        inner = frames[0][0] if frames else "?"
        acc["distinct"].add((case.tool, cls_group(f["cls"]), inner, frames[1][0] if len(frames) > 1 else ""))
        tag = v if v != "ok" else ("ok-same" if o["exit0"] and r["out"] == base["out"] else "ok-shorter-input" if o["exit0"] else "ok-failed-clean")
        for dct in (stats["verdicts"], cstat["verdicts"]):
            dct[tag] = dct.get(tag, 0) + 1
        if is_cut:
            stats["cut"][tag] = stats["cut"].get(tag, 0) + 1
        items = map_log(case.tool, st, r["sites"])
        real_ran = [it[1] for it in items if it[0] == "site"]
        unl = [it[1] for it in items if it[0] == "unlink"]
        stepfn = step_function(st, rep["stack"]) if rep["stack"] else (inner if inner != "?" else "?")
        replay = {"case": case.name, "fault": f, "input_seed": ctx.seed, "tier": ctx.tier, "rc": r["rc"], "verdict": v, "cut": cutnote,
                  "backtrace": ["%s@%s" % x for x in frames[:8]], "stderr": r["stderr"][-600:], "sites_run": real_ran[-4:], "unlink": unl}
        key = "%s:%s:%s@%s" % (case.tool, cls_group(f["cls"]), v, stepfn)
        if v == "failure-output-left" and unl and unl[-1] == "miss":
            # the cleanup did call unlink, but the name it used does not designate the output file from where the process is
            key = "%s:failure-output-left:unlink-misses-relative-name" % case.tool
        if is_cut and v != "ok":
            # where the read that met the end happened says nothing; what the tool made of the shortened input does
            key = "%s:truncated-input:%s:%s" % (case.tool, v, cutnote.split()[0])
        if len(acc["samples"]) < 12 and (v != "ok" or stats["runs"] % 211 == 0):
            acc["samples"].append({"case": case.name, "fault": f, "verdict": v, "rc": r["rc"], "failing_site": real_ran[-1] if real_ran and not o["exit0"] else None,
                                   "innermost": inner, "stderr": r["stderr"].strip()[-160:]})
        if case.out_kind == "file" and not o["exit0"] and f.get("kind") != "EINTR":
            pw = str(rep.get("post", 0))
            stats["post_fault_output_writes"][pw] = stats["post_fault_output_writes"].get(pw, 0) + 1
        ent = {"f": f, "r": r, "o": o, "v": v, "key": key, "replay": replay, "ran": real_ran, "unl": unl, "q": None, "pos": None, "where": "-"}
        pending.append(ent)
        if o["crashed"] or not model_ok:
            continue
        if not r["sites_ok"]:
            report("infra:nositelog:" + case.name, "run of %s with fault %s exited %d without a complete call log" % (case.name, f, r["rc"]), replay, found_input=False)
            continue
        if unknowns(items, replay):
            continue
        ent["pos"], ent["where"] = fault_position(case.tool, st, skel_addrs, items, r["sites"], rep)
        if ent["pos"] is None:
            stats["outside_model"][ent["where"].split(":")[0]] = stats["outside_model"].get(ent["where"].split(":")[0], 0) + 1
        if o["exit0"]:
            ent["q"] = "ff"
        elif real_ran:
            ent["q"] = len(queries)
            queries += [q(vv, "@%d" % (len(real_ran) - 1)) for vv in variants]
        else:
            stats["outside_model"]["before-first-site"] = stats["outside_model"].get("before-first-site", 0) + 1
    answers = driver_lines(ctx, queries)
    for ent in pending:
        f, r, o, v, key, replay = ent["f"], ent["r"], ent["o"], ent["v"], ent["key"], ent["replay"]
        if ent["q"] == "ff":
            if r["out"] == base["out"]:
                stats["tolerated"] += 1
                tk = "%s:%s" % (cls_group(f["cls"]), r["report"].get("fn") or "?")
                stats["tolerated_by_call"][tk] = stats["tolerated_by_call"].get(tk, 0) + 1
                if ",".join(ent["ran"]) != model_ff["ran"] or (packer and real_msgs(r["stdout"]) != model_ff["msgs"]) or ent["unl"]:
                    acc["corr_bad"] += 1
                    report("corr:exit0-trace:" + key, "exit 0 with the fault-free output, but the calls made differ from the model's fault-free program", replay, found_input=False)
            else:
                stats["cut_accepted" if v == "ok" else "exit0_different"] = stats.get("cut_accepted" if v == "ok" else "exit0_different", 0) + 1
        elif ent["q"] is not None:
            stats["model_compared"] += 1
            cstat["model_compared"] += 1
            ms = [parse_model(answers[ent["q"] + j]) for j in range(len(variants))]
            k = len(ent["ran"]) - 1
            kind = ent["ran"][k].split(":")[0]
            acc["sites_failed"][kind] = acc["sites_failed"].get(kind, 0) + 1

            def agrees(m):
                if m["status"] != "1" or m["ran"] != ",".join(ent["ran"]):
                    return False
                if (m["diag"] == "1") != o["diag"]:
                    return False
                if packer:
                    if (m["out"] == "present") != o["left"] or m["msgs"] != real_msgs(r["stdout"]):
                        return False
                    if m["unlink"] != (ent["unl"][-1] if ent["unl"] else "none") or len(ent["unl"]) > 1:
                        return False
                return True
            if agrees(ms[0]):
                if packer and ms[0]["out"] == "present":
                    acc["model_predicts_output_left"] += 1     # the defect the model of the unrepaired source knows (Witness.C13); the oracle flags it below
            else:
                acc["corr_bad"] += 1
                report("corr:" + key, "a fault in %s (call #%d of class %s): the run differs from the model — real: last sites %s, left=%s diag=%s unlink=%s msgs=%s; "
                       "model: %s" % (ent["ran"][k], f["k"], f["cls"], ent["ran"][-3:], o["left"], o["diag"], ent["unl"], real_msgs(r["stdout"]),
                                      " | ".join("ran=..%s out=%s diag=%s unlink=%s msgs=%s" % (",".join(m["ran"].split(",")[-3:]), m.get("out"), m["diag"], m.get("unlink"), m.get("msgs")) for m in ms)),
                       dict(replay, real_ran=ent["ran"], model=[answers[ent["q"] + j] for j in range(len(variants))]), found_input=False)
            # first_failure_stops, evaluated on the implementation: the site in which the fault fired is the last one executed
            if ent["pos"] is not None and ent["pos"] != k and (case.tool, ent["ran"][ent["pos"]].split(":")[0], ent["ran"][k].split(":")[0]) in ABSORBED:
                # declared: the site absorbs this failure and a later site reports the consequence (see ABSORBED)
                stats["absorbed"] = stats.get("absorbed", 0) + 1
            elif ent["pos"] is not None and f.get("kind") not in ("EINTR", "EOF", "SHORT") and r["report"]["thread"] == 1 and ent["pos"] != k:
                acc["corr_bad"] += 1
                report("corr:late-failure:" + key, "the fault fired in site #%d (%s) but the run went on to site #%d (%s) before it failed"
                       % (ent["pos"], ent["ran"][ent["pos"]] if ent["pos"] < len(ent["ran"]) else "?", k, ent["ran"][k]), replay, found_input=False)
        if v != "ok" and key.endswith(":unlink-misses-relative-name"):
            report(key, "%s fails (here: %s call #%d in %s) but leaves its partial output file behind: pack_files() has changed into the pack directory and "
                        "sqfs_writer_cleanup() unlinks the *relative* output name from there" % (case.tool, f["cls"], f["k"], ent["ran"][-1] if ent["ran"] else "?"), replay)
        elif v != "ok" and ":truncated-input:" in key:
            report(key, "%s %s when its input ends early (%s; the input appears to be %s bytes long)"
                   % (case.tool, WHAT[v], replay["cut"], r["report"]["cut"][1] if r["report"]["cut"] else "?"), replay)
        elif v != "ok":
            report(key, "%s %s when the %s call #%d (%s) fails in %s [%s]" % (case.tool, WHAT[v], f["cls"], f["k"], f.get("kind", "NULL"), key.split("@")[-1] if "@" in key else "cleanup",
                                                                                " <- ".join(x.split("@")[0] for x in replay["backtrace"][:4])), replay)
    if cstat["fired"] == 0:
        raise Infra("no fault fired in %s" % case.name)
    if case.mt and cstat["fired"] * 2 < len(jobs):
        raise Infra("%s: only %d of %d planned faults fired" % (case.name, cstat["fired"], len(jobs)))
    if case.stdout_faults:
        stdout_class(ctx, case, exe, st, skel, env, work, base, items_b, real_ff, q, tree_variant if model_ok else None, packer, report, stats, acc)


# ------------------------------------------------------------------------------------------------ fault class `stdout`
STDOUT_FN = {"d": "describe_tree", "l": "list_files", "s": "stat_file", "x": "dump_xattrs", "c": "sqfs_istream_splice", "u": "fill_unpacked_files"}


def stdout_class(ctx, case, exe, st, skel, env, work, base, items_b, real_ff, q, variant, packer, report, stats, acc):
    """standard output cannot be written (ENOSPC on /dev/full, EBADF on a closed descriptor, EPIPE on a pipe nobody reads) —
    "any system call on the output fails" for the tools whose output *is* standard output; for the others (progress
    lines of the packers and of rdsquashfs -u) the result must not be damaged.  stderr on /dev/full: a fault-free run must
    stay fault-free.  The shim cannot inject these (stdio's writes are libc-internal), the environment can."""
    sstat = stats["stdout_class"]
    for kind in STDOUT_KINDS + ["errfull"]:
        r = run_case(case, exe, work / ("%s_%s" % (case.name, kind)), skel, None, env_base=env, timeout=TIMEOUT_ISOLATED, stdio=kind)
        stats["runs"] += 1
        sstat["runs"] += 1
        if not r["report"]["present"] or not r["sites_ok"]:
            if not (r["timeout"] or r["rc"] < 0 or r["rc"] >= 90):
                raise Infra("%s with stdout fault %s left no report / call log" % (case.name, kind))
        if case.out_kind == "stdout" and kind != "errfull":
            # nothing can be captured: the output is the fault-free one only if there was nothing to write
            same = base["out_len"] == 0
        else:
            same = r["out"] == base["out"]
        o = observe(case, base, r, same)
        if kind == "errfull":
            o["diag"] = True                       # diagnostics are not observable; everything else is
        v = verdict_py(o)
        acc["monitor"].add(("monitor %d %d %d %d %d %d" % tuple(int(o[k]) for k in ("crashed", "exit0", "diag", "packer", "left", "same")), v))
        tag = "%s:%s" % (kind, v if v != "ok" else ("ok-exit0" if o["exit0"] else "ok-failed-clean"))
        sstat["verdicts"][tag] = sstat["verdicts"].get(tag, 0) + 1
        items = map_log(case.tool, st, r["sites"])
        real_ran = [it[1] for it in items if it[0] == "site"]
        opf = "main"
        if case.model and case.model[0] == "reader":
            opf = "write_entry" if case.model[1] == "s2t" else next((STDOUT_FN[c] for c in case.model[2] if c in STDOUT_FN), "main")
        key = "%s:stdout:%s@%s" % (case.tool, v, opf)
        replay = {"case": case.name, "stdio": kind, "input_seed": ctx.seed, "tier": ctx.tier, "rc": r["rc"], "verdict": v, "stderr": r["stderr"][-400:],
                  "sites_run": real_ran[-4:], "fault_free_output_bytes": base["out_len"]}
        if v != "ok":
            report(key, "%s %s when standard %s cannot be written (%s)%s" % (
                case.tool, WHAT[v], "error" if kind == "errfull" else "output",
                {"devfull": "no space: /dev/full", "closed": "descriptor closed", "epipe": "EPIPE, SIGPIPE ignored", "errfull": "/dev/full"}[kind],
                ": the %d bytes of results are lost, exit status 0, no diagnostic" % base["out_len"] if v == "exit0-different-output" and case.out_kind == "stdout" else ""), replay)
        # ---- the model (readers; the packers' skeleton has no stdout site: their progress output is not a result)
        if packer or variant is None or kind == "errfull" or o["crashed"]:
            continue
        if any(it[0] == "unknown" for it in items):
            continue
        if o["exit0"]:
            # every site ran; the write error can only have met libc's exit-time flush (position = number of sites)
            m = parse_model(driver_lines(ctx, [q(variant, "@%d" % len(real_ff))])[0])
            lost = base["out_len"] > 0 and case.out_kind == "stdout"
            ok = m["status"] == "0" and m["ran"] == (",".join(real_ran) or "-") and (m["lost"] == "1") == lost
            if ok and lost:
                acc["model_predicts_stdout_lost"] += 1      # the defect the model of the unrepaired source knows (Witness.C13.stdout_error_unreported)
        elif real_ran:
            m = parse_model(driver_lines(ctx, [q(variant, "@%d" % (len(real_ran) - 1))])[0])
            ok = m["status"] == "1" and m["ran"] == ",".join(real_ran) and (m["diag"] == "1") == o["diag"]
        else:
            continue
        sstat["model_compared"] += 1
        if not ok:
            acc["corr_bad"] += 1
            report("corr:stdout:" + key, "standard output fault %s in %s: real rc=%d sites ..%s, model %s" % (kind, case.name, r["rc"], real_ran[-3:], m),
                   dict(replay, model=m), found_input=False)


# ------------------------------------------------------------------------------------------------ layer 2: block processor API
BP_FIXED_SESSIONS = [
    # (file list) each file: (with inode, dont_fragment, units, class[, dont_deduplicate])   class: z zero | u unique | s shared
    [(1, 0, 10, "u"), (1, 0, 3, "z"), (1, 0, 10, "u")],
    [(1, 0, 3, "s"), (1, 0, 3, "s"), (1, 0, 2, "u"), (1, 0, 2, "u"), (1, 0, 1, "u")],       # duplicate fragment, fragment block overflow
    [(1, 0, 9, "z"), (1, 1, 6, "u"), (1, 0, 4, "u"), (1, 0, 0, "u")],                       # sparse blocks + tail, dont_fragment, exact block, empty
    [(1, 0, 9, "s"), (1, 0, 9, "s"), (0, 0, 5, "u")],                                        # duplicate blocks (block writer dedup), no inode
    [(1, 0, 1, "z"), (1, 0, 21, "u"), (1, 0, 2, "z")],                                       # inode growth at index 0 and 4
    [(1, 0, 9, "s"), (1, 0, 9, "s", 1), (1, 0, 9, "s")],                                     # SQFS_BLK_DONT_DEDUPLICATE in the middle
    [(1, 0, 3, "s"), (1, 0, 3, "u"), (1, 0, 3, "u"), (1, 0, 3, "u"), (1, 0, 2, "u"), (1, 0, 3, "s")],   # duplicate of a fragment whose block was written: read-back
]


def bp_tokens(files, sync_after=()):
    """tokens for the harness and for the model.  Model-only inputs: is a tail a duplicate of an earlier one, do the data
    blocks of a file repeat blocks written earlier.  Both follow from the content classes: h_c13_bp.c fills a shared
    (`s`) file of n units with byte i = 0x41 + (7 i + 1024 n) mod 23, so a block is identified by (phase, length) — two
    shared files of *different* length can have equal blocks; the block writer's search (block_writer.c
    deduplicate_blocks: the file's block list as a contiguous run anywhere in the list of blocks written so far, its own
    blocks included) is replayed here on those identifiers."""
    UNIT, B = 1024, 4096
    real, model, seen_tail, written, uniq = [], [], set(), [], 0
    for idx, fl in enumerate(files):
        i, d, n, c = fl[:4]
        nd = fl[4] if len(fl) > 4 else 0
        nbytes = n * UNIT
        full = nbytes // B
        tail = nbytes % B
        blocks = []
        for j in range(full + (1 if (d and tail) else 0)):
            ln = B if j < full else tail
            if c == "s":
                blocks.append(("s", (j * B * 7 + nbytes) % 23, ln))
            elif c == "u":
                uniq += 1
                blocks.append(("u", uniq, ln))
            # all-zero blocks are sparse: nothing is written, nothing is recorded
        dupb = False
        if blocks:
            start = len(written)
            written += blocks
            if not nd:
                for k in range(start):
                    if written[k:k + len(blocks)] == blocks:
                        dupb = True
                        written = written[:(k + len(blocks)) if len(blocks) >= start - k else start]
                        break
        real.append("B%d%d%d" % (i, d, nd))
        model.append("B%d%d%d%d" % (i, d, nd, 1 if dupb else 0))
        if n > 0:
            dup = False
            if c == "s" and tail != 0 and not d:
                tid = ((full * B * 7 + nbytes) % 23, tail)
                dup = tid in seen_tail
                seen_tail.add(tid)
            real.append("A%d:%s" % (n, c))
            model.append("A%d:%d%d" % (n, 1 if c == "z" else 0, 1 if dup else 0))
        real.append("E")
        model.append("E")
        if idx in sync_after:
            real.append("S")
            model.append("S")
    real.append("F")
    model.append("F")
    return real, model


def bp_kind(fns):
    """primitive kind(s) of Sqfs.FailStop.BP.Prim for a fault whose innermost project frames are fns"""
    if not fns:
        return None
    if "set_block_size" in fns:
        return ["growSparseTail"] if "process_completed_fragment" in fns else ["growSparseBlock", "growDataBlock"]
    if "load_frag_block" in fns or "chunk_info_equals" in fns:
        return ["htInsert"] if any(f.startswith("hash_table_insert") for f in fns) else ["fragLookup"]
    if any(f.startswith("hash_table_insert") or f == "hash_table_rehash" for f in fns):
        return ["htInsert"]
    if "store_block_location" in fns:
        return ["storeLocation"]
    if "check_file_range_equal" in fns:
        return ["dedupRead"]
    if "deduplicate_blocks" in fns:
        return ["dedupTruncate"]
    if "write_data_block" in fns:
        return ["writeAt"]
    if "sqfs_frag_table_set" in fns:
        return ["fragTableSet"]
    if "sqfs_frag_table_append" in fns:
        return ["fragTableAppend"]
    if fns[0] == "sqfs_block_processor_begin_file":
        return ["inodeAlloc"]
    if fns[0] == "get_new_block":
        return ["allocBlock"]
    if "submit" in fns[:2]:
        return ["submit"]
    if fns[0] == "alloc_flex" and len(fns) > 1 and fns[1] == "enqueue_block":
        return ["allocFragCopy"]
    if fns[0] == "process_completed_fragment":
        return ["allocChunk"]
    return None


def bp_build(ctx):
    shim = ctx.scratch / "shim_fault.o"
    lib = ctx.build_lib("fault", ALLOC_DEFS)
    ld = ["-no-pie", "-Wl," + ",".join("--wrap=" + x for x in WRAP_SYMS)]
    return ctx.cc("h_c13_bp", ["h_c13_bp.c"], flags=["-fno-pie"], libs=[str(shim), str(lib)] + vlib.CODEC_LIBS + ld)


def bp_phase(ctx, report, stats, nworkers, env, acc):
    exe = bp_build(ctx)
    sessions = list(BP_FIXED_SESSIONS)
    nrand = 4 if ctx.quick() else 16
    for _ in range(nrand):
        k = ctx.rng.randint(2, 6)
        ses = []
        for _ in range(k):
            c = ctx.rng.choice("uuzs")
            ses.append((1 if ctx.rng.random() < 0.9 else 0, 0 if c == "s" else (1 if ctx.rng.random() < 0.2 else 0),
                        ctx.rng.choice([0, 1, 2, 3, 4, 5, 7, 8, 9, 13, 17]), c, 1 if ctx.rng.random() < 0.15 else 0))
        sessions.append(ses)
    bstat = stats.setdefault("blockproc", {"sessions": len(sessions), "runs": 0, "fired_in_call": 0, "kinds": {}, "unreported": 0, "model_compared": 0})
    work = ctx.scratch / "bp"
    work.mkdir()

    def run_bp(tag, line, fault=None):
        e = dict(env)
        rep = work / ("rep_%s" % tag)
        out = work / ("out_%s" % tag)
        e.update({"VF_REPORT": str(rep), "VF_OUT": str(out)})
        if fault:
            e.update({"VF_CLASS": fault["cls"], "VF_K": str(fault["k"]), "VF_SIDE": "any", "VF_KIND": "EIO"})
        try:
            p = subprocess.run([str(exe), str(out)], input=(line + "\n").encode(), stdout=subprocess.PIPE, stderr=subprocess.PIPE, env=e, timeout=TIMEOUT_ISOLATED)
            rc, so, se = p.returncode, p.stdout.decode(), p.stderr.decode("utf-8", "replace")
        except subprocess.TimeoutExpired:
            rc, so, se = 124, "", "timeout"
        rp = parse_report(rep)
        counts = {}
        for (c, _side), n in rp["count"].items():
            counts[c] = counts.get(c, 0) + n
        if rep.exists():
            rep.unlink()
        if out.exists():
            out.unlink()
        return rc, so.strip(), se, counts, rp["bt"], rp["fired"], rp["present"]
    for si, files in enumerate(sessions):
        sync_after = {1} if si % 2 else set()
        real, model = bp_tokens(files, sync_after)
        line = " ".join(real)
        rc, so, se, counts, _, _, present = run_bp("base%d" % si, line)
        if not present:
            raise Infra("block processor harness left no report")
        mfree = driver_lines(ctx, ["bpfree cur %s" % ",".join(model)])[0]
        want = " ".join(x.split("/")[0] for x in mfree.split())
        base_digest = so.split("digest=")[1] if "digest=" in so else "?"
        if rc != 0 or so.split("fired=")[0].split() != want.split():
            report("corr:bp:faultfree:%d" % si, "block processor session %s: real %r (rc %d) vs model %r" % (line, so, rc, mfree),
                   {"session": line, "model": ",".join(model), "stderr": se[-300:]}, found_input=False)
            continue
        jobs = [{"cls": c, "k": k} for c in ALLOC_CLASSES + ["write", "read", "trunc"] for k in range(1, counts.get(c, 0) + 1)]
        if not jobs:
            raise Infra("block processor session %d: nothing to fault" % si)

        def one(i, line=line, si=si, jobs=jobs):
            return jobs[i], run_bp("%d_%d" % (si, i), line, jobs[i])
        with concurrent.futures.ThreadPoolExecutor(nworkers) as ex:
            results = list(ex.map(one, range(len(jobs))))
        queries, pend = [], []
        for f, (rc, so, se, _, bt, fired, present) in results:
            bstat["runs"] += 1
            replay = {"bp_session": line, "model_session": ",".join(model), "fault": f, "rc": rc, "stdout": so, "stderr": se[-400:]}
            if rc != 0 or "fired=" not in so:
                report("blockproc:%s:crash" % cls_group(f["cls"]), "block processor harness died (rc %d) on %s with fault %s: %s" % (rc, line, f, se[-300:]), replay)
                continue
            rcs = so.split("fired=")[0].split()
            j = int(so.split("fired=")[1].split()[0])
            digest = so.split("digest=")[1] if "digest=" in so else "?"
            if not fired or j < 0:
                bstat["outside_calls"] = bstat.get("outside_calls", 0) + 1
                continue                      # fired outside the armed region (set-up / tear-down)
            bstat["fired_in_call"] += 1
            pf = [fn for fn, _ in project_frames(resolve_bt(exe, bt))]
            kinds = bp_kind(pf)
            kname = "|".join(kinds) if kinds else "?"
            bstat["kinds"][kname] = bstat["kinds"].get(kname, 0) + 1
            replay["backtrace"] = pf[:8]
            # the theorem's statement, evaluated on the implementation: the call in progress returns an error
            reported = len(rcs) > j and rcs[j] == "err"
            if not reported and "err" not in rcs and digest == base_digest:
                # tolerated: no call failed and the result (file bytes and inodes) is the fault-free one
                # (e.g. hash_table_rehash failing: the insert still succeeds while the table has room)
                bstat["tolerated"] = bstat.get("tolerated", 0) + 1
                continue
            if not reported:
                bstat["unreported"] += 1
                report("blockproc:%s:unreported@%s" % (cls_group(f["cls"]), kname),
                       "sqfs_block_processor call #%d returns 0 although a %s primitive (%s) failed while it ran [%s]" % (j, f["cls"], kname, " <- ".join(pf[:4])), replay)
            if kinds:
                queries.append("bp cur %d %s %s" % (j, kname, ",".join(model)))
                pend.append((f, rcs, j, kname, reported, replay))
            else:
                report("corr:bp:kind:%s" % (pf[0] if pf else "?"), "fault site %s of the block processor has no primitive kind in the model" % pf[:4], replay, found_input=False)
        outl = driver_lines(ctx, queries)
        for n, (f, rcs, j, kname, reported, replay) in enumerate(pend):
            bstat["model_compared"] += 1
            m = outl[n]
            vec = m.split(" faulted=")[0].split() if " faulted=" in m else None
            if vec != rcs[:j + 1]:
                acc["corr_bad"] += 1
                report("corr:bp:%s" % kname, "block processor: real results %s (fault in call %d, %s) vs model %r" % (rcs, j, kname, m),
                       dict(replay, model=m), found_input=False)
    if bstat["fired_in_call"] == 0 or bstat["model_compared"] == 0:
        raise Infra("block processor layer: no fault fired inside an API call")


# ------------------------------------------------------------------------------------------------ the check
# sites that must have been made to fail at least once per run (coverage floor: if a generator stops reaching them the
# check is not doing its job); quick tier
FLOOR_SITES = ["openOut", "openHandle", "superWrite", "fstreeFromFile", "scanDir", "chdirPack", "nodePath", "packFile", "tarNext", "tarReadLink",
               "tarEntry", "postProcess", "procFinish", "serialize", "fragTable", "exportWrite", "idTable", "xattrFlush", "superRewrite", "pad",
               "sIterCreate", "sEntry", "sFlush", "rOpen", "rSuper", "rHierarchy", "rRestore", "rFill", "rAttribs", "rSplice",
               "rDescribe", "rDumpXattrs", "realpathOut"]
FLOOR_RUNS = {"quick": 2500, "thorough": 6000}


def random_for(seed):
    import random
    return random.Random("C13-input/%d" % seed)


def all_cases(ctx, tools, seed, thorough):
    cases = gen_cases(ctx, ctx.scratch / "in", random_for(seed), tools, thorough)
    bcases, growth = boundary_cases(ctx, ctx.scratch / "in", thorough)
    return cases + bcases, growth


def run(ctx):
    report = Dedup(ctx)
    ok, problems = vlib.proof_gate(ctx, MODULE, REQUIRED)
    if not ok:
        ctx.violation("proof:C13", "proof obligations of C13 no longer check: " + " | ".join(problems)[:1500],
                      {"broken": problems, "theorems_file": "lean/Sqfs/Props/C13.lean"}, found_input=False)
    tools, syms, skels = build_tools(ctx)
    env = ctx.san_env()
    work = ctx.scratch / "w"
    work.mkdir()
    thorough = not ctx.quick()
    cases, growth = all_cases(ctx, tools, ctx.seed, thorough)
    only = os.environ.get("C13_ONLY")                      # development aid: restrict to some cases (the floors then do not apply)
    if only:
        cases = [c for c in cases if c.name in only.split(",")]
    nworkers = int(os.environ.get("VERIF_JOBS", "0")) or (4 if ctx.quick() else max(4, vlib.NCPU - 2))
    stats = {"runs": 0, "fired": 0, "verdicts": {}, "by_case": {}, "post_fault_output_writes": {}, "model_compared": 0,
             "tolerated": 0, "tolerated_by_call": {}, "outside_model": {}, "cut": {}, "noisy_baselines": [],
             "stdout_class": {"runs": 0, "verdicts": {}, "model_compared": 0}}
    acc = {"monitor": set(), "distinct": set(), "samples": [], "corr_bad": 0, "model_predicts_output_left": 0, "model_predicts_stdout_lost": 0,
           "sites_failed": {}, "tree_variant": {}}
    for case in cases:
        t0 = time.time()
        process_case(ctx, case, tools, syms, skels, env, work, report, stats, thorough, nworkers, acc)
        stats["by_case"].get(case.name, {})["wall_s"] = round(time.time() - t0, 1)
    if not only or "bp" in only.split(","):
        bp_phase(ctx, report, stats, nworkers, env, acc)
    # the Lean specification evaluated on every distinct observation must agree with the Python mirror used above
    uniq = sorted(acc["monitor"])
    if not uniq and not only:
        raise Infra("no observation was judged")
    got = driver_lines(ctx, [l for l, _ in uniq])
    for (l, e), g in zip(uniq, got):
        if g != e:
            report("infra:monitor", "Spec.verdict (Lean) = %s but the runner computed %s on %s" % (g, e, l), {"line": l}, found_input=False)
    nbp = stats.get("blockproc", {}).get("runs", 0)
    never = [s for s in FLOOR_SITES if s not in acc["sites_failed"]]
    floor = []
    if not only:
        if stats["runs"] < FLOOR_RUNS[ctx.tier] or stats["model_compared"] < FLOOR_RUNS[ctx.tier] // 2:
            floor.append("%d runs, %d compared with the model" % (stats["runs"], stats["model_compared"]))
        if never:
            floor.append("no fault made these sites fail: %s" % never)
        sc = stats["stdout_class"]
        if sc["runs"] < 4 * 8 or sc["model_compared"] < 3 * 6:
            floor.append("fault class stdout: %d runs, %d compared with the model" % (sc["runs"], sc["model_compared"]))
        npool = sum(v.get("fired", 0) for k, v in stats["by_case"].items() if k.endswith("@pool"))
        nmmap = sum(1 for x in acc["distinct"] if x[1] == "mmap")
        if npool < 100 or nmmap == 0:
            floor.append("pool-allocator builds: %d fired faults, %d distinct mmap sites" % (npool, nmmap))
        if floor and not ctx.violations:
            # (when a correspondence violation was reported the model comparison of that case is skipped, which explains a
            # missed floor; otherwise the generators no longer reach the code and the check must not pass)
            raise Infra("coverage floor: " + "; ".join(floor))
    ctx.cov.update({
        "evaluations": stats["runs"] + nbp,
        "distinct_nontrivial": len(acc["distinct"]),
        "rule": "every single fault position of every class (write/read/trunc/open/lseek/fsync/close × in/out × EIO/EINTR-then-error(/ENOSPC for writes); "
                "fsop = chdir/mkdir/mknod/symlink/fstat/fstatat/dup/lsetxattr/utimensat/fchownat/fchmodat/readlinkat/l*xattr × EIO; malloc/calloc/realloc/strdup by project code; "
                "truncated input = EOF or a short read at every read of the input) found by a counting run, for gensquashfs (-F with xattr/sort/SELinux files and -D; "
                "relative output name × --pack-dir / -D . / no pack dir), tar2sqfs (plain and --root-becomes with links), sqfs2tar (plain, -c), rdsquashfs -u (plain and -C -O -T -X), "
                "-c, -x, -d, -s on a generated input (duplicate, fragment, all-zero tails, sparse blocks, hard link, xattrs, export table; extras, compressor, -j and "
                "-q depend on the seed); gen-mt: -j 2..4, sampled; boundary cases b-meta (every table > one meta block) / b-data (block list growth, duplicate "
                "fragment read back from disk) (/ b-frag in thorough): every output write/truncate, allocations stratified by call site; gen-many: realloc positions on a "
                "513-inode tree. Round 3: fsop also = opendir/fdopendir/readdir/fflush; class mmap in pool-allocator builds (…@pool cases: every mmap + 35 sampled "
                "allocations); class stdout (devfull/closed/epipe + stderr on /dev/full) for s2t, s2t-c, rd-u, rd-c, rd-x, rd-d, rd-s, rd-l, rd-d-nox, gen-F, t2s; "
                "cases gen-glob, gen-kx (--keep-xattr), t2s-gz (-x --no-skip -E glob), t2s-gzb, t2s-sparse0..2, s2t-sub, rd-l, rd-d-nox: every EIO/ENOSPC "
                "system call position + 25..70 sampled others. non-trivial = distinct (tool, class, innermost two project frames) at which a fault fired",
        "exhaustive": True,
        "samples": acc["samples"],
        "disagreements_checked": acc["corr_bad"],
        "runs_in_which_the_model_predicts_output_left": acc["model_predicts_output_left"],
        "runs_in_which_the_model_predicts_stdout_lost": acc["model_predicts_stdout_lost"],
        "tree_matches_variant": acc["tree_variant"],
        "sites_made_to_fail": acc["sites_failed"],
        "floor_missed": floor,
        "violation_keys": report.count,
        "histogram": stats,
        "workers": nworkers, "growth_constants": growth,
    })
    return ctx.finish(LEVEL, trusted_extra=[
        "harness/shim_fault.c (link-time syscall wrappers, allocation renames, -finstrument-functions call log) and tools/checks/c13.py (call → site table, oracle "
        "mirror, judgement of truncated input) are trusted; gcc's instrumentation reports every function entry",
        "the model's site order, reactions, phase structure, unlink target, diagnostics and progress messages are *compared* with every real run (call log, status, "
        "output, stderr, stdout); what happens below a site (tar parser, fstree, xattr writer, meta writers, readers) is established only by the enumeration "
        "(complete per input and single fault, not for all inputs)"],
        assumptions=["faults are single (one failing call per run; EINTR kind = EINTR then EIO on the retry; truncated input = the input ends at one point and stays ended)",
                     "third-party libraries' own allocations and the kernel are not faulted",
                     "two builds: plain malloc (-DNO_CUSTOM_ALLOC, every case) and /repo's default configuration (pool allocator mempool.c; the "
                     "cases named …@pool: every mmap of the pool + a sample of the other allocations)",
                     "a write error on standard output is produced by the environment (/dev/full, closed descriptor, pipe without reader with SIGPIPE "
                     "ignored), not by the shim: stdio's writes are libc-internal"])


def replay(ctx, path):
    body = json.loads(open(path).read())
    rp = body.get("replay", {})
    if "stdio" in rp:
        tools, syms, skels = build_tools(ctx)
        ctx.tier = rp.get("tier", "quick")
        cases, _ = all_cases(ctx, tools, rp.get("input_seed", 0), rp.get("tier", "quick") != "quick")
        hit = [c for c in cases if c.name == rp["case"]]
        if not hit:
            print("no case named", rp["case"])
            return 1
        case = hit[0]
        tkey = case.tool + ("@pool" if case.pool else "")
        base = run_case(case, tools[tkey], ctx.scratch / "w" / "base", skels[tkey], None, env_base=ctx.san_env(), timeout=TIMEOUT_ISOLATED)
        r = run_case(case, tools[tkey], ctx.scratch / "w" / "r", skels[tkey], None, env_base=ctx.san_env(), timeout=TIMEOUT_ISOLATED, stdio=rp["stdio"])
        same = (base["out_len"] == 0) if (case.out_kind == "stdout" and rp["stdio"] != "errfull") else r["out"] == base["out"]
        o = observe(case, base, r, same)
        if rp["stdio"] == "errfull":
            o["diag"] = True
        v = verdict_py(o)
        print("case   :", case.name, case.tool, " ".join(case.argv))
        print("stdio  :", rp["stdio"], "(fault-free run writes %d bytes to standard output)" % base["out_len"])
        print("exit   :", r["rc"])
        print("stderr :", r["stderr"].strip()[-400:])
        print("verdict:", v)
        return 0 if v == "ok" else 1
    if "fault" not in rp:
        print("replay file names a broken obligation, no input to replay:", json.dumps(rp)[:500])
        return 1
    env = ctx.san_env()
    if "bp_session" in rp:
        build_tools(ctx)
        exe = bp_build(ctx)
        out = ctx.scratch / "bp_out"
        res = []
        for fault in (None, rp["fault"]):
            e = dict(env)
            e.update({"VF_OUT": str(out), "VF_REPORT": str(ctx.scratch / "bp_rep")})
            if fault:
                e.update({"VF_CLASS": fault["cls"], "VF_K": str(fault["k"]), "VF_SIDE": "any", "VF_KIND": "EIO"})
            p = subprocess.run([str(exe), str(out)], input=(rp["bp_session"] + "\n").encode(), stdout=subprocess.PIPE, stderr=subprocess.PIPE, env=e, timeout=TIMEOUT_ISOLATED)
            res.append((p.returncode, p.stdout.decode().strip()))
        print("session   :", rp["bp_session"])
        print("fault-free:", res[0])
        print("fault %s:" % rp["fault"], res[1])
        so = res[1][1]
        if res[1][0] != 0 or "fired=" not in so:
            return 1
        rcs = so.split("fired=")[0].split()
        j = int(so.split("fired=")[1].split()[0])
        bad = j >= 0 and "err" not in rcs and so.split("digest=")[1] != res[0][1].split("digest=")[1]
        print("verdict   :", "unreported failure, result differs" if bad else "ok")
        return 1 if bad else 0
    tools, syms, skels = build_tools(ctx)
    ctx.tier = rp.get("tier", "quick")
    cases, _ = all_cases(ctx, tools, rp.get("input_seed", 0), rp.get("tier", "quick") != "quick")
    hit = [c for c in cases if c.name == rp["case"]]
    if not hit:
        print("no case named", rp["case"])
        return 1
    case = hit[0]
    tkey = case.tool + ("@pool" if case.pool else "")
    exe, st, skel = tools[tkey], syms[tkey], skels[tkey]
    base = run_case(case, exe, ctx.scratch / "w" / "base", skel, None, env_base=env, timeout=TIMEOUT_ISOLATED)
    r = run_case(case, exe, ctx.scratch / "w" / "r", skel, rp["fault"], env_base=env, timeout=TIMEOUT_ISOLATED)
    same = None
    if rp["fault"].get("kind") in CUT_KINDS:
        same, note = judge_cut(case, base, r, CutRef(ctx, case, exe, skel, env, ctx.scratch / "w"))
        print("cut    :", r["report"]["cut"], note)
    o = observe(case, base, r, same)
    v = verdict_py(o)
    frames = project_frames(resolve_bt(exe, r["report"]["bt"]))
    items = map_log(case.tool, st, r["sites"])
    print("case   :", case.name, case.tool, " ".join(case.argv), "(cwd %s)" % case.cwd if case.cwd else "")
    print("fault  :", rp["fault"], "fired:", r["report"]["fired"])
    print("at     :", " <- ".join("%s@%s" % x for x in frames[:8]))
    print("sites  :", " ".join(it[1] for it in items if it[0] == "site"))
    print("unlink :", [it[1] for it in items if it[0] == "unlink"])
    print("exit   :", r["rc"], "timeout" if r["timeout"] else "")
    print("output :", r["out"][:16], "(fault-free %s)" % base["out"][:16])
    print("stderr :", r["stderr"].strip()[-400:])
    print("verdict:", v)
    return 0 if v == "ok" else 1
