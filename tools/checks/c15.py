"""
C15 — stream compression of tar input/output is transparent.

Proof: Sqfs/Props/C15.lean (wrapper loops of istream_xfrm/ostream_xfrm terminate and are transparent for every
codec meeting the stated contract; the backends' process_data loops meet the contract for every library stream
meeting the documented calling convention; a concrete toy codec meets all of it).

Tie, on every run, built from the working tree ($VERIF_REPO) under ASan+UBSan:
 (a) real lib/xfrm/src/istream.c + ostream.c driven by the *fake* toy codec (harness/h_c15.c) vs `sqfsmodel c15`
     on the same scenarios: exhaustive small chunkings + seeded random, at several BUFSZ values (the constant
     is rewritten in a scratch copy) and at the real BUFSZ;
 (a') real gzip.c/xz.c/bzip2.c/zstd.c process_data loops over *fake* libraries (harness/h_c15w.c) vs the model;
 (b) real codecs at tool level: tar2sqfs on plain vs gzip/xz/zstd/bzip2 input (single stream, members split at
     arbitrary offsets, trailing padding/garbage, truncated, bit-flipped); `sqfs2tar -c X` expanded by reference
     decompressors (Python zlib/lzma/bz2, libzstd through harness/c15_zstd_ref.c) vs plain `sqfs2tar`;
     sizes around multiples of BUFSZ with incompressible data; everything under a timeout (a hang is a result).
"""
import gzip as pygzip, bz2, hashlib, io, json, lzma, os, re, subprocess, tarfile, zlib
from concurrent.futures import ThreadPoolExecutor
import vlib

LEVEL = "proof"
MODULE = "Sqfs.Props.C15"
REQUIRED = ["Sqfs.C15.ostream_transparent", "Sqfs.C15.ostream_transparent_single", "Sqfs.C15.ostream_flush_terminates",
            "Sqfs.C15.istream_transparent_stream", "Sqfs.C15.istream_transparent",
            "Sqfs.C15.truncated_is_error_stream", "Sqfs.C15.truncated_is_error", "Sqfs.C15.corrupt_is_error",
            "Sqfs.C15.process_data_meets_contract", "Sqfs.C15.zstd_istream_transparent", "Sqfs.C15.zstd_truncated_is_error",
            "Sqfs.C15.backend_ostream_transparent", "Sqfs.C15.backend_istream_transparent", "Sqfs.C15.backend_truncated_is_error",
            "Sqfs.C15.backend_corrupt_is_error", "Sqfs.C15.zstd_corrupt_is_error", "Sqfs.C15.toy_error_conventions_satisfiable",
            "Sqfs.C15.toy_dead_example",
            "Sqfs.C15.toy_library_meets_convention", "Sqfs.C15.toy_encoder_meets_contract", "Sqfs.C15.toy_decoder_meets_contract",
            "Sqfs.C15.toy_decode_encode", "Sqfs.C15.probe_spec"]
CODECS = ["gzip", "xz", "bzip2", "zstd"]
MAGIC_LEN = {"gzip": 3, "xz": 6, "zstd": 4, "bzip2": 3}
JOBS = int(os.environ.get("VERIF_JOBS", "3"))       # parallel tool runs (the machine may be shared)


_REPORTED = {}


def report(ctx, key, what, replay, found_input=True, cap=3):
    """ctx.violation, at most `cap` replays per key (a broken tree otherwise produces hundreds of identical reports)"""
    _REPORTED[key] = _REPORTED.get(key, 0) + 1
    if _REPORTED[key] <= cap:
        ctx.violation(key, what, replay, found_input)


def tok(b):
    return b.hex() if b else "-"


def untok(t):
    return b"" if t == "-" else bytes.fromhex(t)


# ------------------------------------------------------------------------------------------------ toy format
def toy_encode(x):
    out = bytearray()
    for b in x:
        out += bytes([1, b])
    out.append(0)
    return bytes(out)


def toy_decode_all(s):
    """independent decoder of a concatenation of toy members; None if malformed / incomplete"""
    out, i, n, in_member = bytearray(), 0, len(s), False
    while i < n:
        if s[i] == 0:
            i += 1; in_member = False
        elif s[i] == 1:
            if i + 1 >= n:
                return None
            out.append(s[i + 1]); i += 2; in_member = True
        else:
            return None
    return None if in_member else bytes(out)


# ------------------------------------------------------------------------------------------------ harness (a)
def bufsz_of(path):
    m = re.search(r"^#define\s+BUFSZ\s+\((\d+)\)\s*$", path.read_text(), re.M)
    return int(m.group(1)) if m else None


def build_fake_harness(ctx, bufsz, real):
    """h_c15 linked with the working tree's istream.c/ostream.c; for `real` the files are used as they are,
    otherwise a scratch copy with only the BUFSZ constant rewritten"""
    srcs = []
    for name in ("istream.c", "ostream.c"):
        p = vlib.REPO / "lib/xfrm/src" / name
        if real:
            srcs.append(str(p))
        else:
            text, n = re.subn(r"^(#define\s+BUFSZ\s+)\(\d+\)\s*$", r"\1(%d)" % bufsz, p.read_text(), flags=re.M)
            if n != 1:
                raise vlib.CheckFailure("cannot find the BUFSZ constant in %s" % p)
            q = ctx.scratch / ("b%d_%s" % (bufsz, name))
            q.write_text(text)
            srcs.append(str(q))
    return ctx.cc("h_c15_%d%s" % (bufsz, "r" if real else ""), ["h_c15.c"] + srcs, flags=["-DH_BUFSZ=%d" % bufsz])


def run_lines(ctx, exe, lines, timeout=1800):
    """run a line-protocol harness.  The harnesses arm a CPU-time watchdog per scenario: code under test that spins makes
    the harness finish the line with 'HANG' and exit 3 (independent of machine load).  A wall-clock timeout or an abort on
    one line is confirmed by running that line alone; the rest is re-run.  Returns one output per line
    ('... HANG' / 'ABORT rc ...' for offending lines)."""
    def once(ls, to):
        text = "\n".join(ls) + "\n"
        try:
            r = subprocess.run([str(exe)], input=text, capture_output=True, text=True, env=ctx.san_env(), timeout=to)
            return r.stdout.splitlines(), r.returncode, r.stderr
        except subprocess.TimeoutExpired as e:
            o = e.stdout or ""
            if isinstance(o, (bytes, bytearray)):
                o = o.decode(errors="replace")
            return o.splitlines(), "timeout", ""
    out = []
    start = 0
    bad_lines = 0
    while start < len(lines):
        if bad_lines >= 8:
            # the code under test is broken on so many scenarios that running the rest only costs time
            out += ["SKIPPED"] * (len(lines) - start)
            break
        got, rc, err = once(lines[start:], timeout)
        want = len(lines) - start
        if rc == 0 and len(got) == want:
            out += got
            break
        if rc == 3 and got and got[-1].endswith("HANG"):
            out += [g.strip() for g in got]          # the watchdog fired on the last line printed
            start += len(got)
            bad_lines += 1
            continue
        k = min(len(got), want - 1)
        out += got[:k]
        g1, rc1, err1 = once([lines[start + k]], 600)
        if rc1 == 0 and len(g1) == 1:
            out.append(g1[0])
        elif rc1 == 3 and g1 and g1[-1].endswith("HANG"):
            out.append(g1[-1].strip())
        else:
            e = (err1 or err).strip().splitlines()
            out.append("HANG" if rc1 == "timeout" else "ABORT rc=%s %s" % (rc1, e[0][:200] if e else ""))
        bad_lines += 1
        start += k + 1
    return out


def gen_fake_scenarios(ctx, bufsz, n_random, exhaustive):
    """scenario lines for bufsz, each with a descriptor used by the specification monitors"""
    rng = ctx.rng
    sc = []

    def params():
        return (rng.choice([0, 0, 1, 2, 5, 40]), rng.choice([0, 0, 1, 2, 5, 40]), rng.choice([0, 0, 1, 3, 9, 100]))

    def rbytes(n):
        return bytes(rng.choice([0, 1, 2, 0x41, 0xff, rng.randrange(256)]) for _ in range(n))

    def add_o(a, g, t, ops):
        toks, data, segs, cur = [], b"", [], b""
        for op in ops:
            if op == "f":
                toks.append("f"); segs.append(cur); cur = b""
            elif isinstance(op, int):
                toks.append("z:%d" % op); cur += b"\0" * op
            else:
                toks.append("a:" + tok(op)); cur += op
        sc.append({"kind": "ostream", "line": "ostream %d %d %d %d %s" % (bufsz, a, g, t, " ".join(toks)),
                   "segments": segs, "tail": cur})

    def add_i(a, g, t, inner, script, client, cls, expect):
        sc.append({"kind": "istream", "line": "istream %d %d %d %d %s %s %s" % (
            bufsz, a, g, t, tok(inner), ",".join(map(str, script)) or "-", ",".join("%d:%d" % c for c in client) or "-"),
            "class": cls, "expect": expect, "client": client})

    if exhaustive:
        # every way of cutting a short input into appends, flush at the end, for the harshest codec settings
        for n in range(0, 7):
            data = bytes([0x40 + i for i in range(n)])
            for mask in range(1 << max(n - 1, 0)):
                parts, cur = [], b""
                for i in range(n):
                    cur += data[i:i + 1]
                    if i == n - 1 or (mask >> i) & 1:
                        parts.append(cur); cur = b""
                for (a, g, t) in ((0, 0, 0), (1, 0, 2), (40, 40, 100)):
                    add_o(a, g, t, parts + ["f"])
        # every chunking script over {1, 2, 4, all} bytes of short member sequences, several readers
        members = [b"", b"A", b"AB", b"ABCDE"]
        for m1 in members:
            for m2 in (None, b"", b"xyz"):
                inner = toy_encode(m1) + (toy_encode(m2) if m2 is not None else b"")
                expect = m1 + (m2 or b"")
                for k in range(0, 4):
                    for script in _product([0, 1, 3], k):
                        for client in ([(1, 1)] * 12, [(bufsz, bufsz)] * 12, [(0, 1)] * 12, [(2, 3), (1, 0), (5, 1)] * 5):
                            for (a, g, t) in ((0, 0, 0), (2, 1, 1)):
                                add_i(a, g, t, inner, list(script), client, "valid", expect)
                # every truncation of the stream
                for cut in range(1, len(inner)):
                    part = inner[:cut]
                    cls = "valid" if toy_decode_all(part) is not None else "truncated"
                    add_i(0, 0, 0, part, [0, 1], [(1, 1)] * 14, cls, toy_decode_all(part) or b"")
                    add_i(40, 40, 100, part, [], [(bufsz, bufsz)] * 14, cls, toy_decode_all(part) or b"")
    for _ in range(n_random):
        a, g, t = params()
        if rng.random() < 0.5:
            ops = []
            for _ in range(rng.randint(1, 6)):
                r = rng.random()
                if r < 0.2:
                    ops.append("f")
                elif r < 0.3:
                    ops.append(rng.choice([0, 1, bufsz, bufsz + 1, rng.randint(0, 3 * bufsz + 2)]))
                else:
                    ops.append(rbytes(rng.choice([0, 1, bufsz - 1, bufsz, bufsz + 1, 2 * bufsz, rng.randint(0, 4 * bufsz + 3)])))
            if rng.random() < 0.85:
                ops.append("f")
            add_o(a, g, t, ops)
        else:
            ms = [rbytes(rng.choice([0, 1, bufsz - 1, bufsz, bufsz + 1, rng.randint(0, 3 * bufsz + 2)])) for _ in range(rng.randint(0, 3))]
            inner = b"".join(toy_encode(m) for m in ms)
            expect = b"".join(ms)
            cls = "valid"
            r = rng.random()
            if r < 0.2 and len(inner) > 1:
                inner = inner[:rng.randint(1, len(inner) - 1)]
                d = toy_decode_all(inner)
                cls, expect = ("valid", d) if d is not None else ("truncated", b"")
            elif r < 0.3:
                inner = inner + rbytes(rng.randint(1, 4)); cls = "garbage"
                d = toy_decode_all(inner)
                if d is not None:
                    cls, expect = "valid", d
            elif r < 0.35 and inner:
                b = bytearray(inner); b[rng.randrange(len(b))] ^= 1 << rng.randrange(8); inner = bytes(b)
                d = toy_decode_all(inner)
                cls, expect = ("valid", d) if d is not None else ("garbage", b"")
            script = [rng.choice([0, 0, 1, 2, bufsz - 1 if bufsz > 1 else 0, bufsz, 3 * bufsz]) for _ in range(rng.randint(0, 12))]
            client = [(rng.choice([0, 1, 2, bufsz, bufsz + 3, 512]), rng.choice([0, 1, 1, 2, bufsz, 10 ** 6]))
                      for _ in range(rng.randint(1, 30))]
            if rng.random() < 0.7:
                client += [(1, 10 ** 6)] * (len(expect) + 3)
            add_i(a, g, t, inner, script, client, cls, expect)
    return sc


def _product(vals, k):
    if k == 0:
        yield ()
        return
    for rest in _product(vals, k - 1):
        for v in vals:
            yield rest + (v,)


def big_scenarios(ctx, bufsz):
    """the real BUFSZ: data ending exactly at / one off the buffer edge, through both wrappers"""
    rng = ctx.rng
    sc = []
    a, g, t = 65535, 65535, 1 << 20
    for total in (bufsz - 1, bufsz, bufsz + 1, 2 * bufsz):
        data = rng.randbytes(total)
        cut = rng.randint(0, total)
        sc.append({"kind": "ostream", "line": "ostream %d %d %d %d a:%s a:%s f" % (bufsz, a, g, t, tok(data[:cut]), tok(data[cut:])),
                   "segments": [data], "tail": b""})
    for total in (bufsz // 2 - 1, bufsz // 2, bufsz):          # decoded size; encoded is twice that + 1
        data = rng.randbytes(total)
        inner = toy_encode(data[:total // 3]) + toy_encode(data[total // 3:])
        client = [(bufsz, 10 ** 7)] * 8
        sc.append({"kind": "istream", "line": "istream %d %d %d %d %s %s %s" % (bufsz, a, g, t, tok(inner), "131071,131071,0", ",".join("%d:%d" % c for c in client)),
                   "class": "valid", "expect": data, "client": client})
        sc.append({"kind": "istream", "line": "istream %d %d %d %d %s %s %s" % (bufsz, a, g, t, tok(inner[:-1]), "-", ",".join("%d:%d" % c for c in client)),
                   "class": "truncated", "expect": b"", "client": client})
    return sc


def spec_verdict(s, impl):
    """evaluate the property's specification on the implementation's answer; returns list of violated clauses"""
    bad = []
    if impl.endswith("HANG"):
        return ["terminates"]
    if impl.startswith("ABORT"):
        return ["no-abort"]
    f = impl.split()
    if s["kind"] == "ostream":
        if f[0] != "ok":
            return ["no-error"]
        sink = untok(f[1])
        # every completed segment (closed by a flush) is a sequence of members that decodes to what was appended
        want = b"".join(s["segments"])
        if not s["tail"]:
            d = toy_decode_all(sink)
            if d is None or d != want:
                bad.append("decode(written)=input")
        else:
            # data appended after the last flush may be partly written: what is there must be the completed members
            # followed by a prefix of the (unterminated) encoding of the rest
            done = b"".join(toy_encode(x) for x in s["segments"] if x)
            full = done + toy_encode(s["tail"])[:-1]
            if not (sink.startswith(done) and full.startswith(sink)):
                bad.append("written-is-prefix-of-encoding")
    else:
        cls, expect = s["class"], s["expect"]
        if cls == "valid":
            if f[0] != "ok":
                return ["no-error-on-valid-input"]
            acc, eof = untok(f[1]), f[2] == "1"
            if not expect.startswith(acc):
                bad.append("delivered-is-prefix-of-content")
            if eof and acc != expect:
                bad.append("eof-only-after-everything")
        elif cls == "truncated":
            if f[0] == "ok" and f[2] == "1":
                bad.append("truncated-is-error")
        # garbage: no demand beyond termination / no abort
    return bad


def fake_codec_part(ctx):
    real_b = bufsz_of(vlib.REPO / "lib/xfrm/src/istream.c")
    real_bo = bufsz_of(vlib.REPO / "lib/xfrm/src/ostream.c")
    if real_b is None or real_bo is None or real_b != real_bo:
        raise vlib.CheckFailure("BUFSZ of istream.c/ostream.c not found or different (%s, %s)" % (real_b, real_bo))
    quick = ctx.quick()
    plan = [(1, 150, False), (2, 300, True), (3, 300, False), (4, 600, True), (7, 400, False), (16, 300, False)] if quick else \
           [(1, 3000, True), (2, 6000, True), (3, 6000, True), (4, 12000, True), (5, 6000, True), (7, 8000, True), (16, 6000, False), (64, 3000, False)]
    stats = {"scenarios": 0, "nontrivial": 0, "by_bufsz": {}, "classes": {}, "disagreements": 0, "spec_failures": 0}
    samples = []
    work = []
    for bufsz, nrand, exh in plan:
        work.append((bufsz, False, gen_fake_scenarios(ctx, bufsz, nrand, exh)))
    work.append((real_b, True, big_scenarios(ctx, real_b)))
    corpus = vlib.CORPUS / "C15"
    if corpus.exists():
        for p in sorted(corpus.glob("fake_*.txt")):
            for l in p.read_text().splitlines():
                if l.strip() and not l.startswith("#"):
                    b = int(l.split()[1])
                    d = json.loads(l.split(" ## ")[1]) if " ## " in l else {}
                    s = {"kind": l.split()[0], "line": l.split(" ## ")[0]}
                    s.update({"segments": [untok(x) for x in d.get("segments", [])], "tail": untok(d.get("tail", "-")),
                              "class": d.get("class", "garbage"), "expect": untok(d.get("expect", "-")), "client": []})
                    work.insert(0, (b, b == real_b, [s]))
    built = {}
    for bufsz, real, scs in work:
        key = (bufsz, real)
        if key not in built:
            built[key] = build_fake_harness(ctx, bufsz, real)
        lines = [s["line"] for s in scs]
        impl = run_lines(ctx, built[key], lines)
        model = ctx.driver(["c15"], "\n".join(lines) + "\n")
        bk = str(bufsz) + ("(unmodified files)" if real else "")
        stats["by_bufsz"][bk] = stats["by_bufsz"].get(bk, 0) + len(lines)
        for s, i, m in zip(scs, impl, model):
            stats["scenarios"] += 1
            cls = s["kind"] + ":" + s.get("class", "-")
            stats["classes"][cls] = stats["classes"].get(cls, 0) + 1
            if s["kind"] == "ostream" and len(b"".join(s["segments"]) + s["tail"]) > bufsz:
                stats["nontrivial"] += 1
            if s["kind"] == "istream" and (s["class"] != "valid" or len(s["expect"]) > bufsz):
                stats["nontrivial"] += 1
            if len(samples) < 4 and stats["scenarios"] % 997 == 1:
                samples.append({"line": s["line"][:300], "impl": i[:200], "model": m[:200]})
            if i == m:
                continue
            if i == "SKIPPED":
                stats["skipped"] = stats.get("skipped", 0) + 1
                continue
            stats["disagreements"] += 1
            bad = spec_verdict(s, i)
            rep = {"harness": "h_c15 (BUFSZ=%d%s)" % (bufsz, ", unmodified files" if real else ", constant rewritten"),
                   "line": s["line"] if len(s["line"]) < 20000 else s["line"][:20000] + "...", "impl": i[:2000], "model": m[:2000],
                   "desc": {"segments": [tok(x) for x in s.get("segments", [])], "tail": tok(s.get("tail", b"")),
                            "class": s.get("class"), "expect": tok(s.get("expect", b""))}}
            if bad:
                stats["spec_failures"] += 1
                if stats["spec_failures"] <= 5:
                    ctx.violation("wrapper:%s:%s" % (s["kind"], ",".join(bad)),
                                  "%s_xfrm with the toy codec violates %s: impl=%s model=%s" % (s["kind"], bad, i[:120], m[:120]), rep)
            elif stats["disagreements"] - stats["spec_failures"] <= 5:
                ctx.violation("corr:wrapper:" + vlib.sha(s["line"])[:10],
                              "model of %s_xfrm no longer matches the code (impl=%s model=%s); no clause of the specification fails on this input" % (
                                  s["kind"], i[:120], m[:120]), rep, found_input=False)
    return stats, samples, real_b


# ------------------------------------------------------------------------------------------------ wrappers (a')
def build_wrap_harness(ctx):
    srcs = ["h_c15w.c", "c15_fakelib.c"] + ["lib/xfrm/src/%s.c" % n for n in ("gzip", "xz", "bzip2", "zstd", "compress")]
    return ctx.cc("h_c15w", srcs, flags=["-include", str(vlib.HARNESS / "c15_fakelib.h")])


def gen_wrap_scenarios(ctx, n_random):
    """call sequences for the process_data loops over the fake libraries; `family` scenarios follow the calling pattern of
    ostream_xfrm / istream_xfrm closely enough for the specification monitor to apply"""
    rng = ctx.rng
    sc = []

    def line(be, d, a, g, t, calls):
        return "wrap new %s %s %d %d %d %s" % (be, d, a, g, t, " ".join("%d:%d:%s" % (m, r, tok(x)) for m, r, x in calls))

    for be in CODECS:
        # encoders: one FULL call with all the data, then FULL calls without input (flush_inbuf(finish))
        for n in range(0, 4):
            data = bytes([0x41 + i for i in range(n)])
            for room in (1, 2, 5, 64):
                for (a, g, t) in ((9, 0, 9), (9, 9, 9), (0, 0, 0), (1, 1, 0)):
                    calls = [(2, room, data)] + [(2, room, b"")] * (2 * n + 4)
                    sc.append({"line": line(be, "c", a, g, t, calls), "family": "flush", "backend": be, "dir": "c", "data": data,
                               "full_intake": a >= n})
        # decoders: one member in chunks (consumed completely by a codec with large intake), then FULL calls without input
        for m in (b"", b"A", b"AB", b"ABCde"):
            stream = toy_encode(m)
            variants = [("valid", stream, m)]
            for cut in range(1, len(stream)):
                variants.append(("truncated", stream[:cut], b""))
            for pos in range(0, len(stream), 2):
                variants.append(("damaged", stream[:pos] + b"\x07" + stream[pos + 1:], b""))
            for cls, st, cont in variants:
                for k in (1, 2, 64):
                    chunks = [st[i:i + k] for i in range(0, len(st), k)]
                    for (a, g, t) in ((70, 70, 70), (70, 0, 70)):
                        calls = [(0, 64, c) for c in chunks] + [(2, 64, b"")] * 4
                        sc.append({"line": line(be, "d", a, g, t, calls), "family": "eof", "backend": be, "dir": "d", "class": cls,
                                   "content": cont, "nchunks": len(chunks)})
    for _ in range(n_random):
        be = rng.choice(CODECS); d = rng.choice("cd")
        a, g, t = (rng.choice([0, 0, 1, 2, 5, 70]) for _ in range(3))
        calls = []
        if d == "c":
            data = bytes(rng.randrange(256) for _ in range(rng.randint(0, 12)))
            pos = 0
            while pos < len(data) and rng.random() < 0.6:
                k = rng.randint(1, len(data) - pos)
                calls.append((rng.choice([0, 0, 0, 1]), rng.choice([0, 1, 2, 3, 8, 40]), data[pos:pos + k])); pos += rng.randint(0, k)
            rest = data[pos:]
            for _ in range(rng.randint(1, 8)):
                calls.append((2, rng.choice([1, 2, 3, 8, 40]), rest)); rest = b"" if rng.random() < 0.9 else rest
        else:
            ms = [bytes(rng.randrange(256) for _ in range(rng.randint(0, 5))) for _ in range(rng.randint(0, 3))]
            st = b"".join(toy_encode(m) for m in ms)
            r = rng.random()
            if r < 0.3 and len(st) > 1:
                st = st[:rng.randint(1, len(st) - 1)]
            elif r < 0.4:
                st += bytes([rng.choice([0, 1, 2, 7])])
            pos = 0
            while pos < len(st) and rng.random() < 0.85:
                k = rng.randint(1, min(6, len(st) - pos))
                calls.append((rng.choice([0, 0, 0, 2]), rng.choice([0, 1, 2, 3, 8, 40]), st[pos:pos + k])); pos += k
            for _ in range(rng.randint(1, 4)):
                calls.append((2, rng.choice([1, 2, 8, 40]), b""))
        sc.append({"line": line(be, d, a, g, t, calls), "family": "random", "backend": be, "dir": d})
    return sc


def same_trace(impl, model):
    """traces agree; a model trace ending in `hang` (the loop never leaves) corresponds to the watchdog's `HANG`"""
    if impl == model:
        return True
    if impl.endswith("HANG") and model.endswith("hang"):
        return impl[:-4].split() == model[:-4].split()
    return False


def wrap_spec_verdict(s, impl):
    """the contract clauses that can be read off a trace of process_data calls, on the implementation's answers.
    returns (violated clauses, known-finding style key or None)"""
    be = s["backend"]
    if impl.endswith("HANG"):
        if be == "gzip" and s.get("dir") == "d":
            return ["terminates"], "gzip:data-error-hang"
        return ["terminates"], "wrapper-hang:%s:%s" % (be, s["family"])
    if impl.startswith("ABORT"):
        return ["no-abort"], "wrapper-abort:%s" % be
    calls = [c.split(",") for c in impl.split()]
    if any(len(c) != 3 for c in calls):
        return ["protocol"], "wrapper-protocol:%s" % be
    rets = [int(c[0]) for c in calls]
    outs = [untok(c[2]) for c in calls]
    if s["family"] == "flush" and s["full_intake"]:
        # FLUSH_FULL must be continued until END, and what was produced up to END is the member
        if 1 not in rets:
            return ["FLUSH_FULL-eventually-END"], ("flush-hang:%s" % be if be != "zstd" else "flush-never-end:zstd")
        k = rets.index(1)
        if -1 in rets[:k + 1]:
            return ["encoder-never-fails"], "encoder-error:%s" % be
        got = b"".join(outs[:k + 1])
        if s["data"] and toy_decode_all(got) != s["data"]:
            return ["decode(written)=input"], ("flush-early-end:%s" % be if be == "zstd" else "encoder-output:%s" % be)
    if s["family"] == "eof":
        n = s["nchunks"]
        got = b"".join(o for r, o in zip(rets, outs) if r != -1)
        if s["class"] == "valid":
            if -1 in rets:
                return ["no-error-on-valid-input"], "decoder-error:%s" % be
            if got != s["content"]:
                if s["content"].startswith(got):
                    return ["decode=content"], "pending-output-lost:%s" % be
                return ["decode=content"], "decoder-output:%s" % be
        elif s["class"] == "truncated":
            if -1 not in rets[n:]:
                return ["truncated-is-error"], "truncated-accepted:%s" % be
        elif s["class"] == "damaged":
            if -1 not in rets:
                return ["damaged-is-error"], "corrupt-accepted:%s" % be
    return [], None


def wrapper_part(ctx):
    exe = build_wrap_harness(ctx)
    scs = gen_wrap_scenarios(ctx, 3000 if ctx.quick() else 60000)
    corpus = vlib.CORPUS / "C15"
    if corpus.exists():
        for p in sorted(corpus.glob("wrap_*.txt")):
            for l in p.read_text().splitlines():
                if l.strip() and not l.startswith("#"):
                    scs.insert(0, {"line": l.strip(), "family": "corpus", "backend": l.split()[2], "dir": l.split()[3]})
    lines = [s["line"] for s in scs]
    model = ctx.driver(["c15"], "\n".join(lines) + "\n")
    old_model = ctx.driver(["c15"], "\n".join(l.replace("wrap new ", "wrap old ", 1) for l in lines) + "\n")
    stats = {"scenarios": 0, "families": {}, "disagreements": 0, "spec_failures": 0, "unpatched_behaviour": 0,
             "skipped_after_confirmed_hang": 0}
    # sequences on which the unpatched loops spin (by the model of the unpatched code): probe a few first, and if the
    # working tree does spin there, do not pay a watchdog period for every further one
    predicted = [k for k in range(len(lines)) if old_model[k].endswith("hang") and not model[k].endswith("hang")]
    probe = predicted[:3]
    probe_out = run_lines(ctx, exe, [lines[k] for k in probe]) if probe else []
    spins = any(o.endswith("HANG") for o in probe_out)
    skip = set(predicted[3:]) if spins else set()
    stats["skipped_after_confirmed_hang"] = len(skip)
    todo = [k for k in range(len(lines)) if k not in skip and k not in probe]
    rest_out = run_lines(ctx, exe, [lines[k] for k in todo])
    impl = {k: o for k, o in zip(probe, probe_out)}
    impl.update({k: o for k, o in zip(todo, rest_out)})
    reported = 0
    for k in sorted(impl):
        s, i, m, om = scs[k], impl[k], model[k], old_model[k]
        stats["scenarios"] += 1
        stats["families"][s["family"]] = stats["families"].get(s["family"], 0) + 1
        if same_trace(i, m):
            continue
        if i == "SKIPPED":
            stats["skipped"] = stats.get("skipped", 0) + 1
            continue
        stats["disagreements"] += 1
        bad, key = wrap_spec_verdict(s, i)
        as_old = same_trace(i, om)
        if as_old:
            stats["unpatched_behaviour"] += 1
        rep = {"harness": "h_c15w (real process_data loops over the fake libraries)", "wrap_line": s["line"], "impl": i[:2000], "model": m[:2000],
               "model_of_unpatched_loops": om[:2000], "matches_unpatched_model": as_old}
        if bad:
            stats["spec_failures"] += 1
            report(ctx, key, "process_data of %s over the fake library violates %s (impl: %s)" % (s["backend"], bad, i[:150]), rep)
        elif as_old:
            # the working tree has the unpatched loop, whose model (Sqfs/Model/XfrmOld.lean) predicts exactly this trace, and no
            # clause of the contract is violated on it (e.g. a FLUSH_FULL call on an idle stream object): nothing to report
            pass
        elif reported < 5:
            reported += 1
            ctx.violation("corr:wrap:" + vlib.sha(s["line"])[:10],
                          "neither the model of the %s process_data loop nor the model of the unpatched loop matches the code (impl=%s model=%s)" % (
                              s["backend"], i[:100], m[:100]), rep, found_input=False)
    return stats


# ------------------------------------------------------------------------------------------------ probing (c)
def probe_part(ctx):
    """tar_open_stream's decision (plain / wrap in which decompressor) and the magic table, real code vs model"""
    lib = ctx.build_lib()
    exe = ctx.cc("h_c15p", ["h_c15p.c", str(lib)], libs=vlib.CODEC_LIBS)
    rng = ctx.rng
    magics = [bytes([0x1F, 0x8B, 0x08]), bytes([0xFD, 0x37, 0x7A, 0x58, 0x5A, 0x00]), bytes([0x28, 0xB5, 0x2F, 0xFD]), b"BZh"]
    datas = [b"", b"\0", b"\0" * 511, b"\0" * 512, b"\0" * 1024]
    for m in magics:
        for k in range(len(m) + 1):
            datas.append(m[:k]); datas.append(m[:k] + b"\x39\x00\xff")
            if k < len(m):
                datas.append(m[:k] + bytes([m[k] ^ 1]) + m[k + 1:] + b"zz")
        datas.append(b"\0" * 512 + m + b"rest")
        datas.append(m + b"\0" * 300 + b"ustar" + b"\0" * 300)
    def ustar_at(off, total, fill=b"x"):
        b = bytearray(fill * total)
        b[off:off + 5] = b"ustar"
        return bytes(b[:total])
    for off in (0, 256, 257, 258, 257 + 512):
        for total in (261, 262, 263, 512, 600, 1024, 1100):
            if off + 5 <= total:
                datas.append(ustar_at(off, total)); datas.append(ustar_at(off, total, b"\0"))
                datas.append(b"\0" * 512 + ustar_at(off, total)[: max(0, total - 512)])
    datas.append(magics[0] + ustar_at(257, 600)[3:])          # gzip magic *and* ustar at 257: plain wins
    for _ in range(300 if ctx.quick() else 5000):
        n = rng.choice([0, 1, 3, 6, 262, 511, 512, 513, 769, 774, 1024])
        b = bytearray(rng.choice([0, 0, 0x75, rng.randrange(256)]) for _ in range(n))
        if rng.random() < 0.5 and n >= 3:
            m = rng.choice(magics); b[:len(m)] = m[:n]
        if rng.random() < 0.4 and n >= 262:
            b[257:262] = b"ustar"
        if rng.random() < 0.3 and n >= 512:
            b[:512] = b"\0" * 512
            if n >= 512 + 262 and rng.random() < 0.5:
                b[512 + 257:512 + 262] = b"ustar"
        datas.append(bytes(b))
    lines = []
    for d in datas:
        lines.append("magic " + tok(d)); lines.append("probe " + tok(d))
    impl = run_lines(ctx, exe, lines)
    model = ctx.driver(["c15"], "\n".join(lines) + "\n")
    bad = 0
    kinds = {}
    for l, i, m in zip(lines, impl, model):
        kinds[i.split()[0] if l.startswith("probe") else "magic"] = kinds.get(i.split()[0] if l.startswith("probe") else "magic", 0) + 1
        if i != m:
            bad += 1
            if bad <= 3:
                # specification of the probing: an archive with `ustar` in the right place is never taken for compressed data, and
                # a stream that starts with a codec's magic (and is not a tar header) is unwrapped with that codec
                d = untok(l.split()[1])
                spec_bad = l.startswith("probe") and any(d.startswith(mg) for mg in magics) and b"ustar" not in d and i == "plain"
                report(ctx, ("probe:" if spec_bad else "corr:probe:") + vlib.sha(l)[:10],
                       "tar_open_stream / magic detection: impl=%s model=%s on %s" % (i, m, l[:80]),
                       {"harness": "h_c15p", "probe_line": l, "impl": i, "model": m}, found_input=spec_bad)
    return {"lines": len(lines), "disagreements": bad, "decisions": kinds}


# ------------------------------------------------------------------------------------------------ tools (b)
def mk_tar(files, end_padding=1024):
    bio = io.BytesIO()
    with tarfile.open(fileobj=bio, mode="w", format=tarfile.USTAR_FORMAT) as tf:
        for name, data in files:
            ti = tarfile.TarInfo(name); ti.size = len(data); ti.mtime = 1000000; ti.mode = 0o644
            tf.addfile(ti, io.BytesIO(data))
    raw = bio.getvalue()
    end = sum(512 + (len(d) + 511) // 512 * 512 for _, d in files)
    return raw[:end] + b"\0" * end_padding


class Tools:
    def __init__(self, ctx):
        self.ctx = ctx
        self.t2s = ctx.build_tool("tar2sqfs")
        self.s2t = ctx.build_tool("sqfs2tar")
        self.zref = ctx.cc("c15_zstd_ref", ["c15_zstd_ref.c"], libs=["-lzstd"])
        self.env = ctx.san_env()
        self.n = 0
        # "does not terminate" is decided on CPU time (ulimit -t), which does not grow when the machine is loaded: the
        # defects in question spin.  The wall-clock timeouts are only a fallback for a blocking hang and are confirmed
        # by an isolated, much longer re-run.
        self.cpu = 6            # CPU seconds; legitimate runs need < 1 (calibrate() raises it on a slow machine)
        self.t1 = 300.0
        self.t2 = 900.0
        self.d = ctx.scratch / "tools"
        self.d.mkdir(exist_ok=True)

    def calibrate(self, cpu_seconds):
        """`cpu_seconds` = CPU time of the most expensive plain run"""
        self.cpu = int(max(6, 20 * cpu_seconds + 1))

    def limited(self, cmd):
        return ["sh", "-c", "ulimit -t %d; exec \"$@\"" % self.cpu, "sh"] + cmd

    @staticmethod
    def cpu_killed(rc):
        return rc in (-24, -9, 128 + 24, 128 + 9)

    def pack(self, data, tag, timeout=None):
        """tar2sqfs on `data` → ('ok', sha256) | ('fail', rc) | ('hang',) | ('abort', rc, msg)"""
        self.n += 1
        out = self.d / ("img_%s_%d_%d.sqfs" % (tag, os.getpid(), id(data) % 100000 + self.n))
        try:
            r = subprocess.run(self.limited([str(self.t2s), "-q", "-f", str(out)]), input=data, capture_output=True, env=self.env, timeout=timeout or self.t1)
        except subprocess.TimeoutExpired:
            if out.exists():
                out.unlink()
            return ("hang", "wall")
        try:
            if self.cpu_killed(r.returncode):
                return ("hang", "cpu")
            if r.returncode >= 90 or r.returncode < 0:
                return ("abort", r.returncode, r.stderr.decode(errors="replace")[-400:])
            if r.returncode != 0:
                return ("fail", r.returncode)
            return ("ok", vlib.sha(out.read_bytes()))
        finally:
            if out.exists():
                out.unlink()

    def image(self, data, tag):
        out = self.d / ("src_%s.sqfs" % tag)
        r = subprocess.run([str(self.t2s), "-q", "-f", str(out)], input=data, capture_output=True, env=self.env, timeout=60)
        if r.returncode != 0:
            raise vlib.CheckFailure("tar2sqfs failed on a plain generated archive: %s" % r.stderr.decode(errors="replace")[-300:])
        return out

    def unpack(self, img, codec=None, timeout=None):
        cmd = [str(self.s2t)] + (["-c", codec] if codec else []) + [str(img)]
        try:
            r = subprocess.run(self.limited(cmd), capture_output=True, env=self.env, timeout=timeout or self.t1)
        except subprocess.TimeoutExpired as e:
            return ("hang", len(e.stdout or b""), "wall")
        if self.cpu_killed(r.returncode):
            return ("hang", len(r.stdout or b""), "cpu")
        if r.returncode >= 90 or r.returncode < 0:
            return ("abort", r.returncode, r.stderr.decode(errors="replace")[-400:])
        if r.returncode != 0:
            return ("fail", r.returncode)
        return ("ok", r.stdout)

    def zstd(self, mode, data, level=None):
        r = subprocess.run([str(self.zref), mode] + ([str(level)] if level is not None else []), input=data, capture_output=True, env=self.env, timeout=120)
        return r.stdout if r.returncode == 0 else None


LEVELS = {"gzip": (1, 9), "xz": (0, 6), "bzip2": (1, 9), "zstd": (1, 19)}


def ref_compress(T, codec, data, level=None):
    if codec == "gzip":
        return pygzip.compress(data, level if level is not None else 6, mtime=0)
    if codec == "xz":
        return lzma.compress(data, preset=level if level is not None else 1)
    if codec == "bzip2":
        return bz2.compress(data, level if level else 9)
    return T.zstd("cc", data, level)          # with content checksum (what the zstd tool writes)


def ref_decompress_all(T, codec, data):
    """strict reference expansion of a whole stream of members; None = rejected (corrupt / truncated / trailing junk)"""
    try:
        if codec == "gzip":
            out, rest = b"", data
            while rest:
                d = zlib.decompressobj(31)
                out += d.decompress(rest)
                if not d.eof:
                    return None
                rest = d.unused_data
            return out
        if codec == "xz":
            out, rest = b"", data
            while rest:
                d = lzma.LZMADecompressor(format=lzma.FORMAT_XZ)
                out += d.decompress(rest)
                if not d.eof:
                    return None
                rest = d.unused_data
            return out
        if codec == "bzip2":
            out, rest = b"", data
            while rest:
                d = bz2.BZ2Decompressor()
                out += d.decompress(rest)
                if not d.eof:
                    return None
                rest = d.unused_data
            return out
        return T.zstd("d", data)
    except Exception:
        return None


def tool_part(ctx, bufsz):
    T = Tools(ctx)
    rng = ctx.rng
    quick = ctx.quick()
    results = {"tar2sqfs_runs": 0, "sqfs2tar_runs": 0, "by_class": {}, "outcomes": {}}
    samples = []
    jobs = []          # (class, codec, description, data, oracle) for tar2sqfs

    def files_small():
        return [("a.txt", b"hello\n" * rng.randint(1, 40)), ("b.bin", rng.randbytes(rng.randint(1, 4000))),
                ("dir/c", bytes(rng.randint(0, 6000))), ("dir/d", rng.randbytes(rng.randint(0, 300))), ("e", b"")]

    archives = [("small", mk_tar(files_small()))]
    # archive length exactly k*BUFSZ / one record around it, incompressible and compressible
    for k, delta, rnd in ((1, 0, True), (2, 0, True), (1, 512, False), (2, -512, True)) if quick else \
            ((1, 0, True), (2, 0, True), (3, 0, True), (1, 512, True), (1, -512, True), (2, 512, False), (2, -512, True), (4, 0, False)):
        total = k * bufsz + delta
        n = total - 512 - 1024
        body = rng.randbytes(n) if rnd else (b"squashfs" * (n // 8 + 1))[:n]
        archives.append(("edge%dx%+d%s" % (k, delta, "r" if rnd else "c"), mk_tar([("f", body)])))
    plain = {}
    slowest = 0.0
    import resource
    for tag, tar in archives:
        u0 = resource.getrusage(resource.RUSAGE_CHILDREN)
        res = T.pack(tar, "plain", timeout=900)
        u1 = resource.getrusage(resource.RUSAGE_CHILDREN)
        slowest = max(slowest, (u1.ru_utime + u1.ru_stime) - (u0.ru_utime + u0.ru_stime))
        if res[0] != "ok":
            raise vlib.CheckFailure("tar2sqfs does not pack the plain archive %s: %s" % (tag, res))
        plain[tag] = res[1]
    T.calibrate(slowest)
    results["limits"] = {"cpu_s_of_costliest_plain_run": round(slowest, 3), "cpu_limit_s": T.cpu, "wall_first_pass_s": T.t1,
                         "wall_isolated_rerun_s": T.t2}
    confirmed_hangs = set()

    def add(cls, codec, tag, desc, data, oracle):
        jobs.append((cls, codec, tag, desc, data, oracle))

    for tag, tar in archives:
        small = tag == "small"
        for codec in CODECS:
            whole = ref_compress(T, codec, tar)
            add("single", codec, tag, "single stream", whole, "same")
            if small or not quick:
                for cut in sorted({1, 511, 512, 513, rng.randint(1, len(tar) - 1), len(tar) - 1}) if small else [rng.randint(1, len(tar) - 1)]:
                    add("members", codec, tag, "2 members split at %d" % cut, ref_compress(T, codec, tar[:cut]) + ref_compress(T, codec, tar[cut:]), "same")
                a, b = sorted((rng.randint(0, len(tar)), rng.randint(0, len(tar))))
                add("members", codec, tag, "3 members split at %d,%d (one possibly empty)" % (a, b),
                    ref_compress(T, codec, tar[:a]) + ref_compress(T, codec, tar[a:b]) + ref_compress(T, codec, tar[b:]), "same")
            if small:
                for lvl in LEVELS[codec]:
                    add("level", codec, tag, "level %d" % lvl, ref_compress(T, codec, tar, lvl), "same")
                if codec == "zstd":
                    add("single", codec, tag, "single frame without content checksum", T.zstd("c", tar), "same")
                for pad in (1, 4, 512, 10240):
                    add("padding", codec, tag, "+%d zero bytes" % pad, whole + b"\0" * pad, "same-or-error")
                add("garbage", codec, tag, "+ trailing garbage", whole + rng.randbytes(rng.randint(1, 64)), "same-or-error")
            ncut = (8 if small else 2) if quick else (40 if small else 6)
            cuts = {MAGIC_LEN[codec], len(whole) - 1, len(whole) - 4, len(whole) // 2, 100}
            while len(cuts) < ncut + 5:
                cuts.add(rng.randint(MAGIC_LEN[codec], len(whole) - 1))
            for cut in sorted(c for c in cuts if MAGIC_LEN[codec] <= c < len(whole)):
                add("truncated", codec, tag, "cut to %d of %d bytes" % (cut, len(whole)), whole[:cut], "error-or-same")
            # the magic number itself damaged: tar_open_stream cannot recognise the codec and reads the bytes as a tar stream
            b0 = bytearray(whole); b0[0] ^= 1
            add("magic-damaged", codec, tag, "bit 0 of byte 0 (magic number) flipped, %d bytes" % len(whole), bytes(b0), "error-or-same")
            nflip = (6 if small else 1) if quick else (40 if small else 4)
            for _ in range(nflip):
                pos = rng.randrange(len(whole)); bit = rng.randrange(8)
                b = bytearray(whole); b[pos] ^= 1 << bit
                if pos < MAGIC_LEN[codec]:
                    add("magic-damaged", codec, tag, "bit %d of byte %d (magic number) flipped, %d bytes" % (bit, pos, len(whole)), bytes(b), "error-or-same")
                else:
                    add("flipped", codec, tag, "bit %d of byte %d flipped" % (bit, pos), bytes(b), "reference")

    def run_job(j):
        cls, codec, tag, desc, data, oracle = j
        res = T.pack(data, codec)
        ref = None
        if oracle == "reference":
            exp = ref_decompress_all(T, codec, data)
            ref = ("rejects",) if exp is None else T.pack(exp, "ref")
        return res, ref

    with ThreadPoolExecutor(max_workers=JOBS) as ex:
        outs = list(ex.map(run_job, jobs))
    results["tar2sqfs_runs"] = len(jobs) + len(archives)
    # a first-pass timeout is only a suspicion: run the case alone with a much longer timeout (once per kind of hang)
    for idx, ((cls, codec, tag, desc, data, oracle), (res, ref)) in enumerate(zip(jobs, outs)):
        hk = "gzip-data" if (codec == "gzip" and cls in ("flipped", "padding", "garbage")) else (codec, cls)
        if res[0] == "hang" and res[1] == "wall" and hk not in confirmed_hangs:
            res2 = T.pack(data, codec, timeout=T.t2)
            if res2[0] == "hang":
                confirmed_hangs.add(hk)
            outs[idx] = (res2, ref)
            results["isolated_reruns"] = results.get("isolated_reruns", 0) + 1
    for (cls, codec, tag, desc, data, oracle), (res, ref) in zip(jobs, outs):
        results["by_class"][cls] = results["by_class"].get(cls, 0) + 1
        results["outcomes"]["%s:%s" % (cls, res[0] if res[0] != "ok" else ("same" if res[1] == plain[tag] else "other-image"))] = \
            results["outcomes"].get("%s:%s" % (cls, res[0] if res[0] != "ok" else ("same" if res[1] == plain[tag] else "other-image")), 0) + 1
        same = res[0] == "ok" and res[1] == plain[tag]
        clean_err = res[0] == "fail"
        key = what = None
        if res[0] == "hang":
            if cls in ("flipped", "padding", "garbage") and codec == "gzip":
                key, what = "gzip:data-error-hang", "tar2sqfs never terminates on a corrupted gzip stream (%s): inflate's Z_DATA_ERROR is not treated as an error" % desc
            else:
                key, what = "tar2sqfs-hang:%s:%s" % (codec, cls), "tar2sqfs does not terminate (%s limit: %d CPU seconds / %d s) on %s input (%s)" % (res[1], T.cpu, T.t2, codec, desc)
        elif res[0] == "abort":
            key, what = "tar2sqfs-abort:%s:%s" % (codec, cls), "tar2sqfs aborted (rc=%s) on %s input (%s): %s" % (res[1], codec, desc, res[2][-200:])
        elif oracle == "same" and not same:
            key, what = "not-transparent:%s:%s" % (codec, cls), "tar2sqfs on %s (%s, archive %s) gives %s instead of the image of the plain archive" % (codec, desc, tag, res[:2])
        elif oracle == "same-or-error" and not (same or clean_err):
            key, what = "not-transparent:%s:%s" % (codec, cls), "tar2sqfs on %s with %s gives another image (exit 0)" % (codec, desc)
        elif oracle == "error-or-same" and cls == "magic-damaged" and not (same or clean_err):
            key, what = "unrecognised-short-input-accepted", ("tar2sqfs exits 0 with an empty/shorter image on a %s stream whose magic number is damaged (%s): "
                                                             "tar_open_stream reads it as a tar stream and the tar reader takes less than one header of garbage for a clean end" % (codec, desc))
        elif oracle == "error-or-same" and not (same or clean_err):
            key, what = "truncated-accepted:%s" % codec, "tar2sqfs exits 0 with a shorter image on a truncated %s stream (%s)" % (codec, desc)
        elif oracle == "reference":
            if ref == ("rejects",):
                if not (same or clean_err):
                    key, what = "corrupt-accepted:%s" % codec, "tar2sqfs exits 0 with another image on a %s stream the reference decompressor rejects (%s)" % (codec, desc)
            elif ref[0] in ("ok", "fail") and res[0] in ("ok", "fail"):
                if (ref[0] == "ok") != (res[0] == "ok") or (ref[0] == "ok" and ref[1] != res[1]):
                    # reference accepts the damaged stream (damage outside checked data): must behave as on its expansion
                    key, what = "not-transparent:%s:flipped" % codec, "tar2sqfs on a damaged but decodable %s stream (%s) differs from tar2sqfs on the reference expansion" % (codec, desc)
        if len(samples) < 6 and results["by_class"][cls] == 1:
            samples.append({"class": cls, "codec": codec, "archive": tag, "variant": desc, "bytes": len(data), "outcome": res[0] if not same else "same image"})
        if key:
            report(ctx, key, what, {"tool": "tar2sqfs", "codec": codec, "class": cls, "archive": tag, "variant": desc,
                                      "input_hex": tok(data) if len(data) <= 70000 else None, "input_sha256": vlib.sha(data),
                                      "input_len": len(data), "expected": oracle, "got": list(res[:2])})

    # ---- sqfs2tar -c X | reference decompressor  ==  sqfs2tar
    ujobs = []
    for tag, tar in archives:
        img = T.image(tar, tag)
        base = T.unpack(img, timeout=600)
        if base[0] != "ok":
            raise vlib.CheckFailure("sqfs2tar failed on %s: %s" % (tag, base[:2]))
        for codec in CODECS:
            ujobs.append((tag, codec, img, base[1]))

    def run_u(j):
        tag, codec, img, base = j
        res = T.unpack(img, codec)
        exp = ref_decompress_all(T, codec, res[1]) if res[0] == "ok" else None
        return res, exp

    with ThreadPoolExecutor(max_workers=JOBS) as ex:
        uouts = list(ex.map(run_u, ujobs))
    for idx, ((tag, codec, img, base), (res, exp)) in enumerate(zip(ujobs, uouts)):
        if res[0] == "hang" and res[2] == "wall" and ("sqfs2tar", codec) not in confirmed_hangs:
            res2 = T.unpack(img, codec, timeout=T.t2)
            if res2[0] == "hang":
                confirmed_hangs.add(("sqfs2tar", codec))
            uouts[idx] = (res2, ref_decompress_all(T, codec, res2[1]) if res2[0] == "ok" else None)
            results["isolated_reruns"] = results.get("isolated_reruns", 0) + 1
    results["sqfs2tar_runs"] = len(ujobs) + len(archives)
    for (tag, codec, img, base), (res, exp) in zip(ujobs, uouts):
        key = what = None
        oc = res[0] if res[0] != "ok" else ("expands-to-plain" if exp == base else "does-not-expand")
        results["outcomes"]["sqfs2tar:" + oc] = results["outcomes"].get("sqfs2tar:" + oc, 0) + 1
        if res[0] == "hang":
            key, what = "flush-hang:%s" % codec, "sqfs2tar -c %s never terminates (%d bytes written, then no progress) when the final flush does not fit the output buffer (tar stream of %d bytes)" % (codec, res[1], len(base))
        elif res[0] != "ok":
            key, what = "sqfs2tar-fails:%s" % codec, "sqfs2tar -c %s fails (%s) on an image sqfs2tar unpacks" % (codec, res[:2])
        elif exp is None:
            key, what = "flush-early-end:%s" % codec, "sqfs2tar -c %s exits 0 but its output is rejected by the reference decompressor (incomplete stream, tar stream of %d bytes)" % (codec, len(base))
        elif exp != base:
            key, what = "not-transparent:sqfs2tar:%s" % codec, "sqfs2tar -c %s output expands to something else than plain sqfs2tar output" % codec
        if key:
            report(ctx, key, what, {"tool": "sqfs2tar", "codec": codec, "archive": tag, "tar_len": len(base),
                                      "archive_recipe": "one file of incompressible/compressible bytes so that the tar stream is %d bytes" % len(base)})
    return results, samples


def run(ctx):
    ok, problems = vlib.proof_gate(ctx, MODULE, REQUIRED)
    if not ok:
        ctx.violation("proof:C15", "proof obligations of C15 no longer check: " + " | ".join(problems)[:1500],
                      {"broken": problems, "theorems_file": "lean/Sqfs/Props/C15.lean"}, found_input=False)
    okw, logw = ctx.lean_build(["Sqfs.Witness.C15"])
    if not okw:
        ctx.violation("proof:C15:witness", "Sqfs/Witness/C15.lean (theorems about the unpatched loops) no longer builds", {"log": logw[-2000:]}, found_input=False)
    fstats, fsamples, bufsz = fake_codec_part(ctx)
    ctx.log("fake codec: %d scenarios, %d disagreements" % (fstats["scenarios"], fstats["disagreements"]))
    wstats = wrapper_part(ctx)
    ctx.log("wrappers over fake libraries: %d call sequences, %d disagreements (%d behave like the unpatched loops)" % (
        wstats["scenarios"], wstats["disagreements"], wstats["unpatched_behaviour"]))
    pstats = probe_part(ctx)
    ctx.log("probing: %d inputs, %d disagreements" % (pstats["lines"], pstats["disagreements"]))
    tstats, tsamples = tool_part(ctx, bufsz)
    ctx.log("tools: %d tar2sqfs runs, %d sqfs2tar runs" % (tstats["tar2sqfs_runs"], tstats["sqfs2tar_runs"]))
    ctx.cov.update({
        "evaluations": fstats["scenarios"] + wstats["scenarios"] + pstats["lines"] + tstats["tar2sqfs_runs"] + tstats["sqfs2tar_runs"],
        "distinct_nontrivial": fstats["nontrivial"] + sum(v for k, v in tstats["by_class"].items() if k != "single"),
        "rule": "fake-codec scenarios: operation sequences on the real ostream_xfrm / chunking+reader scripts on the real istream_xfrm, at BUFSZ in "
                "%s; non-trivial = more data than one buffer, or a truncated/garbage/damaged stream. Tool runs: tar2sqfs on generated "
                "archives (one multi-file, others sized k*BUFSZ +-512 with incompressible/compressible bytes) wrapped by the reference "
                "compressors in the listed variants; sqfs2tar -c X expanded by the reference decompressors; non-trivial = every variant other than the plain single stream" % sorted(fstats["by_bufsz"]),
        "fake_codec": fstats, "backend_loops": wstats, "probing": pstats, "tools": tstats,
        "samples": fsamples + tsamples,
        "disagreements_checked": fstats["disagreements"] + wstats["disagreements"],
        "bufsz": bufsz,
    })
    return ctx.finish(LEVEL, trusted_extra=[
        "zlib, liblzma, libbz2 are represented by the library-level conventions LibEncContract/LibDecContract of Sqfs/Spec/XfrmContract.lean (assumed; exercised at tool level against reference decompressors: Python zlib/lzma/bz2), libzstd through zstd.c by EncContract/DecContract directly (the zstd loop's contract theorem is not proved; exercised by harness a' and against libzstd)",
        "modelled: lib/xfrm/src/istream.c, ostream.c (as written), the process_data loops of gzip.c/xz.c/bzip2.c/zstd.c (with fixes/C15-*.patch applied; the unpatched loops are Sqfs/Model/XfrmOld.lean)",
        "harness/h_c15.c (fake codec, scripted source, sink), harness/c15_zstd_ref.c, tools/checks/c15.py (generators, oracles)"],
        assumptions=["inputs shorter than the codec's magic number are not recognised as compressed by tar_open_stream and are read as a plain tar stream (out of scope here)",
                     "zstd frames without content checksum cannot reveal payload damage; damaged streams are judged against the reference decompressor's verdict"])


def replay(ctx, path):
    body = json.loads(open(path).read())
    rp = body.get("replay", {})
    if "line" in rp:
        ctx.lean_build(["sqfsmodel"])
        line = rp["line"]
        bufsz = int(line.split()[1])
        real = "unmodified" in rp.get("harness", "")
        exe = build_fake_harness(ctx, bufsz, real)
        impl = run_lines(ctx, exe, [line], timeout=300)
        model = ctx.driver(["c15"], line + "\n")
        d = rp.get("desc", {})
        s = {"kind": line.split()[0], "line": line, "segments": [untok(x) for x in d.get("segments", [])], "tail": untok(d.get("tail", "-")),
             "class": d.get("class"), "expect": untok(d.get("expect", "-"))}
        bad = spec_verdict(s, impl[0])
        print("impl :", impl[0][:500]); print("model:", model[0][:500]); print("clauses violated:", bad)
        return 1 if bad or impl[0] != model[0] else 0
    if "wrap_line" in rp:
        ctx.lean_build(["sqfsmodel"])
        exe = build_wrap_harness(ctx)
        impl = run_lines(ctx, exe, [rp["wrap_line"]], timeout=300)
        model = ctx.driver(["c15"], rp["wrap_line"] + "\n")
        print("impl :", impl[0][:600]); print("model:", model[0][:600])
        return 0 if same_trace(impl[0], model[0]) else 1
    if "probe_line" in rp:
        ctx.lean_build(["sqfsmodel"])
        exe = ctx.cc("h_c15p", ["h_c15p.c", str(ctx.build_lib())], libs=vlib.CODEC_LIBS)
        impl = run_lines(ctx, exe, [rp["probe_line"]], timeout=300)
        model = ctx.driver(["c15"], rp["probe_line"] + "\n")
        print("impl :", impl[0]); print("model:", model[0])
        return 0 if impl[0] == model[0] else 1
    if rp.get("tool") == "tar2sqfs" and rp.get("input_hex"):
        T = Tools(ctx)
        data = untok(rp["input_hex"])
        res = T.pack(data, "replay", timeout=300)
        print("tar2sqfs on the recorded %s input (%s): %s; expected: %s" % (rp["codec"], rp["variant"], res[:2], rp["expected"]))
        exp = ref_decompress_all(T, rp["codec"], data)
        ref = T.pack(exp, "ref") if exp is not None else ("rejects",)
        print("reference decompressor:", "rejects the stream" if exp is None else "accepts; tar2sqfs on its expansion: %s" % (ref[:2],))
        bad = res[0] in ("hang", "abort") or (res[0] == "ok" and (exp is None or ref[:2] != res[:2]))
        return 1 if bad else 0
    if rp.get("tool") == "sqfs2tar":
        T = Tools(ctx)
        n = rp["tar_len"] - 512 - 1024
        tar = mk_tar([("f", ctx.rng.randbytes(n))])
        img = T.image(tar, "replay")
        base = T.unpack(img, timeout=300)
        res = T.unpack(img, rp["codec"], timeout=300)
        okay = res[0] == "ok" and ref_decompress_all(T, rp["codec"], res[1]) == base[1]
        print("sqfs2tar -c %s on an image whose tar stream has %d bytes: %s, expands to plain output: %s" % (rp["codec"], len(base[1]), res[0], okay))
        return 0 if okay else 1
    print("replay file names a broken obligation, no input to replay:", json.dumps(rp)[:500])
    return 1
