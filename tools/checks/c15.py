"""
C15 — stream compression of tar input/output is transparent.

Proof: Sqfs/Props/C15.lean (wrapper loops of istream_xfrm/ostream_xfrm terminate and are transparent for every codec meeting the
stated contracts; truncated and corrupted input is an error, never a regular end; the four backends' process_data loops meet the
contracts for every library stream meeting the documented calling conventions; errors of the wrapped streams are never swallowed;
a concrete toy codec meets all of it).

Tie, on every run, built from the working tree ($VERIF_REPO) under ASan+UBSan:
 (a) real lib/xfrm/src/istream.c + ostream.c driven by the *fake* toy codec (harness/h_c15.c) vs `sqfsmodel c15` on the same
     scenarios: exhaustive small chunkings + seeded random + wrapped streams whose k-th call fails, at several BUFSZ values (the
     constant is rewritten in a scratch copy) and at the real BUFSZ;
 (a') real gzip.c/xz.c/bzip2.c/zstd.c process_data loops over *fake* libraries (harness/h_c15w.c) vs the model;
 (a'') the real backends over the real libraries under the real wrappers (h_c15.c -DH_REAL_CODECS: ristream/rostream/rfeed) at
     small BUFSZ values and the real one, judged by reference decompressors; contract clauses monitored call by call;
 (c) tar_open_stream's probing and the magic table vs the model;
 (b) real codecs at tool level: tar2sqfs on plain vs gzip/xz/zstd/bzip2 input (single stream, members split at arbitrary offsets
     and straddling the input window, every preset level of the reference tools, pipe chunking, zstd special frames, trailing
     padding/garbage, truncated, bit-flipped); `sqfs2tar -c X` expanded by reference decompressors (Python zlib/lzma/bz2, libzstd
     through harness/c15_zstd_ref.c) vs plain `sqfs2tar`, and fed back to tar2sqfs; sizes around multiples of BUFSZ with
     incompressible data and far back-references; everything under a CPU-time limit (a hang is a result).
Nothing is lenient: streams of different length, a short answer of a helper, a non-zero exit code of a reference tool, an empty
part or class raise CheckFailure (= violation "check could not complete"), never a pass.
"""
import gzip as pygzip, bz2, hashlib, io, json, lzma, os, re, subprocess, tarfile, zlib
from concurrent.futures import ThreadPoolExecutor
import vlib

LEVEL = "proof"
MODULE = "Sqfs.Props.C15"
REQUIRED = ["Sqfs.C15.ostream_transparent", "Sqfs.C15.ostream_transparent_single", "Sqfs.C15.ostream_flush_terminates",
            "Sqfs.C15.istream_transparent_stream", "Sqfs.C15.istream_transparent",
            "Sqfs.C15.truncated_is_error_stream", "Sqfs.C15.truncated_is_error", "Sqfs.C15.corrupt_is_error",
            "Sqfs.C15.process_data_meets_contract", "Sqfs.C15.zstd_istream_transparent", "Sqfs.C15.zstd_truncated_is_error",
            "Sqfs.C15.backend_ostream_transparent", "Sqfs.C15.backend_istream_transparent", "Sqfs.C15.backend_truncated_is_error",
            "Sqfs.C15.backend_corrupt_is_error", "Sqfs.C15.zstd_corrupt_is_error", "Sqfs.C15.toy_error_conventions_satisfiable",
            "Sqfs.C15.toy_dead_example",
            "Sqfs.C15.toy_library_meets_convention", "Sqfs.C15.toy_encoder_meets_contract", "Sqfs.C15.toy_decoder_meets_contract",
            "Sqfs.C15.toy_decode_encode", "Sqfs.C15.tarProbe_iff", "Sqfs.C15.magic_unambiguous", "Sqfs.C15.probe_spec",
            "Sqfs.C15.ostream_failure_model_agrees", "Sqfs.C15.istream_failure_model_agrees", "Sqfs.C15.ostream_write_error_reported",
            "Sqfs.C15.ostream_flush_error_reported", "Sqfs.C15.istream_read_error_reported",
            "Sqfs.C15.drainOps_want", "Sqfs.C15.truncated_is_error_for_draining_reader", "Sqfs.C15.corrupt_is_error_for_draining_reader",
            "Sqfs.C15.valid_stream_drains_to_eof", "Sqfs.C15.library_conventions_ignore_flush_sync"]
CODECS = ["gzip", "xz", "bzip2", "zstd"]
MAGIC_LEN = {"gzip": 3, "xz": 6, "zstd": 4, "bzip2": 3}
JOBS = int(os.environ.get("VERIF_JOBS", "3"))       # parallel tool runs (the machine may be shared)


_REPORTED = {}


def report(ctx, key, what, replay, found_input=True, cap=3):
    """ctx.violation, at most `cap` replays per key (a broken tree otherwise produces hundreds of identical reports)"""
    _REPORTED[key] = _REPORTED.get(key, 0) + 1
    if _REPORTED[key] <= cap:
        ctx.violation(key, what, replay, found_input)


def tok(b):
    return b.hex() if b else "-"


def strict_zip(what, *seqs):
    """zip() that refuses streams of different length (a lost or extra line is a failure of the check, never a pass)"""
    n = {len(x) for x in seqs}
    if len(n) != 1:
        raise vlib.CheckFailure("%s: streams of different length %s" % (what, [len(x) for x in seqs]))
    return zip(*seqs)


def model_lines(ctx, lines, what):
    """run the model driver on the lines: exactly one answer per line, none of them `bad-op`"""
    if not lines:
        raise vlib.CheckFailure("%s: no scenario was generated (an empty part is not a pass)" % what)
    out = ctx.driver(["c15"], "\n".join(lines) + "\n")
    if len(out) != len(lines):
        raise vlib.CheckFailure("%s: model driver answered %d lines to %d" % (what, len(out), len(lines)))
    bad = [l for l, o in zip(lines, out) if o.startswith("bad-op") or o == "assert"]
    if bad:
        raise vlib.CheckFailure("%s: model driver rejects a generated line: %s" % (what, bad[0][:200]))
    return out


def need(cond, what):
    if not cond:
        raise vlib.CheckFailure(what)


def untok(t):
    return b"" if t == "-" else bytes.fromhex(t)


# ------------------------------------------------------------------------------------------------ toy format
def toy_encode(x):
    out = bytearray()
    for b in x:
        out += bytes([1, b])
    out.append(0)
    return bytes(out)


def toy_decode_all(s):
    """independent decoder of a concatenation of toy members; None if malformed / incomplete"""
    out, i, n, in_member = bytearray(), 0, len(s), False
    while i < n:
        if s[i] == 0:
            i += 1; in_member = False
        elif s[i] == 1:
            if i + 1 >= n:
                return None
            out.append(s[i + 1]); i += 2; in_member = True
        else:
            return None
    return None if in_member else bytes(out)


# ------------------------------------------------------------------------------------------------ harness (a)
def bufsz_of(path):
    m = re.search(r"^#define\s+BUFSZ\s+\((\d+)\)\s*$", path.read_text(), re.M)
    return int(m.group(1)) if m else None


def build_fake_harness(ctx, bufsz, real, real_codecs=False):
    """h_c15 linked with the working tree's istream.c/ostream.c; for `real` the files are used as they are,
    otherwise a scratch copy with only the BUFSZ constant rewritten.  `real_codecs`: additionally link the whole library of
    the working tree and the compression libraries, so that the ops `rostream`/`ristream`/`rcall` run the real backends"""
    srcs = []
    for name in ("istream.c", "ostream.c"):
        p = vlib.REPO / "lib/xfrm/src" / name
        if real:
            srcs.append(str(p))
        else:
            text, n = re.subn(r"^(#define\s+BUFSZ\s+)\(\d+\)\s*$", r"\1(%d)" % bufsz, p.read_text(), flags=re.M)
            if n != 1:
                raise vlib.CheckFailure("cannot find the BUFSZ constant in %s" % p)
            q = ctx.scratch / ("b%d_%s" % (bufsz, name))
            q.write_text(text)
            srcs.append(str(q))
    if real_codecs:
        # the scratch istream.c/ostream.c come first on the link line, so they are the ones used; everything else from lib.a
        return ctx.cc("h_c15rc_%d%s" % (bufsz, "r" if real else ""), ["h_c15.c"] + ([] if real else srcs) + [str(ctx.build_lib())],
                      flags=["-DH_BUFSZ=%d" % bufsz, "-DH_REAL_CODECS"], libs=vlib.CODEC_LIBS)
    return ctx.cc("h_c15_%d%s" % (bufsz, "r" if real else ""), ["h_c15.c"] + srcs, flags=["-DH_BUFSZ=%d" % bufsz])


def run_lines(ctx, exe, lines, timeout=1800):
    """run a line-protocol harness.  The harnesses arm a CPU-time watchdog per scenario: code under test that spins makes
    the harness finish the line with 'HANG' and exit 3 (independent of machine load).  A wall-clock timeout or an abort on
    one line is confirmed by running that line alone; the rest is re-run.  Returns one output per line
    ('... HANG' / 'ABORT rc ...' for offending lines)."""
    def once(ls, to):
        text = "\n".join(ls) + "\n"
        try:
            r = subprocess.run([str(exe)], input=text, capture_output=True, text=True, env=ctx.san_env(), timeout=to)
            return r.stdout.splitlines(), r.returncode, r.stderr
        except subprocess.TimeoutExpired as e:
            o = e.stdout or ""
            if isinstance(o, (bytes, bytearray)):
                o = o.decode(errors="replace")
            return o.splitlines(), "timeout", ""
    out = []
    start = 0
    bad_lines = 0
    while start < len(lines):
        if bad_lines >= 8:
            # the code under test is broken on so many scenarios that running the rest only costs time
            out += ["SKIPPED"] * (len(lines) - start)
            break
        got, rc, err = once(lines[start:], timeout)
        want = len(lines) - start
        if rc == 0 and len(got) == want:
            out += got
            break
        if rc == 3 and got and got[-1].endswith("HANG"):
            out += [g.strip() for g in got]          # the watchdog fired on the last line printed
            start += len(got)
            bad_lines += 1
            continue
        k = min(len(got), want - 1)
        out += got[:k]
        g1, rc1, err1 = once([lines[start + k]], 600)
        if rc1 == 0 and len(g1) == 1:
            out.append(g1[0])
        elif rc1 == 3 and g1 and g1[-1].endswith("HANG"):
            out.append(g1[-1].strip())
        else:
            e = (err1 or err).strip().splitlines()
            out.append("HANG" if rc1 == "timeout" else "ABORT rc=%s %s" % (rc1, e[0][:200] if e else ""))
        bad_lines += 1
        start += k + 1
    if len(out) != len(lines):
        raise vlib.CheckFailure("harness %s answered %d lines to %d" % (exe, len(out), len(lines)))
    return out


def gen_fake_scenarios(ctx, bufsz, n_random, exhaustive):
    """scenario lines for bufsz, each with a descriptor used by the specification monitors"""
    rng = ctx.rng
    sc = []

    def params():
        return (rng.choice([0, 0, 1, 2, 5, 40]), rng.choice([0, 0, 1, 2, 5, 40]), rng.choice([0, 0, 1, 3, 9, 100]))

    def rbytes(n):
        return bytes(rng.choice([0, 1, 2, 0x41, 0xff, rng.randrange(256)]) for _ in range(n))

    def add_o(a, g, t, ops):
        toks, data, segs, cur = [], b"", [], b""
        for op in ops:
            if op == "f":
                toks.append("f"); segs.append(cur); cur = b""
            elif isinstance(op, int):
                toks.append("z:%d" % op); cur += b"\0" * op
            else:
                toks.append("a:" + tok(op)); cur += op
        sc.append({"kind": "ostream", "line": "ostream %d %d %d %d %s" % (bufsz, a, g, t, " ".join(toks)),
                   "segments": segs, "tail": cur})

    def add_i(a, g, t, inner, script, client, cls, expect):
        sc.append({"kind": "istream", "line": "istream %d %d %d %d %s %s %s" % (
            bufsz, a, g, t, tok(inner), ",".join(map(str, script)) or "-", ",".join("%d:%d" % c for c in client) or "-"),
            "class": cls, "expect": expect, "client": client})

    if exhaustive:
        # every way of cutting a short input into appends, flush at the end, for the harshest codec settings
        for n in range(0, 7):
            data = bytes([0x40 + i for i in range(n)])
            for mask in range(1 << max(n - 1, 0)):
                parts, cur = [], b""
                for i in range(n):
                    cur += data[i:i + 1]
                    if i == n - 1 or (mask >> i) & 1:
                        parts.append(cur); cur = b""
                for (a, g, t) in ((0, 0, 0), (1, 0, 2), (40, 40, 100)):
                    add_o(a, g, t, parts + ["f"])
        # every chunking script over {1, 2, 4, all} bytes of short member sequences, several readers
        members = [b"", b"A", b"AB", b"ABCDE"]
        for m1 in members:
            for m2 in (None, b"", b"xyz"):
                inner = toy_encode(m1) + (toy_encode(m2) if m2 is not None else b"")
                expect = m1 + (m2 or b"")
                for k in range(0, 4):
                    for script in _product([0, 1, 3], k):
                        for client in ([(1, 1)] * 12, [(bufsz, bufsz)] * 12, [(0, 1)] * 12, [(2, 3), (1, 0), (5, 1)] * 5):
                            for (a, g, t) in ((0, 0, 0), (2, 1, 1)):
                                add_i(a, g, t, inner, list(script), client, "valid", expect)
                # every truncation of the stream
                for cut in range(1, len(inner)):
                    part = inner[:cut]
                    cls = "valid" if toy_decode_all(part) is not None else "truncated"
                    add_i(0, 0, 0, part, [0, 1], [(1, 1)] * 14, cls, toy_decode_all(part) or b"")
                    add_i(40, 40, 100, part, [], [(bufsz, bufsz)] * 14, cls, toy_decode_all(part) or b"")
    def ops_tokens(ops):
        toks, segs, cur = [], [], b""
        for op in ops:
            if op == "f":
                toks.append("f"); segs.append(cur); cur = b""
            elif isinstance(op, int):
                toks.append("z:%d" % op); cur += b"\0" * op
            else:
                toks.append("a:" + tok(op)); cur += op
        return toks, segs, cur

    # wrapped streams that fail: the k-th append / flush / get_buffered_data returns an error code
    for _ in range(max(40, n_random // 3)):
        a, g, t = params()
        if rng.random() < 0.5:
            ops = [rbytes(rng.choice([1, bufsz - 1 if bufsz > 1 else 1, bufsz, bufsz + 1, 2 * bufsz + 1, rng.randint(1, 3 * bufsz + 2)]))
                   if rng.random() < 0.7 else "f" for _ in range(rng.randint(1, 5))] + ["f"]
            af = (rng.randint(0, 6), rng.choice([-1, -5, -12, 7])) if rng.random() < 0.7 else None
            ff = (rng.randint(0, 2), rng.choice([-1, -3, 9])) if (af is None or rng.random() < 0.3) else None
            toks, segs, cur = ops_tokens(ops)
            sc.append({"kind": "ostreamx", "line": "ostreamx %d %d %d %d %s %s %s" % (
                bufsz, a, g, t, "%d:%d" % af if af else "-", "%d:%d" % ff if ff else "-", " ".join(toks)),
                "segments": segs, "tail": cur, "afail": af, "ffail": ff})
        else:
            ms = [rbytes(rng.choice([0, 1, bufsz, bufsz + 1, rng.randint(0, 3 * bufsz + 2)])) for _ in range(rng.randint(1, 3))]
            inner = b"".join(toy_encode(m) for m in ms)
            script = [rng.choice([0, 0, 1, 2, bufsz, 3 * bufsz]) for _ in range(rng.randint(0, 12))]
            client = [(rng.choice([1, 2, bufsz, 512]), rng.choice([1, 2, bufsz, 10 ** 6])) for _ in range(rng.randint(1, 12))]
            client += [(1, 10 ** 6)] * (len(b"".join(ms)) + 3)
            fail = (rng.randint(0, 8), rng.choice([-1, -2, -40]))
            sc.append({"kind": "istreamx", "line": "istreamx %d %d %d %d %s %s %s %d:%d" % (
                bufsz, a, g, t, tok(inner), ",".join(map(str, script)) or "-", ",".join("%d:%d" % c for c in client), fail[0], fail[1]),
                "class": "valid", "expect": b"".join(ms), "client": client, "fail": fail})
    for _ in range(n_random):
        a, g, t = params()
        if rng.random() < 0.5:
            ops = []
            for _ in range(rng.randint(1, 6)):
                r = rng.random()
                if r < 0.2:
                    ops.append("f")
                elif r < 0.3:
                    ops.append(rng.choice([0, 1, bufsz, bufsz + 1, rng.randint(0, 3 * bufsz + 2)]))
                else:
                    ops.append(rbytes(rng.choice([0, 1, bufsz - 1, bufsz, bufsz + 1, 2 * bufsz, rng.randint(0, 4 * bufsz + 3)])))
            if rng.random() < 0.85:
                ops.append("f")
            add_o(a, g, t, ops)
        else:
            ms = [rbytes(rng.choice([0, 1, bufsz - 1, bufsz, bufsz + 1, rng.randint(0, 3 * bufsz + 2)])) for _ in range(rng.randint(0, 3))]
            inner = b"".join(toy_encode(m) for m in ms)
            expect = b"".join(ms)
            cls = "valid"
            r = rng.random()
            if r < 0.2 and len(inner) > 1:
                inner = inner[:rng.randint(1, len(inner) - 1)]
                d = toy_decode_all(inner)
                cls, expect = ("valid", d) if d is not None else ("truncated", b"")
            elif r < 0.3:
                inner = inner + rbytes(rng.randint(1, 4)); cls = "garbage"
                d = toy_decode_all(inner)
                if d is not None:
                    cls, expect = "valid", d
            elif r < 0.35 and inner:
                b = bytearray(inner); b[rng.randrange(len(b))] ^= 1 << rng.randrange(8); inner = bytes(b)
                d = toy_decode_all(inner)
                cls, expect = ("valid", d) if d is not None else ("garbage", b"")
            script = [rng.choice([0, 0, 1, 2, bufsz - 1 if bufsz > 1 else 0, bufsz, 3 * bufsz]) for _ in range(rng.randint(0, 12))]
            client = [(rng.choice([0, 1, 2, bufsz, bufsz + 3, 512]), rng.choice([0, 1, 1, 2, bufsz, 10 ** 6]))
                      for _ in range(rng.randint(1, 30))]
            drained = rng.random() < 0.7
            if drained:
                # a reader that goes on to the end of the stream (Model.drainOps): more rounds than content + junk budget can need
                client += [(1, bufsz)] * (len(b"".join(ms)) + len(inner) + 3)
            add_i(a, g, t, inner, script, client, cls, expect)
            sc[-1]["drained"] = drained and all(w > 0 for w, _ in client)
    return sc


def _product(vals, k):
    if k == 0:
        yield ()
        return
    for rest in _product(vals, k - 1):
        for v in vals:
            yield rest + (v,)


def big_scenarios(ctx, bufsz):
    """the real BUFSZ: data ending exactly at / one off the buffer edge, through both wrappers"""
    rng = ctx.rng
    sc = []
    a, g, t = 65535, 65535, 1 << 20
    for total in (bufsz - 1, bufsz, bufsz + 1, 2 * bufsz):
        data = rng.randbytes(total)
        cut = rng.randint(0, total)
        sc.append({"kind": "ostream", "line": "ostream %d %d %d %d a:%s a:%s f" % (bufsz, a, g, t, tok(data[:cut]), tok(data[cut:])),
                   "segments": [data], "tail": b""})
    for total in (bufsz // 2 - 1, bufsz // 2, bufsz):          # decoded size; encoded is twice that + 1
        data = rng.randbytes(total)
        inner = toy_encode(data[:total // 3]) + toy_encode(data[total // 3:])
        client = [(bufsz, 10 ** 7)] * 8
        sc.append({"kind": "istream", "line": "istream %d %d %d %d %s %s %s" % (bufsz, a, g, t, tok(inner), "131071,131071,0", ",".join("%d:%d" % c for c in client)),
                   "class": "valid", "expect": data, "client": client})
        sc.append({"kind": "istream", "line": "istream %d %d %d %d %s %s %s" % (bufsz, a, g, t, tok(inner[:-1]), "-", ",".join("%d:%d" % c for c in client)),
                   "class": "truncated", "expect": b"", "client": client})
    return sc


def spec_verdict(s, impl):
    """evaluate the property's specification on the implementation's answer; returns list of violated clauses"""
    bad = []
    if impl.endswith("HANG"):
        return ["terminates"]
    if impl.startswith("ABORT"):
        return ["no-abort"]
    f = impl.split()
    if s["kind"] == "ostreamx":
        # a failing call of the wrapped stream is reported with its own code; otherwise the usual clauses
        codes = [c[1] for c in (s["afail"], s["ffail"]) if c]
        if f[0] == "err":
            return [] if int(f[1]) in codes else ["error-code-is-the-wrapped-stream's"]
        if f[0] != "ok":
            return ["protocol"]
        if s["afail"] and int(f[3]) > s["afail"][0]:
            return ["write-error-reported"]
        if s["ffail"] and int(f[2]) > s["ffail"][0]:
            return ["flush-error-reported"]
    if s["kind"] == "istreamx":
        if f[0] == "err":
            return [] if int(f[1]) == s["fail"][1] else ["error-code-is-the-wrapped-stream's"]
        if f[0] != "ok":
            return ["protocol"]
        if int(f[5]) > s["fail"][0]:
            return ["read-error-reported"]
    if s["kind"] in ("ostream", "ostreamx"):
        if f[0] != "ok":
            return ["no-error"]
        sink = untok(f[1])
        # every completed segment (closed by a flush) is a sequence of members that decodes to what was appended
        want = b"".join(s["segments"])
        if not s["tail"]:
            d = toy_decode_all(sink)
            if d is None or d != want:
                bad.append("decode(written)=input")
        else:
            # data appended after the last flush may be partly written: what is there must be the completed members
            # followed by a prefix of the (unterminated) encoding of the rest
            done = b"".join(toy_encode(x) for x in s["segments"] if x)
            full = done + toy_encode(s["tail"])[:-1]
            if not (sink.startswith(done) and full.startswith(sink)):
                bad.append("written-is-prefix-of-encoding")
    else:
        cls, expect = s["class"], s["expect"]
        if cls == "valid":
            if f[0] != "ok":
                return ["no-error-on-valid-input"]
            acc, eof = untok(f[1]), f[2] == "1"
            if not expect.startswith(acc):
                bad.append("delivered-is-prefix-of-content")
            if eof and acc != expect:
                bad.append("eof-only-after-everything")
        elif cls == "truncated":
            if f[0] == "ok" and f[2] == "1":
                bad.append("truncated-is-error")
            elif f[0] == "ok" and s.get("drained"):
                bad.append("a-reader-that-reads-to-the-end-gets-the-error")          # truncated_is_error_for_draining_reader
        elif cls == "garbage":
            # neither a member sequence nor a prefix of one: never a regular end (corrupt_is_error)
            if f[0] == "ok" and f[2] == "1":
                bad.append("corrupt-is-error")
            elif f[0] == "ok" and s.get("drained"):
                bad.append("a-reader-that-reads-to-the-end-gets-the-error")          # corrupt_is_error_for_draining_reader
        if cls == "valid" and s.get("drained") and f[0] == "ok" and not (f[2] == "1" and untok(f[1]) == expect):
            bad.append("a-reader-that-reads-to-the-end-of-a-valid-stream-gets-everything-then-eof")   # valid_stream_drains_to_eof
    return bad


def fake_codec_part(ctx):
    real_b = bufsz_of(vlib.REPO / "lib/xfrm/src/istream.c")
    real_bo = bufsz_of(vlib.REPO / "lib/xfrm/src/ostream.c")
    if real_b is None or real_bo is None or real_b != real_bo:
        raise vlib.CheckFailure("BUFSZ of istream.c/ostream.c not found or different (%s, %s)" % (real_b, real_bo))
    quick = ctx.quick()
    plan = [(1, 150, False), (2, 300, True), (3, 300, False), (4, 600, True), (7, 400, False), (16, 300, False)] if quick else \
           [(1, 3000, True), (2, 6000, True), (3, 6000, True), (4, 12000, True), (5, 6000, True), (7, 8000, True), (16, 6000, False), (64, 3000, False)]
    stats = {"scenarios": 0, "nontrivial": 0, "by_bufsz": {}, "classes": {}, "disagreements": 0, "spec_failures": 0}
    samples = []
    work = []
    monitor = []          # (sink, expected, open tail?) of every accepted ostream run, re-judged by the Lean specification
    for bufsz, nrand, exh in plan:
        work.append((bufsz, False, gen_fake_scenarios(ctx, bufsz, nrand, exh)))
    work.append((real_b, True, big_scenarios(ctx, real_b)))
    corpus = vlib.CORPUS / "C15"
    if corpus.exists():
        for p in sorted(corpus.glob("fake_*.txt")):
            for l in p.read_text().splitlines():
                if l.strip() and not l.startswith("#"):
                    b = int(l.split()[1])
                    d = json.loads(l.split(" ## ")[1]) if " ## " in l else {}
                    s = {"kind": l.split()[0], "line": l.split(" ## ")[0]}
                    s.update({"segments": [untok(x) for x in d.get("segments", [])], "tail": untok(d.get("tail", "-")),
                              "class": d.get("class", "garbage"), "expect": untok(d.get("expect", "-")), "client": []})
                    work.insert(0, (b, b == real_b, [s]))
    built = {}
    for bufsz, real, scs in work:
        key = (bufsz, real)
        if key not in built:
            built[key] = build_fake_harness(ctx, bufsz, real)
        lines = [s["line"] for s in scs]
        impl = run_lines(ctx, built[key], lines)
        model = model_lines(ctx, lines, "fake codec, BUFSZ=%d" % bufsz)
        bk = str(bufsz) + ("(unmodified files)" if real else "")
        stats["by_bufsz"][bk] = stats["by_bufsz"].get(bk, 0) + len(lines)
        for s, i, m in strict_zip("fake codec part", scs, impl, model):
            if s["kind"] == "ostream" and i.startswith("ok "):
                monitor.append((i.split()[1], tok(b"".join(s["segments"]) + s["tail"]), bool(s["tail"])))
            stats["scenarios"] += 1
            cls = s["kind"] + ":" + s.get("class", "-")
            stats["classes"][cls] = stats["classes"].get(cls, 0) + 1
            if s["kind"] in ("ostream", "ostreamx") and len(b"".join(s["segments"]) + s["tail"]) > bufsz:
                stats["nontrivial"] += 1
            if s["kind"] in ("istream", "istreamx") and (s["class"] != "valid" or len(s["expect"]) > bufsz):
                stats["nontrivial"] += 1
            if len(samples) < 4 and stats["scenarios"] % 997 == 1:
                samples.append({"line": s["line"][:300], "impl": i[:200], "model": m[:200]})
            if i == m:
                continue
            if i == "SKIPPED":
                stats["skipped"] = stats.get("skipped", 0) + 1
                continue
            stats["disagreements"] += 1
            bad = spec_verdict(s, i)
            rep = {"harness": "h_c15 (BUFSZ=%d%s)" % (bufsz, ", unmodified files" if real else ", constant rewritten"),
                   "line": s["line"] if len(s["line"]) < 20000 else s["line"][:20000] + "...", "impl": i[:2000], "model": m[:2000],
                   "desc": {"segments": [tok(x) for x in s.get("segments", [])], "tail": tok(s.get("tail", b"")),
                            "class": s.get("class"), "expect": tok(s.get("expect", b"")),
                            "afail": s.get("afail"), "ffail": s.get("ffail"), "fail": s.get("fail")}}
            if bad:
                stats["spec_failures"] += 1
                if stats["spec_failures"] <= 5:
                    ctx.violation("wrapper:%s:%s" % (s["kind"], ",".join(bad)),
                                  "%s_xfrm with the toy codec violates %s: impl=%s model=%s" % (s["kind"], bad, i[:120], m[:120]), rep)
            elif stats["disagreements"] - stats["spec_failures"] <= 5:
                ctx.violation("corr:wrapper:" + vlib.sha(s["line"])[:10],
                              "model of %s_xfrm no longer matches the code (impl=%s model=%s); no clause of the specification fails on this input" % (
                                  s["kind"], i[:120], m[:120]), rep, found_input=False)
    if stats.get("skipped") and not ctx.violations and not ctx.known_hits:
        raise vlib.CheckFailure("%d fake-codec scenarios were skipped without any violation having been reported" % stats["skipped"])
    # the Python oracle of the toy format against the Lean specification (`monitor members` = Spec.toyDecodeAll), on the
    # implementation's sinks: a disagreement means the oracle used above is wrong
    closed = [(sink, want) for sink, want, open_tail in monitor if not open_tail]
    need(len(closed) >= 50, "too few closed ostream runs (%d) to cross-check the toy oracle" % len(closed))
    mlines = ["monitor members %s %s" % (sink, want) for sink, want in closed]
    verdicts = model_lines(ctx, mlines, "specification monitor")
    for (sink, want), v in strict_zip("specification monitor", closed, verdicts):
        py = toy_decode_all(untok(sink)) == untok(want)
        if (v == "1") != py:
            raise vlib.CheckFailure("Python toy oracle and Lean specification disagree on sink %s / input %s" % (sink[:80], want[:80]))
    stats["monitor_crosschecked"] = len(closed)
    # ... and the encoder/decoder of the toy format (Lean Toy.encode / Toy.decode, the `Dec` of the non-vacuity theorems)
    xs = [bytes(ctx.rng.randrange(256) for _ in range(ctx.rng.randint(0, 9))) for _ in range(40)]
    enc = model_lines(ctx, ["toyenc " + tok(x) for x in xs], "toy encoder")
    dec = model_lines(ctx, ["toydec " + tok(toy_encode(x)) for x in xs] + ["toydec " + tok(toy_encode(x)[:-1]) for x in xs], "toy decoder")
    for x, e, d, d2 in strict_zip("toy format", xs, enc, dec[:len(xs)], dec[len(xs):]):
        if e != tok(toy_encode(x)) or d != "ok " + tok(x) or d2 != "fail":
            raise vlib.CheckFailure("Python toy format and Lean Toy.encode/decode disagree on %s: %s / %s / %s" % (tok(x), e, d, d2))
    for k in ("ostream:-", "ostreamx:-", "istream:valid", "istream:truncated", "istream:garbage", "istreamx:valid"):
        need(stats["classes"].get(k, 0) > 0, "no fake-codec scenario of class %s was evaluated" % k)
    return stats, samples, real_b


# ------------------------------------------------------------------------------------------------ wrappers (a')
def build_wrap_harness(ctx):
    srcs = ["h_c15w.c", "c15_fakelib.c"] + ["lib/xfrm/src/%s.c" % n for n in ("gzip", "xz", "bzip2", "zstd", "compress")]
    return ctx.cc("h_c15w", srcs, flags=["-include", str(vlib.HARNESS / "c15_fakelib.h")])


def gen_wrap_scenarios(ctx, n_random):
    """call sequences for the process_data loops over the fake libraries; `family` scenarios follow the calling pattern of
    ostream_xfrm / istream_xfrm closely enough for the specification monitor to apply"""
    rng = ctx.rng
    sc = []

    def line(be, d, a, g, t, calls):
        return "wrap new %s %s %d %d %d %s" % (be, d, a, g, t, " ".join("%d:%d:%s" % (m, r, tok(x)) for m, r, x in calls))

    for be in CODECS:
        # encoders: one FULL call with all the data, then FULL calls without input (flush_inbuf(finish))
        for n in range(0, 4):
            data = bytes([0x41 + i for i in range(n)])
            for room in (1, 2, 5, 64):
                for (a, g, t) in ((9, 0, 9), (9, 9, 9), (0, 0, 0), (1, 1, 0)):
                    calls = [(2, room, data)] + [(2, room, b"")] * (2 * n + 4)
                    sc.append({"line": line(be, "c", a, g, t, calls), "family": "flush", "backend": be, "dir": "c", "data": data,
                               "full_intake": a >= n})
        # decoders: one member in chunks (consumed completely by a codec with large intake), then FULL calls without input
        for m in (b"", b"A", b"AB", b"ABCde"):
            stream = toy_encode(m)
            variants = [("valid", stream, m)]
            for cut in range(1, len(stream)):
                variants.append(("truncated", stream[:cut], b""))
            for pos in range(0, len(stream), 2):
                variants.append(("damaged", stream[:pos] + b"\x07" + stream[pos + 1:], b""))
            for cls, st, cont in variants:
                for k in (1, 2, 64):
                    chunks = [st[i:i + k] for i in range(0, len(st), k)]
                    for (a, g, t) in ((70, 70, 70), (70, 0, 70)):
                        calls = [(0, 64, c) for c in chunks] + [(2, 64, b"")] * 4
                        sc.append({"line": line(be, "d", a, g, t, calls), "family": "eof", "backend": be, "dir": "d", "class": cls,
                                   "content": cont, "nchunks": len(chunks)})
                        if k == 2 and (a, g, t) == (70, 0, 70):
                            # the same with total_in counters beyond 2^32 (`wrap big`: the fake libraries add 2^32 - 1 once a byte has been
                            # consumed, so libbz2's total_in_lo32 is 0 and total_in_hi32 is 1): the end-of-input rule must look at both
                            sc.append({"line": line(be, "d", a, g, t, calls).replace("wrap new ", "wrap big ", 1), "family": "eof", "backend": be, "dir": "d",
                                       "class": cls, "content": cont, "nchunks": len(chunks)})
    for _ in range(n_random):
        be = rng.choice(CODECS); d = rng.choice("cd")
        a, g, t = (rng.choice([0, 0, 1, 2, 5, 70]) for _ in range(3))
        calls = []
        if d == "c":
            data = bytes(rng.randrange(256) for _ in range(rng.randint(0, 12)))
            pos = 0
            while pos < len(data) and rng.random() < 0.6:
                k = rng.randint(1, len(data) - pos)
                calls.append((rng.choice([0, 0, 0, 1, 1, -1, 3, 7]), rng.choice([0, 1, 2, 3, 8, 40]), data[pos:pos + k])); pos += rng.randint(0, k)
            rest = data[pos:]
            for _ in range(rng.randint(1, 8)):
                calls.append((2, rng.choice([1, 2, 3, 8, 40]), rest)); rest = b"" if rng.random() < 0.9 else rest
        else:
            ms = [bytes(rng.randrange(256) for _ in range(rng.randint(0, 5))) for _ in range(rng.randint(0, 3))]
            st = b"".join(toy_encode(m) for m in ms)
            r = rng.random()
            if r < 0.3 and len(st) > 1:
                st = st[:rng.randint(1, len(st) - 1)]
            elif r < 0.4:
                st += bytes([rng.choice([0, 1, 2, 7])])
            pos = 0
            while pos < len(st) and rng.random() < 0.85:
                k = rng.randint(1, min(6, len(st) - pos))
                calls.append((rng.choice([0, 0, 0, 2, 1, -2, 3, 100]), rng.choice([0, 1, 2, 3, 8, 40]), st[pos:pos + k])); pos += k
            for _ in range(rng.randint(1, 4)):
                calls.append((2, rng.choice([1, 2, 8, 40]), b""))
        sc.append({"line": line(be, d, a, g, t, calls), "family": "random", "backend": be, "dir": d})
    return sc


def same_trace(impl, model):
    """traces agree; a model trace ending in `hang` (the loop never leaves) corresponds to the watchdog's `HANG`"""
    if impl == model:
        return True
    if impl.endswith("HANG") and model.endswith("hang"):
        return impl[:-4].split() == model[:-4].split()
    return False


def wrap_spec_verdict(s, impl):
    """the contract clauses that can be read off a trace of process_data calls, on the implementation's answers.
    returns (violated clauses, known-finding style key or None)"""
    be = s["backend"]
    if impl.endswith("HANG"):
        if be == "gzip" and s.get("dir") == "d":
            return ["terminates"], "gzip:data-error-hang"
        return ["terminates"], "wrapper-hang:%s:%s" % (be, s["family"])
    if impl.startswith("ABORT"):
        return ["no-abort"], "wrapper-abort:%s" % be
    calls = [c.split(",") for c in impl.split()]
    if any(len(c) != 3 for c in calls):
        return ["protocol"], "wrapper-protocol:%s" % be
    rets = [int(c[0]) for c in calls]
    outs = [untok(c[2]) for c in calls]
    if s["family"] == "flush" and s["full_intake"]:
        # FLUSH_FULL must be continued until END, and what was produced up to END is the member
        if 1 not in rets:
            return ["FLUSH_FULL-eventually-END"], ("flush-hang:%s" % be if be != "zstd" else "flush-never-end:zstd")
        k = rets.index(1)
        if -1 in rets[:k + 1]:
            return ["encoder-never-fails"], "encoder-error:%s" % be
        got = b"".join(outs[:k + 1])
        if s["data"] and toy_decode_all(got) != s["data"]:
            return ["decode(written)=input"], ("flush-early-end:%s" % be if be == "zstd" else "encoder-output:%s" % be)
    if s["family"] == "eof":
        n = s["nchunks"]
        got = b"".join(o for r, o in zip(rets, outs) if r != -1)
        if s["class"] == "valid":
            if -1 in rets:
                return ["no-error-on-valid-input"], "decoder-error:%s" % be
            if got != s["content"]:
                if s["content"].startswith(got):
                    return ["decode=content"], "pending-output-lost:%s" % be
                return ["decode=content"], "decoder-output:%s" % be
        elif s["class"] == "truncated":
            if -1 not in rets[n:]:
                return ["truncated-is-error"], "truncated-accepted:%s" % be
        elif s["class"] == "damaged":
            if -1 not in rets:
                return ["damaged-is-error"], "corrupt-accepted:%s" % be
    return [], None


def wrapper_part(ctx):
    exe = build_wrap_harness(ctx)
    scs = gen_wrap_scenarios(ctx, 3000 if ctx.quick() else 60000)
    corpus = vlib.CORPUS / "C15"
    if corpus.exists():
        for p in sorted(corpus.glob("wrap_*.txt")):
            for l in p.read_text().splitlines():
                if l.strip() and not l.startswith("#"):
                    scs.insert(0, {"line": l.strip(), "family": "corpus", "backend": l.split()[2], "dir": l.split()[3]})
    lines = [s["line"] for s in scs]
    model = model_lines(ctx, lines, "backend loops")
    old_model = model_lines(ctx, [l.replace("wrap new ", "wrap old ", 1) for l in lines], "backend loops (model of the loops before fix 8eb5186/7b3a56e)")
    stats = {"scenarios": 0, "families": {}, "disagreements": 0, "spec_failures": 0, "behaves_like_loops_before_the_fix": 0,
             "skipped_after_confirmed_hang": 0}
    # sequences on which the loops before the fix spin (by their model): probe a few first, and if the
    # working tree does spin there, do not pay a watchdog period for every further one
    predicted = [k for k in range(len(lines)) if old_model[k].endswith("hang") and not model[k].endswith("hang")]
    probe = predicted[:3]
    probe_out = run_lines(ctx, exe, [lines[k] for k in probe]) if probe else []
    spins = any(o.endswith("HANG") for o in probe_out)
    skip = set(predicted[3:]) if spins else set()
    stats["skipped_after_confirmed_hang"] = len(skip)
    todo = [k for k in range(len(lines)) if k not in skip and k not in probe]
    rest_out = run_lines(ctx, exe, [lines[k] for k in todo])
    impl = {k: o for k, o in strict_zip("backend loops (probe)", probe, probe_out)}
    impl.update({k: o for k, o in strict_zip("backend loops", todo, rest_out)})
    need(len(impl) + len(skip) == len(lines), "backend loops: %d of %d sequences evaluated" % (len(impl) + len(skip), len(lines)))
    reported = 0
    for k in sorted(impl):
        s, i, m, om = scs[k], impl[k], model[k], old_model[k]
        stats["scenarios"] += 1
        stats["families"][s["family"]] = stats["families"].get(s["family"], 0) + 1
        if same_trace(i, m):
            continue
        if i == "SKIPPED":
            stats["skipped"] = stats.get("skipped", 0) + 1
            continue
        stats["disagreements"] += 1
        bad, key = wrap_spec_verdict(s, i)
        as_old = same_trace(i, om)
        if as_old:
            stats["behaves_like_loops_before_the_fix"] += 1
        rep = {"harness": "h_c15w (real process_data loops over the fake libraries)", "wrap_line": s["line"], "impl": i[:2000], "model": m[:2000],
               "model_of_loops_before_the_fix": om[:2000], "matches_model_before_the_fix": as_old}
        if bad:
            stats["spec_failures"] += 1
            report(ctx, key, "process_data of %s over the fake library violates %s (impl: %s)" % (s["backend"], bad, i[:150]), rep)
        elif reported < 5:
            # every difference from the model of the current loops is reported, also when the trace is the one of the loops before
            # the fix and no monitored clause fails on it: the theorems are about the current loops only
            reported += 1
            ctx.violation("corr:wrap:" + vlib.sha(s["line"])[:10],
                          "the model of the %s process_data loop does not match the code (impl=%s model=%s)%s" % (
                              s["backend"], i[:100], m[:100], "; the trace is the one of the loop before the fix" if as_old else ""),
                          rep, found_input=False)
    if (stats.get("skipped") or skip) and not ctx.violations and not ctx.known_hits:
        raise vlib.CheckFailure("backend-loop sequences were skipped without any violation having been reported")
    for fam in ("flush", "eof", "random"):
        need(stats["families"].get(fam, 0) > 0, "no backend-loop sequence of family %s was evaluated" % fam)
    return stats


# ------------------------------------------------------------------------------------------------ real codecs under the wrappers (a'')
def real_codec_part(ctx, real_b):
    """the real backends over the real libraries *under the real wrappers*, with the BUFSZ constant rewritten to small values so that
    member boundaries, buffer edges and chunk edges fall everywhere (and once at the real size), driven like in harness (a) and
    judged by the reference decompressors; plus `rfeed`: the real process_data call by call, on which the clauses of the codec
    contracts that can be read off a trace are monitored (the libraries are assumed to meet them — this is where they are exercised)"""
    rng = ctx.rng
    quick = ctx.quick()
    T = Tools(ctx)
    stats = {"scenarios": 0, "by_kind": {}, "by_codec": {}, "by_class": {}, "by_bufsz": {}, "violations": 0, "contract_calls_monitored": 0}

    def piece():
        r = rng.random()
        n = rng.choice([0, 1, 2, 17, 100, 700, rng.randint(0, 3000)])
        if r < 0.4:
            return rng.randbytes(n)
        if r < 0.7:
            return (b"squashfs-tools-ng " * (n // 18 + 1))[:n]
        return bytes(n)

    def level_of(codec):
        return rng.choice([x for x in LEVELS[codec] if not (codec == "xz" and str(x)[0] in "789") and not (codec == "zstd" and x == 22)])

    def members(codec, pieces):
        ms = []
        for x in pieces:
            if rng.random() < 0.5:
                ms.append(ref_compress(T, codec, x, level_of(codec) if codec != "xz" else rng.choice([0, 1, 6])))
            else:
                ms.append(cli_compress(T, codec, x, level_of(codec)))
        return ms

    plan = [(5, 30), (64, 60), (1000, 40)] if quick else [(1, 100), (5, 300), (64, 600), (1000, 400), (4096, 200)]
    work = []
    for bufsz, n in plan:
        scs = []
        for _ in range(n):
            codec = rng.choice(CODECS)
            kind = rng.choice(["ristream", "ristream", "ristream", "rostream", "rfeed-d", "rfeed-c"])
            if kind == "rostream":
                ops, segs, cur = [], [], b""
                for _ in range(rng.randint(1, 4)):
                    if rng.random() < 0.25:
                        ops.append("f"); segs.append(cur); cur = b""
                    else:
                        x = piece(); ops.append("a:" + tok(x)); cur += x
                ops.append("f"); segs.append(cur)
                scs.append({"kind": kind, "codec": codec, "line": "rostream %d %s 0 0 %s" % (bufsz, codec, " ".join(ops)), "want": b"".join(segs), "class": "-"})
                continue
            pieces = [piece() for _ in range(rng.randint(1, 3))]
            ms = members(codec, pieces)
            if codec == "zstd" and rng.random() < 0.3:
                ms.insert(rng.randint(0, len(ms)), zstd_skippable(rng.randbytes(rng.randint(0, 20))))
            stream, content, cls = b"".join(ms), b"".join(pieces), "valid"
            full = content
            r = rng.random()
            if kind == "ristream" and r < 0.25 and len(stream) > MAGIC_LEN[codec] + 1:
                stream = stream[:rng.randint(1, len(stream) - 1)]; cls = "cut"
            elif kind == "ristream" and r < 0.45:
                b = bytearray(stream); b[rng.randrange(len(b))] ^= 1 << rng.randrange(8); stream = bytes(b); cls = "flipped"
            elif kind == "ristream" and r < 0.55:
                stream += rng.randbytes(rng.randint(1, 9)); cls = "garbage"
            if cls != "valid":
                exp = ref_decompress_all(T, codec, stream)
                lenient = zstd_paths_disagree(T, stream) if (exp is None and codec == "zstd") else None
                if exp is not None:
                    cls, content = "valid", exp          # the damage is not one (cut at a member boundary, flip in an unchecked field)
                elif lenient is not None:
                    cls, content = "either", lenient     # only one of libzstd's two decoding paths notices the damage
                else:
                    content = full if cls == "cut" else None
            if kind == "ristream":
                script = [rng.choice([0, 0, 1, 2, 7, bufsz, 3 * bufsz, 4095]) for _ in range(rng.randint(0, 40))]
                client = [(rng.choice([1, 2, bufsz, 512]), rng.choice([1, 2, bufsz, 10 ** 6])) for _ in range(rng.randint(0, 10))]
                # then a reader that takes everything it sees, for more rounds than the content can need
                client += [(bufsz, 10 ** 6)] * ((max(len(full), len(content or b"")) + 1000) // bufsz + 12)
                scs.append({"kind": kind, "codec": codec, "class": cls, "content": content,
                            "line": "ristream %d %s 0 0 %s %s %s" % (bufsz, codec, tok(stream), ",".join(map(str, script)) or "-", ",".join("%d:%d" % c for c in client))})
            elif kind == "rfeed-d":
                bounds, pos = [], 0
                for m in ms:
                    pos += len(m); bounds.append(pos)
                scs.append({"kind": kind, "codec": codec, "class": "valid", "content": content, "bounds": bounds, "nmembers": len(ms),
                            "line": "rfeed %s d %d %d %s" % (codec, rng.choice([1, 3, 64, 5000]), rng.choice([1, 2, 7, 300, 10 ** 6]), tok(stream))})
            else:
                data = b"".join(pieces)
                scs.append({"kind": kind, "codec": codec, "class": "-", "want": data,
                            "line": "rfeed %s c %d %d %s" % (codec, rng.choice([1, 3, 64, 5000]), rng.choice([1, 2, 7, 300, 10 ** 6]), tok(data))})
        if bufsz == 64:
            # the heaviest presets of the reference tools (left out of the random choice above: their encoders are slow), once each
            for codec, lvl in (("xz", 9), ("xz", "9e"), ("xz", 7), ("zstd", 22), ("gzip", 9), ("bzip2", 9)):
                x = piece() + b"squashfs" * 40
                st = cli_compress(T, codec, x, lvl)
                client = [(bufsz, 10 ** 6)] * ((len(x) + 1000) // bufsz + 12)
                scs.append({"kind": "ristream", "codec": codec, "class": "valid", "content": x,
                            "line": "ristream %d %s 0 0 %s %s %s" % (bufsz, codec, tok(st), "0,7,4095", ",".join("%d:%d" % c for c in client))})
        work.append((bufsz, False, scs))
    # at the real buffer size: members whose boundary lies just around the buffer edge of the wrapper
    big = []
    for codec in CODECS:
        first = rng.randbytes(real_b - rng.choice([0, 1, 2]))
        pieces = [first, rng.randbytes(rng.randint(1, 3000))]
        stream = b"".join(ref_compress(T, codec, x) for x in pieces)
        client = [(real_b, 10 ** 7)] * 8
        big.append({"kind": "ristream", "codec": codec, "class": "valid", "content": b"".join(pieces),
                    "line": "ristream %d %s 0 0 %s %s %s" % (real_b, codec, tok(stream), "131071,131071,0,4095", ",".join("%d:%d" % c for c in client))})
        # the same at the real size gone wrong: the end cut off, a bit flipped, bytes appended — read to the end by the client
        for cls, bad_stream in (("cut", stream[:-rng.randint(1, 8)]),
                                ("flipped", stream[:(p0 := rng.randrange(len(stream)))] + bytes([stream[p0] ^ (1 << rng.randrange(8))]) + stream[p0 + 1:]),
                                ("garbage", stream + rng.randbytes(rng.randint(1, 9)))):
            exp = ref_decompress_all(T, codec, bad_stream)
            lenient = zstd_paths_disagree(T, bad_stream) if (exp is None and codec == "zstd") else None
            cls2, content = ("valid", exp) if exp is not None else (("either", lenient) if lenient is not None else (cls, b"".join(pieces) if cls == "cut" else None))
            big.append({"kind": "ristream", "codec": codec, "class": cls2, "content": content,
                        "line": "ristream %d %s 0 0 %s %s %s" % (real_b, codec, tok(bad_stream), "131071,4095", ",".join("%d:%d" % c for c in client))})
    work.append((real_b, True, big))

    xok, xend, xfull, xerr = 0, 1, 2, -1
    for bufsz, real, scs in work:
        exe = build_fake_harness(ctx, bufsz, real, real_codecs=True)
        lines = [x["line"] for x in scs]
        need(len(lines) > 0, "no real-codec scenario for BUFSZ=%d" % bufsz)
        impl = run_lines(ctx, exe, lines)
        for x, i in strict_zip("real codecs", scs, impl):
            stats["scenarios"] += 1
            for k, v in (("by_kind", x["kind"]), ("by_codec", x["codec"]), ("by_class", x["class"]), ("by_bufsz", str(bufsz))):
                stats[k][v] = stats[k].get(v, 0) + 1
            bad = None
            f = i.split()
            if i.endswith("HANG"):
                bad = "terminates"
            elif i.startswith("ABORT") or i == "SKIPPED" or not f or f[0] == "bad-op":
                bad = "no-abort (%s)" % i[:80]
            elif x["kind"] == "rostream":
                if f[0] != "ok":
                    bad = "no-error"
                elif ref_decompress_all(T, x["codec"], untok(f[1])) != x["want"] and not (x["want"] == b"" and f[1] == "-"):
                    bad = "reference expands what was written to the input"
            elif x["kind"] == "ristream":
                if x["class"] == "valid":
                    if f[0] != "ok":
                        bad = "no-error-on-valid-input"
                    elif untok(f[1]) != x["content"] or f[2] != "1":
                        bad = "delivered = content, then end-of-stream"
                elif x["class"] == "either":
                    if f[0] == "ok" and (untok(f[1]) != x["content"] or f[2] != "1"):
                        bad = "error, or what libzstd's block-by-block path expands the stream to"
                else:
                    if f[0] == "ok":
                        bad = "%s-is-error (run ended ok, eof=%s)" % (x["class"], f[2])
                    elif x["content"] is not None and x["class"] == "cut" and not x["content"].startswith(untok(f[2])):
                        bad = "delivered-is-prefix-of-content"
            elif x["kind"] == "rfeed-d":
                calls = [c.split(",") for c in f]
                if any(len(c) != 5 for c in calls):
                    bad = "protocol (%s)" % i[-60:]
                else:
                    stats["contract_calls_monitored"] += len(calls)
                    got, consumed, ends = b"", 0, []
                    for mode, avail, ret, cons, out in calls:
                        mode, avail, ret, cons, out = int(mode), int(avail), int(ret), int(cons), untok(out)
                        if ret == xerr:
                            bad = "no-error-on-valid-input"; break
                        if cons > avail:
                            bad = "consumed <= offered"; break
                        if ret == xfull and not out:
                            bad = "BUFFER_FULL only with output"; break
                        if ret == xend and mode == 0 and x["codec"] == "zstd":
                            bad = "zstd: END only at the end of the input"; break
                        got += out; consumed += cons
                        if ret == xend:
                            ends.append((consumed, len(got)))
                    if not bad and got != x["content"]:
                        bad = "decode = content"
                    if not bad and calls[-1][2] != str(xend):
                        bad = "END at the end of a valid stream"
                    if not bad and x["codec"] != "zstd":
                        # per-member contract: END exactly at the members' ends, nothing consumed beyond
                        if sorted(set(e[0] for e in ends)) != x["bounds"]:
                            bad = "END exactly at the end of each member (got %s, members end at %s)" % (ends, x["bounds"])
            else:
                calls = [c.split(",") for c in f]
                if any(len(c) != 5 for c in calls):
                    bad = "protocol (%s)" % i[-60:]
                else:
                    stats["contract_calls_monitored"] += len(calls)
                    got = b""
                    for mode, avail, ret, cons, out in calls:
                        if int(ret) == xerr:
                            bad = "encoder-never-fails"; break
                        if int(cons) > int(avail):
                            bad = "consumed <= offered"; break
                        if int(ret) == xend and int(mode) == 0:
                            bad = "END never answered to FLUSH_NONE"; break
                        got += untok(out)
                    if not bad and calls[-1][2] != str(xend):
                        bad = "FLUSH_FULL eventually END"
                    if not bad and ref_decompress_all(T, x["codec"], got) != x["want"]:
                        bad = "reference expands what was written to the input"
            if bad:
                stats["violations"] += 1
                report(ctx, "real-codec:%s:%s:%s" % (x["kind"], x["codec"], bad.split(" (")[0]),
                       "%s with the real %s backend (BUFSZ=%d) violates: %s; answer %s" % (x["kind"], x["codec"], bufsz, bad, i[:160]),
                       {"harness": "h_c15 -DH_REAL_CODECS (BUFSZ=%d%s)" % (bufsz, ", unmodified files" if real else ", constant rewritten"),
                        "real_line": x["line"] if len(x["line"]) < 60000 else None, "real_line_sha": vlib.sha(x["line"]), "class": x["class"], "impl": i[:2000]})
    for k in ("ristream", "rostream", "rfeed-d", "rfeed-c"):
        need(stats["by_kind"].get(k, 0) > 0, "no real-codec scenario of kind %s" % k)
    for c in CODECS:
        need(stats["by_codec"].get(c, 0) > 0, "no real-codec scenario for %s" % c)
    return stats


# ------------------------------------------------------------------------------------------------ probing (c)
def probe_part(ctx):
    """tar_open_stream's decision (plain / wrap in which decompressor) and the magic table, real code vs model"""
    lib = ctx.build_lib()
    exe = ctx.cc("h_c15p", ["h_c15p.c", str(lib)], libs=vlib.CODEC_LIBS)
    rng = ctx.rng
    magics = [bytes([0x1F, 0x8B, 0x08]), bytes([0xFD, 0x37, 0x7A, 0x58, 0x5A, 0x00]), bytes([0x28, 0xB5, 0x2F, 0xFD]), b"BZh"]
    datas = [b"", b"\0", b"\0" * 511, b"\0" * 512, b"\0" * 1024]
    for m in magics:
        for k in range(len(m) + 1):
            datas.append(m[:k]); datas.append(m[:k] + b"\x39\x00\xff")
            if k < len(m):
                datas.append(m[:k] + bytes([m[k] ^ 1]) + m[k + 1:] + b"zz")
        datas.append(b"\0" * 512 + m + b"rest")
        datas.append(m + b"\0" * 300 + b"ustar" + b"\0" * 300)
    def ustar_at(off, total, fill=b"x"):
        b = bytearray(fill * total)
        b[off:off + 5] = b"ustar"
        return bytes(b[:total])
    for off in (0, 256, 257, 258, 257 + 512):
        for total in (261, 262, 263, 512, 600, 1024, 1100):
            if off + 5 <= total:
                datas.append(ustar_at(off, total)); datas.append(ustar_at(off, total, b"\0"))
                datas.append(b"\0" * 512 + ustar_at(off, total)[: max(0, total - 512)])
    datas.append(magics[0] + ustar_at(257, 600)[3:])          # gzip magic *and* ustar at 257: plain wins
    for _ in range(300 if ctx.quick() else 5000):
        n = rng.choice([0, 1, 3, 6, 262, 511, 512, 513, 769, 774, 1024])
        b = bytearray(rng.choice([0, 0, 0x75, rng.randrange(256)]) for _ in range(n))
        if rng.random() < 0.5 and n >= 3:
            m = rng.choice(magics); b[:len(m)] = m[:n]
        if rng.random() < 0.4 and n >= 262:
            b[257:262] = b"ustar"
        if rng.random() < 0.3 and n >= 512:
            b[:512] = b"\0" * 512
            if n >= 512 + 262 and rng.random() < 0.5:
                b[512 + 257:512 + 262] = b"ustar"
        datas.append(bytes(b))
    lines = []
    for d in datas:
        lines.append("magic " + tok(d)); lines.append("probe " + tok(d))
    impl = run_lines(ctx, exe, lines)
    model = model_lines(ctx, lines, "probing")
    bad = 0
    kinds = {}
    for l, i, m in strict_zip("probing", lines, impl, model):
        kinds[i.split()[0] if l.startswith("probe") else "magic"] = kinds.get(i.split()[0] if l.startswith("probe") else "magic", 0) + 1
        if i != m:
            bad += 1
            if bad <= 3:
                # specification of the probing: an archive with `ustar` in the right place is never taken for compressed data, and
                # a stream that starts with a codec's magic (and is not a tar header) is unwrapped with that codec
                d = untok(l.split()[1])
                spec_bad = l.startswith("probe") and any(d.startswith(mg) for mg in magics) and b"ustar" not in d and i == "plain"
                report(ctx, ("probe:" if spec_bad else "corr:probe:") + vlib.sha(l)[:10],
                       "tar_open_stream / magic detection: impl=%s model=%s on %s" % (i, m, l[:80]),
                       {"harness": "h_c15p", "probe_line": l, "impl": i, "model": m}, found_input=spec_bad)
    return {"lines": len(lines), "disagreements": bad, "decisions": kinds}


# ------------------------------------------------------------------------------------------------ tools (b)
def mk_tar(files, end_padding=1024):
    bio = io.BytesIO()
    with tarfile.open(fileobj=bio, mode="w", format=tarfile.USTAR_FORMAT) as tf:
        for name, data in files:
            ti = tarfile.TarInfo(name); ti.size = len(data); ti.mtime = 1000000; ti.mode = 0o644
            tf.addfile(ti, io.BytesIO(data))
    raw = bio.getvalue()
    end = sum(512 + (len(d) + 511) // 512 * 512 for _, d in files)
    return raw[:end] + b"\0" * end_padding


def tar_stop(tar):
    """offset just behind the end-of-archive marker (two zero records): the tar reader reads no further (read_header.c)"""
    i = 0
    while i + 512 <= len(tar):
        h = tar[i:i + 512]
        if h == bytes(512):
            return min(len(tar), i + 1024)
        i += 512 + (int(h[124:136].rstrip(b"\0 ") or b"0", 8) + 511) // 512 * 512
    return len(tar)


class Tools:
    def __init__(self, ctx):
        self.ctx = ctx
        self.t2s = ctx.build_tool("tar2sqfs")
        self.s2t = ctx.build_tool("sqfs2tar")
        self.zref = ctx.cc("c15_zstd_ref", ["c15_zstd_ref.c"], libs=["-lzstd"])
        self.env = ctx.san_env()
        self.n = 0
        # "does not terminate" is decided on CPU time (ulimit -t), which does not grow when the machine is loaded: the
        # defects in question spin.  The wall-clock timeouts are only a fallback for a blocking hang and are confirmed
        # by an isolated, much longer re-run.
        self.cpu = 6            # CPU seconds; legitimate runs need < 1 (calibrate() raises it on a slow machine)
        self.t1 = 300.0
        self.t2 = 900.0
        self.d = ctx.scratch / "tools"
        self.d.mkdir(exist_ok=True)

    def calibrate(self, cpu_seconds):
        """`cpu_seconds` = CPU time of the most expensive plain run"""
        self.cpu = int(max(6, 20 * cpu_seconds + 1))

    def limited(self, cmd):
        return ["sh", "-c", "ulimit -t %d; exec \"$@\"" % self.cpu, "sh"] + cmd

    @staticmethod
    def cpu_killed(rc):
        return rc in (-24, -9, 128 + 24, 128 + 9)

    def _run_chunked(self, cmd, data, chunks, timeout):
        """feed `data` through a pipe in writes of the given sizes (then the rest), a short pause between writes"""
        import threading, time
        p = subprocess.Popen(cmd, stdin=subprocess.PIPE, stdout=subprocess.PIPE, stderr=subprocess.PIPE, env=self.env)

        def feed():
            pos = 0
            try:
                for c in chunks:
                    if pos >= len(data):
                        break
                    p.stdin.write(data[pos:pos + c]); p.stdin.flush(); pos += c
                    time.sleep(0.0005)
                p.stdin.write(data[pos:])
            except (BrokenPipeError, OSError):
                pass
            finally:
                try:
                    p.stdin.close()
                except OSError:
                    pass
        th = threading.Thread(target=feed, daemon=True)
        th.start()
        try:
            so, se = p.stdout.read(), p.stderr.read()
            p.wait(timeout=timeout)
        except subprocess.TimeoutExpired:
            p.kill(); p.wait()
            raise
        th.join(timeout=10)
        return subprocess.CompletedProcess(cmd, p.returncode, so, se)

    def pack(self, data, tag, timeout=None, chunks=None):
        """tar2sqfs on `data` → ('ok', sha256) | ('fail', rc) | ('hang',) | ('abort', rc, msg)"""
        self.n += 1
        out = self.d / ("img_%s_%d_%d.sqfs" % (tag, os.getpid(), id(data) % 100000 + self.n))
        try:
            cmd = self.limited([str(self.t2s), "-q", "-f", str(out)])
            if chunks:
                r = self._run_chunked(cmd, data, chunks, timeout or self.t1)
            else:
                r = subprocess.run(cmd, input=data, capture_output=True, env=self.env, timeout=timeout or self.t1)
        except subprocess.TimeoutExpired:
            if out.exists():
                out.unlink()
            return ("hang", "wall")
        try:
            if self.cpu_killed(r.returncode):
                return ("hang", "cpu")
            if r.returncode >= 90 or r.returncode < 0:
                return ("abort", r.returncode, r.stderr.decode(errors="replace")[-400:])
            if r.returncode != 0:
                return ("fail", r.returncode)
            return ("ok", vlib.sha(out.read_bytes()))
        finally:
            if out.exists():
                out.unlink()

    def image(self, data, tag):
        out = self.d / ("src_%s.sqfs" % tag)
        r = subprocess.run([str(self.t2s), "-q", "-f", str(out)], input=data, capture_output=True, env=self.env, timeout=60)
        if r.returncode != 0:
            raise vlib.CheckFailure("tar2sqfs failed on a plain generated archive: %s" % r.stderr.decode(errors="replace")[-300:])
        return out

    def unpack(self, img, codec=None, timeout=None):
        cmd = [str(self.s2t)] + (["-c", codec] if codec else []) + [str(img)]
        try:
            r = subprocess.run(self.limited(cmd), capture_output=True, env=self.env, timeout=timeout or self.t1)
        except subprocess.TimeoutExpired as e:
            return ("hang", len(e.stdout or b""), "wall")
        if self.cpu_killed(r.returncode):
            return ("hang", len(r.stdout or b""), "cpu")
        if r.returncode >= 90 or r.returncode < 0:
            return ("abort", r.returncode, r.stderr.decode(errors="replace")[-400:])
        if r.returncode != 0:
            return ("fail", r.returncode)
        return ("ok", r.stdout)

    def zstd_prefix(self, data):
        """number of bytes libzstd's streaming decoder hands out before it rejects (or accepts) the stream"""
        r = subprocess.run([str(self.zref), "d1"], input=data, capture_output=True, env=self.env, timeout=300)
        need(r.returncode in (0, 1, 2), "reference zstd decoder failed with exit code %s: %s" % (r.returncode, r.stderr[-200:]))
        return len(r.stdout)

    def unpack_to_full(self, img, codec=None):
        """sqfs2tar [-c codec] with its standard output on a device that accepts nothing (/dev/full): the exit status"""
        cmd = [str(self.s2t)] + (["-c", codec] if codec else []) + [str(img)]
        with open("/dev/full", "wb") as full:
            try:
                r = subprocess.run(self.limited(cmd), stdout=full, stderr=subprocess.PIPE, env=self.env, timeout=self.t1)
            except subprocess.TimeoutExpired:
                return ("hang", "wall")
        if self.cpu_killed(r.returncode):
            return ("hang", "cpu")
        if r.returncode >= 90 or r.returncode < 0:
            return ("abort", r.returncode, r.stderr.decode(errors="replace")[-400:])
        return ("exit", r.returncode)

    def zstd(self, mode, data, level=None, wlog=None):
        """libzstd reference coder; decoding: None = the stream is rejected (exit 1/2); any other failure is a failure of the check"""
        args = [str(self.zref), mode] + ([str(level)] if level is not None else []) + ([str(wlog)] if wlog is not None else [])
        r = subprocess.run(args, input=data, capture_output=True, env=self.env, timeout=300)
        if mode in ("d", "d1"):
            if r.returncode in (1, 2):
                return None
            need(r.returncode == 0, "reference zstd decoder failed with exit code %s: %s" % (r.returncode, r.stderr[-200:]))
            return r.stdout
        need(r.returncode == 0 and len(r.stdout) > 0, "reference zstd coder failed (%s): exit %s %s" % (args[1:], r.returncode, r.stderr[-200:]))
        return r.stdout


# every preset level of the reference tools (`xz -9e` = extreme; zstd 20..22 are the `--ultra` levels)
LEVELS = {"gzip": list(range(1, 10)), "xz": list(range(0, 10)) + ["9e", "6e"], "bzip2": list(range(1, 10)), "zstd": list(range(1, 20)) + [22]}


def cli_compress(T, codec, data, level):
    """the archive as the reference command line tool writes it at that preset (zstd: libzstd through c15_zstd_ref — no zstd CLI is
    installed —, streaming without announced size and with content checksum, as `tar c | zstd -N` does: the frame header carries
    the window the level asks for, 2^27 at level 22).  Exit codes and empty outputs are failures of the check."""
    if codec == "zstd":
        return T.zstd("cs", data, level)
    lv = str(level)
    cmd = {"gzip": ["gzip", "-n", "-c", "-" + lv],
           "xz": ["xz", "-c", "-T1", "-" + lv[0]] + (["-e"] if lv.endswith("e") else []),
           "bzip2": ["bzip2", "-c", "-" + lv]}[codec]
    r = subprocess.run(cmd, input=data, capture_output=True, timeout=600)
    need(r.returncode == 0 and len(r.stdout) > 0, "%s failed (exit %s): %s" % (" ".join(cmd), r.returncode, r.stderr[-200:]))
    return r.stdout


def member_of_length(T, codec, tar, target, tries=10):
    """a cut of `tar` whose first part compresses to (as near as possible) `target` bytes: (cut, achieved length, compressed)"""
    cut, best = max(1, min(len(tar) - 1, target)), None
    seen = set()
    for _ in range(tries):
        if cut in seen:
            break
        seen.add(cut)
        c = ref_compress(T, codec, tar[:cut])
        d = target - len(c)
        if best is None or abs(d) < abs(target - best[1]):
            best = (cut, len(c), c)
        if d == 0:
            break
        cut = max(1, min(len(tar) - 1, cut + d))
    return best


def zstd_skippable(payload, nibble=0):
    return (0x184D2A50 + nibble).to_bytes(4, "little") + len(payload).to_bytes(4, "little") + payload


def zstd_with_dict_id(frame, dict_id=0x2A):
    """the frame with the Dictionary_ID field switched on in its header (a decoder without that dictionary refuses it)"""
    fhd = frame[4]
    if fhd & 3:
        return None
    single = (fhd >> 5) & 1
    pos = 5 + (0 if single else 1)
    return frame[:4] + bytes([fhd | 1]) + frame[5:pos] + bytes([dict_id]) + frame[pos:]


def ref_compress(T, codec, data, level=None):
    if codec == "gzip":
        return pygzip.compress(data, level if level is not None else 6, mtime=0)
    if codec == "xz":
        return lzma.compress(data, preset=level if level is not None else 1)
    if codec == "bzip2":
        return bz2.compress(data, level if level else 9)
    return T.zstd("cc", data, level)          # with content checksum (what the zstd tool writes)


def ref_decompress_all(T, codec, data):
    """strict reference expansion of a whole stream of members; None = rejected (corrupt / truncated / trailing junk)"""
    try:
        if codec == "gzip":
            out, rest = b"", data
            while rest:
                d = zlib.decompressobj(31)
                out += d.decompress(rest)
                if not d.eof:
                    return None
                rest = d.unused_data
            return out
        if codec == "xz":
            out, rest = b"", data
            while rest:
                d = lzma.LZMADecompressor(format=lzma.FORMAT_XZ)
                out += d.decompress(rest)
                if not d.eof:
                    return None
                rest = d.unused_data
            return out
        if codec == "bzip2":
            out, rest = b"", data
            while rest:
                d = bz2.BZ2Decompressor()
                out += d.decompress(rest)
                if not d.eof:
                    return None
                rest = d.unused_data
            return out
        return T.zstd("d", data)
    except (zlib.error, lzma.LZMAError, OSError, EOFError, ValueError):
        # (a failure of the zstd helper is a vlib.CheckFailure and is not caught here)
        return None


def ref_prefix_len(T, codec, data, stop):
    """how many bytes (counted up to `stop`) the reference streaming decompressor hands out before it rejects `data`.  A client that
    needs only `stop` bytes and then stops reading cannot have been told about damage that the reference finds later.  Output is
    pulled in bounded pieces and the input is offered byte by byte (everything decodable is fetched before the next byte goes in), so
    that a failure on what follows (a check sum right behind the `stop`-th byte) cannot take already decodable bytes with it."""
    if codec == "zstd":
        return min(stop, T.zstd_prefix(data))
    n, pos = 0, 0
    try:
        while pos < len(data) and n < stop:
            d = {"gzip": lambda: zlib.decompressobj(31), "xz": lambda: lzma.LZMADecompressor(format=lzma.FORMAT_XZ),
                 "bzip2": lambda: bz2.BZ2Decompressor()}[codec]()
            buf = b""
            while not d.eof and n < stop:
                if codec == "gzip":
                    if not buf:
                        if pos >= len(data):
                            return n
                        buf = data[pos:pos + 1]; pos += 1
                    n += len(d.decompress(buf, min(4096, stop - n))); buf = d.unconsumed_tail
                else:
                    chunk = b""
                    if d.needs_input:
                        if pos >= len(data):
                            return n
                        chunk = data[pos:pos + 1]; pos += 1
                    n += len(d.decompress(chunk, min(4096, stop - n)))
            if d.eof:
                pos -= len(d.unused_data)
    except (zlib.error, lzma.LZMAError, OSError, EOFError, ValueError):
        pass
    return n


def gzip_with_header_fields(data, level=6):
    """a gzip member whose header carries FEXTRA, FNAME, FCOMMENT and FHCRC (RFC 1952; `gzip -N` writes FNAME)"""
    co = zlib.compressobj(level, zlib.DEFLATED, -15)
    body = co.compress(data) + co.flush()
    hdr = b"\x1f\x8b\x08" + bytes([0x02 | 0x04 | 0x08 | 0x10]) + b"\0\0\0\0\x00\x03"
    hdr += (6).to_bytes(2, "little") + b"Ap\x02\x00xy" + b"archive.tar\0" + b"made by the C15 check\0"
    hdr += (zlib.crc32(hdr) & 0xFFFF).to_bytes(2, "little")
    return hdr + body + (zlib.crc32(data) & 0xFFFFFFFF).to_bytes(4, "little") + (len(data) & 0xFFFFFFFF).to_bytes(4, "little")


def xz_with_dict_size(stream, bits):
    """the .xz stream (one block, LZMA2 only, as `xz -T1` writes it) with the dictionary size its block header announces changed to
    the one encoded by `bits` (29 = 96 MiB): the decoder allocates what is announced, so xz.c's memory limit decides"""
    need(stream[:6] == b"\xfd7zXZ\0" and stream[13] == 0 and stream[14] == 0x21 and stream[15] == 1, "unexpected .xz block header layout")
    size = (stream[12] + 1) * 4
    hdr = bytearray(stream[12:12 + size - 4]); hdr[4] = bits
    return stream[:12] + bytes(hdr) + (zlib.crc32(bytes(hdr)) & 0xFFFFFFFF).to_bytes(4, "little") + stream[12 + size:]


def cli_variant(cmd, data):
    r = subprocess.run(cmd, input=data, capture_output=True, timeout=600)
    need(r.returncode == 0 and len(r.stdout) > 0, "%s failed (exit %s): %s" % (" ".join(cmd), r.returncode, r.stderr[-200:]))
    return r.stdout


def zstd_paths_disagree(T, data):
    """libzstd has two decoding paths (one pass when the whole frame and enough room are there, block by block otherwise) whose
    checks differ in some versions (1.5.4: a Frame_Content_Size larger than the content is noticed by the first only).  Returns the
    expansion by the lenient path if the strict reference rejects `data` but the block-by-block path accepts it, else None: such a
    stream is damage the library cannot see on one of its paths, and either verdict of the code under test is taken."""
    if T.zstd("d", data) is not None:
        return None
    return T.zstd("d1", data)


def tool_part(ctx, bufsz):
    T = Tools(ctx)
    rng = ctx.rng
    quick = ctx.quick()
    results = {"tar2sqfs_runs": 0, "sqfs2tar_runs": 0, "by_class": {}, "by_codec": {}, "outcomes": {}}
    samples = []
    jobs = []          # (class, codec, description, data, oracle) for tar2sqfs

    def files_small():
        return [("a.txt", b"hello\n" * rng.randint(1, 40)), ("b.bin", rng.randbytes(rng.randint(1, 4000))),
                ("dir/c", bytes(rng.randint(0, 6000))), ("dir/d", rng.randbytes(rng.randint(0, 300))), ("e", b"")]

    archives = [("small", mk_tar(files_small()))]
    # archive length exactly k*BUFSZ / one record around it, incompressible and compressible
    for k, delta, rnd in ((1, 0, True), (2, 0, True), (1, 512, False), (2, -512, True)) if quick else \
            ((1, 0, True), (2, 0, True), (3, 0, True), (1, 512, True), (1, -512, True), (2, 512, False), (2, -512, True), (4, 0, False)):
        total = k * bufsz + delta
        n = total - 512 - 1024
        body = rng.randbytes(n) if rnd else (b"squashfs" * (n // 8 + 1))[:n]
        archives.append(("edge%dx%+d%s" % (k, delta, "r" if rnd else "c"), mk_tar([("f", body)])))
    # back-references near the far end of deflate's 32 KiB window, also across the edge of the wrapper's output buffer (within one
    # call the decoder copies from its output; only across calls does it need its window: a gzip decoder set up with a smaller
    # window fails there): the same 30000 random bytes, 1.5 buffers long
    far = rng.randbytes(30000)
    archives.append(("far-matches", mk_tar([("f", (far * (3 * bufsz // 60000 + 1))[:3 * bufsz // 2])])))
    # the end-of-archive marker followed by more than two wrapper buffers of zero padding (what `tar -b N` with a large blocking
    # factor writes): the tar reader stops at the marker, the end of the compressed stream lies two buffers further on
    padded_payload = rng.randbytes(rng.randint(3000, 9000))
    archives.append(("padded", mk_tar([("p.bin", padded_payload), ("q", b"x" * rng.randint(1, 700))],
                                      end_padding=1024 + 2 * bufsz + 512 * rng.randint(1, 40))))
    stops = {tag: tar_stop(tar) for tag, tar in archives}
    need(stops["padded"] + 2 * bufsz <= len(archives[-1][1]) and all(0 < v <= len(t) for (g, t), v in zip(archives, stops.values())),
         "end-of-archive markers of the generated archives not found where expected: %s" % stops)
    plain = {}
    slowest = 0.0
    import resource
    for tag, tar in archives:
        u0 = resource.getrusage(resource.RUSAGE_CHILDREN)
        res = T.pack(tar, "plain", timeout=900)
        u1 = resource.getrusage(resource.RUSAGE_CHILDREN)
        slowest = max(slowest, (u1.ru_utime + u1.ru_stime) - (u0.ru_utime + u0.ru_stime))
        if res[0] != "ok":
            raise vlib.CheckFailure("tar2sqfs does not pack the plain archive %s: %s" % (tag, res))
        plain[tag] = res[1]
    T.calibrate(slowest)
    results["limits"] = {"cpu_s_of_costliest_plain_run": round(slowest, 3), "cpu_limit_s": T.cpu, "wall_first_pass_s": T.t1,
                         "wall_isolated_rerun_s": T.t2}
    confirmed_hangs = set()

    def add(cls, codec, tag, desc, data, oracle, chunks=None):
        need(data is not None and len(data) > 0, "empty input generated for %s/%s/%s" % (cls, codec, desc))
        jobs.append((cls, codec, tag, desc, data, oracle, chunks))

    levels = LEVELS
    for tag, tar in archives:
        small = tag == "small"
        for codec in CODECS:
            whole = ref_compress(T, codec, tar)
            add("single", codec, tag, "single stream", whole, "same")
            # members: two at a few cuts, three with possibly empty ones; for the archives of k*BUFSZ bytes one of each
            for cut in sorted({1, 511, 512, 513, rng.randint(1, len(tar) - 1), len(tar) - 1}) if small else [rng.randint(1, len(tar) - 1)]:
                add("members", codec, tag, "2 members split at %d" % cut, ref_compress(T, codec, tar[:cut]) + ref_compress(T, codec, tar[cut:]), "same")
            if small or not quick:
                a, b = sorted((rng.randint(0, len(tar)), rng.randint(0, len(tar))))
                add("members", codec, tag, "3 members split at %d,%d (one possibly empty)" % (a, b),
                    ref_compress(T, codec, tar[:a]) + ref_compress(T, codec, tar[a:b]) + ref_compress(T, codec, tar[b:]), "same")
            # the archive arriving through a pipe in many small writes
            if small or tag == archives[1][0]:
                sizes = [rng.choice([1, 2, 7, 511, 512, 513, 4096, rng.randint(1, 9000)]) for _ in range(rng.randint(20, 60))]
                add("pipe-chunks", codec, tag, "single stream written in %d pieces of 1..9000 bytes, then the rest" % len(sizes), whole, "same", sizes)
            if small or tag == "far-matches" or (not quick and tag == archives[1][0]):
                # every preset level of the reference tools
                for lvl in (levels[codec] if tag != "far-matches" else [levels[codec][0], [x for x in levels[codec] if isinstance(x, int)][-1]]):
                    add("level", codec, tag, "reference tool at level %s" % lvl, cli_compress(T, codec, tar, lvl), "same")
            if small:
                if codec == "zstd":
                    add("single", codec, tag, "single frame without content checksum", T.zstd("c", tar), "same")
                    z1, z2 = T.zstd("cc", tar[:777]), T.zstd("c", tar[777:], 3)
                    sk = zstd_skippable(rng.randbytes(rng.randint(0, 40)), rng.randrange(16))
                    # not recognised by tar_open_stream (its magic table knows the standard frame magic only; the skippable magics are
                    # shared with the LZ4 frame format): read as a plain tar stream and rejected — a clean error, never another image
                    add("zstd-frames", codec, tag, "skippable frame first (not recognised as zstd)", sk + whole, "same-or-error")
                    add("zstd-frames", codec, tag, "skippable frames between and after two frames", z1 + sk + z2 + zstd_skippable(b""), "reference")
                    add("zstd-frames", codec, tag, "skippable frame cut short at the end", whole + sk[:-1] if len(sk) > 8 else whole + sk[:5], "reference")
                    did = zstd_with_dict_id(whole)
                    if did:
                        add("zstd-frames", codec, tag, "frame header names a dictionary", did, "reference")
                    add("zstd-frames", codec, tag, "window log 27 (largest a default decoder accepts)", T.zstd("cs", tar, 19, 27), "same")
                    add("zstd-frames", codec, tag, "window log 28 (a default decoder refuses it)", T.zstd("cs", tar, 19, 28), "reference")
                # container features beyond the preset level (review E, F3): valid archives, judged by the reference expansion
                if codec == "xz":
                    for opt in (["--check=none"], ["--check=crc32"], ["--check=crc64"], ["--check=sha256"], ["--block-size=4096"],
                                ["-T2", "--block-size=8192"], ["--x86", "--lzma2=preset=1"], ["--lzma2=dict=64KiB,lc=4,lp=0,pb=0"]):
                        add("container", codec, tag, "xz " + " ".join(opt), cli_variant(["xz", "-c"] + (["-T1"] if "-T2" not in opt else []) + opt, tar), "reference")
                    add("container", codec, tag, "xz block header announcing a 96 MiB dictionary (the largest step below xz.c's 128 MiB memory limit)",
                        xz_with_dict_size(cli_variant(["xz", "-c", "-T1", "-1"], tar), 29), "reference")
                if codec == "gzip":
                    add("container", codec, tag, "gzip header with FEXTRA, FNAME, FCOMMENT, FHCRC", gzip_with_header_fields(tar), "reference")
                    add("container", codec, tag, "gzip --rsyncable -1", cli_variant(["gzip", "-n", "-c", "--rsyncable", "-1"], tar), "reference")
                if codec == "bzip2":
                    add("container", codec, tag, "bzip2 -1 (100k blocks: several per stream for the larger files)", cli_variant(["bzip2", "-c", "-1"], tar), "reference")
                for pad in (1, 4, 512, 10240):
                    add("padding", codec, tag, "+%d zero bytes" % pad, whole + b"\0" * pad, "same-or-error")
                add("garbage", codec, tag, "+ trailing garbage", whole + rng.randbytes(rng.randint(1, 64)), "same-or-error")
            elif tag == archives[2][0]:
                # second member starting just before / at the edge of the 128 KiB window of the wrapped file stream
                edge = 131072 * (1 if quick else rng.choice([1, 2]))
                for k in ([rng.choice([1, 2, 3])] if quick else [0, 1, 2, 3, 5]):
                    cut, got, first = member_of_length(T, codec, tar, edge - k)
                    add("straddle", codec, tag, "2 members, the second starts at byte %d (edge %d)" % (got, edge), first + ref_compress(T, codec, tar[cut:]), "same")
            if tag == "padded":
                # damage that lies behind the point where the tar reader stops reading (review E, F1): the last bytes of the
                # stream (check sums, length fields, index/footer) cut off or flipped, and payload bytes flipped where the codec stores
                # them verbatim (the check sum that reveals it stands in the trailer) — the reference decompressors reject all of it
                low = ref_compress(T, codec, tar, {"gzip": 0, "xz": 0, "bzip2": 1, "zstd": 1}[codec])
                for cut in sorted({1, 2, 8, rng.randint(1, 8), 12 if codec == "xz" else 5}):
                    add("beyond-end-marker", codec, tag, "last %d bytes cut off (trailer)" % cut, low[:-cut], "reference")
                for _ in range(2 if quick else 8):
                    pos = len(low) - 1 - rng.randrange(12 if codec != "bzip2" else 6); bit = rng.randrange(8)
                    b = bytearray(low); b[pos] ^= 1 << bit
                    add("beyond-end-marker", codec, tag, "bit %d of byte %d flipped (%d bytes before the end)" % (bit, pos, len(low) - pos), bytes(b), "reference")
                at = low.find(padded_payload[1000:1016])
                if at >= 0:
                    b = bytearray(low); b[at + rng.randrange(16)] ^= 1 << rng.randrange(8)
                    add("beyond-end-marker", codec, tag, "bit flipped in a payload byte the codec stores verbatim", bytes(b), "reference")
                else:
                    need(codec != "gzip", "gzip at level 0 does not store the payload verbatim (no payload flip generated)")
            ncut = (8 if small else 2) if quick else (80 if small else 10)
            cuts = {MAGIC_LEN[codec], len(whole) - 1, len(whole) - 4, len(whole) // 2, 100}
            while len(cuts) < ncut + 5:
                cuts.add(rng.randint(MAGIC_LEN[codec], len(whole) - 1))
            for cut in sorted(c for c in cuts if MAGIC_LEN[codec] <= c < len(whole)):
                add("truncated", codec, tag, "cut to %d of %d bytes" % (cut, len(whole)), whole[:cut], "reference")
            # the magic number itself damaged: tar_open_stream cannot recognise the codec and reads the bytes as a tar stream
            b0 = bytearray(whole); b0[0] ^= 1
            add("magic-damaged", codec, tag, "bit 0 of byte 0 (magic number) flipped, %d bytes" % len(whole), bytes(b0), "error-or-same")
            nflip = (6 if small else 1) if quick else (120 if small else 10)
            for _ in range(nflip):
                pos = rng.randrange(len(whole)); bit = rng.randrange(8)
                b = bytearray(whole); b[pos] ^= 1 << bit
                if pos < MAGIC_LEN[codec]:
                    add("magic-damaged", codec, tag, "bit %d of byte %d (magic number) flipped, %d bytes" % (bit, pos, len(whole)), bytes(b), "error-or-same")
                else:
                    add("flipped", codec, tag, "bit %d of byte %d flipped" % (bit, pos), bytes(b), "reference")

    def run_job(j):
        cls, codec, tag, desc, data, oracle, chunks = j
        res = T.pack(data, codec, chunks=chunks)
        ref = None
        if oracle == "reference":
            exp = ref_decompress_all(T, codec, data)
            ref = ("rejects",) if exp is None else T.pack(exp, "ref")
            if exp is None and codec == "zstd":
                lenient = zstd_paths_disagree(T, data)
                if lenient is not None:
                    ref = ("either", T.pack(lenient, "ref"))
        return res, ref

    with ThreadPoolExecutor(max_workers=JOBS) as ex:
        outs = list(ex.map(run_job, jobs))
    results["tar2sqfs_runs"] = len(jobs) + len(archives)
    # a first-pass timeout is only a suspicion: run the case alone with a much longer timeout (once per kind of hang)
    need(len(outs) == len(jobs), "tar2sqfs jobs: %d results for %d jobs" % (len(outs), len(jobs)))
    for idx, ((cls, codec, tag, desc, data, oracle, chunks), (res, ref)) in enumerate(zip(jobs, outs)):
        hk = "gzip-data" if (codec == "gzip" and cls in ("flipped", "padding", "garbage")) else (codec, cls)
        if res[0] == "hang" and res[1] == "wall" and hk not in confirmed_hangs:
            res2 = T.pack(data, codec, timeout=T.t2)
            if res2[0] == "hang":
                confirmed_hangs.add(hk)
            outs[idx] = (res2, ref)
            results["isolated_reruns"] = results.get("isolated_reruns", 0) + 1
    for (cls, codec, tag, desc, data, oracle, chunks), (res, ref) in strict_zip("tar2sqfs jobs", jobs, outs):
        results["by_class"][cls] = results["by_class"].get(cls, 0) + 1
        results["by_codec"][codec] = results["by_codec"].get(codec, 0) + 1
        results["outcomes"]["%s:%s" % (cls, res[0] if res[0] != "ok" else ("same" if res[1] == plain[tag] else "other-image"))] = \
            results["outcomes"].get("%s:%s" % (cls, res[0] if res[0] != "ok" else ("same" if res[1] == plain[tag] else "other-image")), 0) + 1
        same = res[0] == "ok" and res[1] == plain[tag]
        clean_err = res[0] == "fail"
        key = what = None
        if res[0] == "hang":
            if cls in ("flipped", "padding", "garbage") and codec == "gzip":
                key, what = "gzip:data-error-hang", "tar2sqfs never terminates on a corrupted gzip stream (%s): inflate's Z_DATA_ERROR is not treated as an error" % desc
            else:
                key, what = "tar2sqfs-hang:%s:%s" % (codec, cls), "tar2sqfs does not terminate (%s limit: %d CPU seconds / %d s) on %s input (%s)" % (res[1], T.cpu, T.t2, codec, desc)
        elif res[0] == "abort":
            key, what = "tar2sqfs-abort:%s:%s" % (codec, cls), "tar2sqfs aborted (rc=%s) on %s input (%s): %s" % (res[1], codec, desc, res[2][-200:])
        elif oracle == "same" and not same:
            key, what = "not-transparent:%s:%s" % (codec, cls), "tar2sqfs on %s (%s, archive %s) gives %s instead of the image of the plain archive" % (codec, desc, tag, res[:2])
        elif oracle == "same-or-error" and not (same or clean_err):
            key, what = "not-transparent:%s:%s" % (codec, cls), "tar2sqfs on %s with %s gives another image (exit 0)" % (codec, desc)
        elif oracle == "error-or-same" and cls == "magic-damaged" and not clean_err:
            key, what = "unrecognised-short-input-accepted", ("tar2sqfs exits 0 with an empty/shorter image on a %s stream whose magic number is damaged (%s): "
                                                             "tar_open_stream reads it as a tar stream and the tar reader takes less than one header of garbage for a clean end" % (codec, desc))
        elif oracle == "reference":
            if ref[0] == "either":
                results["zstd_library_paths_disagree"] = results.get("zstd_library_paths_disagree", 0) + 1
                if not (clean_err or res[:2] == ref[1][:2]):
                    key, what = "corrupt-accepted:%s" % codec, "tar2sqfs on a %s stream only libzstd's block-by-block path accepts (%s) gives neither an error nor the image of that path's expansion" % (codec, desc)
            elif ref == ("rejects",):
                # a stream the reference tools reject must be rejected — also when the image happens to be the right one
                if not clean_err:
                    delivered = ref_prefix_len(T, codec, data, stops[tag])
                    if delivered >= stops[tag]:
                        results["unread_tail_accepted"] = results.get("unread_tail_accepted", 0) + 1
                        key, what = "unread-tail-accepted:%s" % codec, (
                            "tar2sqfs exits 0 (%s) on a %s stream the reference decompressor rejects (%s): the damage lies behind the end-of-archive "
                            "marker (the reference hands out the %d bytes up to the marker at byte %d before it fails) and tar2sqfs never reads the "
                            "compressed stream to its end" % ("image of the intact archive" if same else "another image", codec, desc, delivered, stops[tag]))
                    elif cls == "truncated":
                        key, what = "truncated-accepted:%s" % codec, "tar2sqfs exits 0 with a shorter image on a truncated %s stream (%s)" % (codec, desc)
                    else:
                        key, what = "corrupt-accepted:%s" % codec, "tar2sqfs exits 0 (%s) on a %s stream the reference decompressor rejects (%s)" % (
                            "same image" if same else "another image", codec, desc)
            elif ref[0] in ("ok", "fail") and res[0] in ("ok", "fail"):
                if (ref[0] == "ok") != (res[0] == "ok") or (ref[0] == "ok" and ref[1] != res[1]):
                    # reference accepts the damaged stream (damage outside checked data): must behave as on its expansion
                    key, what = "not-transparent:%s:%s" % (codec, cls), "tar2sqfs on a %s stream the reference decompressor accepts (%s) differs from tar2sqfs on the reference expansion" % (codec, desc)
        if len(samples) < 6 and results["by_class"][cls] == 1:
            samples.append({"class": cls, "codec": codec, "archive": tag, "variant": desc, "bytes": len(data), "outcome": res[0] if not same else "same image"})
        if key:
            report(ctx, key, what, {"tool": "tar2sqfs", "codec": codec, "class": cls, "archive": tag, "variant": desc,
                                      "input_hex": tok(data) if len(data) <= 300000 else None, "input_sha256": vlib.sha(data),
                                      "input_len": len(data), "expected": oracle, "got": list(res[:2]), "archive_ends_at": stops[tag]})

    # ---- sqfs2tar -c X | reference decompressor  ==  sqfs2tar
    ujobs = []
    for tag, tar in archives:
        img = T.image(tar, tag)
        base = T.unpack(img, timeout=600)
        if base[0] != "ok":
            raise vlib.CheckFailure("sqfs2tar failed on %s: %s" % (tag, base[:2]))
        for codec in CODECS:
            ujobs.append((tag, codec, img, base[1]))

    def run_u(j):
        tag, codec, img, base = j
        res = T.unpack(img, codec)
        exp = ref_decompress_all(T, codec, res[1]) if res[0] == "ok" else None
        # and back: the compressed stream sqfs2tar wrote, read by tar2sqfs, gives the image of the plain stream
        back = (T.pack(res[1], codec + "_back"), T.pack(base, "plain_back")) if res[0] == "ok" and tag in ("small", archives[1][0]) else None
        return res, exp, back

    with ThreadPoolExecutor(max_workers=JOBS) as ex:
        uouts = list(ex.map(run_u, ujobs))
    need(len(uouts) == len(ujobs) and len(ujobs) == len(archives) * len(CODECS), "sqfs2tar jobs: %d results for %d jobs" % (len(uouts), len(ujobs)))
    for idx, ((tag, codec, img, base), (res, exp, back)) in enumerate(zip(ujobs, uouts)):
        if res[0] == "hang" and res[2] == "wall" and ("sqfs2tar", codec) not in confirmed_hangs:
            res2 = T.unpack(img, codec, timeout=T.t2)
            if res2[0] == "hang":
                confirmed_hangs.add(("sqfs2tar", codec))
            uouts[idx] = (res2, ref_decompress_all(T, codec, res2[1]) if res2[0] == "ok" else None, None)
            results["isolated_reruns"] = results.get("isolated_reruns", 0) + 1
    results["sqfs2tar_runs"] = len(ujobs) + len(archives)
    for (tag, codec, img, base), (res, exp, back) in strict_zip("sqfs2tar jobs", ujobs, uouts):
        if back is not None:
            results["roundtrips"] = results.get("roundtrips", 0) + 1
            if back[0][:2] != back[1][:2] or back[1][0] != "ok":
                report(ctx, "not-transparent:roundtrip:%s" % codec, "tar2sqfs on the output of sqfs2tar -c %s gives %s, on the plain output %s" % (codec, back[0][:2], back[1][:2]),
                       {"tool": "sqfs2tar", "codec": codec, "archive": tag, "tar_len": len(base), "archive_recipe": "round trip"})
        key = what = None
        oc = res[0] if res[0] != "ok" else ("expands-to-plain" if exp == base else "does-not-expand")
        results["outcomes"]["sqfs2tar:" + oc] = results["outcomes"].get("sqfs2tar:" + oc, 0) + 1
        if res[0] == "hang":
            key, what = "flush-hang:%s" % codec, "sqfs2tar -c %s never terminates (%d bytes written, then no progress) when the final flush does not fit the output buffer (tar stream of %d bytes)" % (codec, res[1], len(base))
        elif res[0] != "ok":
            key, what = "sqfs2tar-fails:%s" % codec, "sqfs2tar -c %s fails (%s) on an image sqfs2tar unpacks" % (codec, res[:2])
        elif exp is None:
            key, what = "flush-early-end:%s" % codec, "sqfs2tar -c %s exits 0 but its output is rejected by the reference decompressor (incomplete stream, tar stream of %d bytes)" % (codec, len(base))
        elif exp != base:
            key, what = "not-transparent:sqfs2tar:%s" % codec, "sqfs2tar -c %s output expands to something else than plain sqfs2tar output" % codec
        if key:
            report(ctx, key, what, {"tool": "sqfs2tar", "codec": codec, "archive": tag, "tar_len": len(base),
                                      "archive_recipe": "one file of incompressible/compressible bytes so that the tar stream is %d bytes" % len(base)})
    # ---- a failing standard output is reported (review E, F4): sqfs2tar [-c X] > /dev/full must not exit 0
    fjobs = [(tag, codec, T.d / ("src_%s.sqfs" % tag)) for tag in ("small", archives[1][0]) for codec in [None] + CODECS]
    with ThreadPoolExecutor(max_workers=JOBS) as ex:
        fouts = list(ex.map(lambda j: T.unpack_to_full(j[2], j[1]), fjobs))
    need(len(fouts) == 2 * (len(CODECS) + 1), "sqfs2tar > /dev/full: %d results" % len(fouts))
    for (tag, codec, img), res in strict_zip("sqfs2tar > /dev/full", fjobs, fouts):
        results["sqfs2tar_runs"] += 1
        oc = "sqfs2tar>/dev/full:" + (res[0] if res[0] != "exit" else ("error-reported" if res[1] != 0 else "exit-0"))
        results["outcomes"][oc] = results["outcomes"].get(oc, 0) + 1
        if res != ("exit", 1) and not (res[0] == "exit" and 0 < res[1] < 90):
            report(ctx, "write-error-swallowed:sqfs2tar:%s" % (codec or "plain"),
                   "sqfs2tar %s with its output on /dev/full (every write fails with ENOSPC): %s — a write error of the output stream is not reported" % (
                       "-c " + codec if codec else "(no compressor)", res[:2]),
                   {"tool": "sqfs2tar>/dev/full", "codec": codec, "archive": tag})
    need(results["outcomes"].get("sqfs2tar>/dev/full:error-reported", 0) + results["outcomes"].get("sqfs2tar>/dev/full:exit-0", 0) > 0,
         "no sqfs2tar run with a failing standard output completed")
    for cls in ("single", "members", "level", "pipe-chunks", "straddle", "zstd-frames", "container", "padding", "garbage", "truncated", "magic-damaged",
                "flipped", "beyond-end-marker"):
        need(results["by_class"].get(cls, 0) > 0, "no tar2sqfs run of class %s" % cls)
    for codec in CODECS:
        need(results["by_codec"].get(codec, 0) > 0, "no tar2sqfs run for %s" % codec)
    need(results.get("roundtrips", 0) >= len(CODECS), "round trips sqfs2tar -c X | tar2sqfs missing")
    return results, samples


def run(ctx):
    ok, problems = vlib.proof_gate(ctx, MODULE, REQUIRED)
    if not ok:
        ctx.violation("proof:C15", "proof obligations of C15 no longer check: " + " | ".join(problems)[:1500],
                      {"broken": problems, "theorems_file": "lean/Sqfs/Props/C15.lean"}, found_input=False)
    okw, logw = ctx.lean_build(["Sqfs.Witness.C15"])
    if not okw:
        ctx.violation("proof:C15:witness", "Sqfs/Witness/C15.lean (theorems about the unpatched loops) no longer builds", {"log": logw[-2000:]}, found_input=False)
    fstats, fsamples, bufsz = fake_codec_part(ctx)
    ctx.log("fake codec: %d scenarios, %d disagreements" % (fstats["scenarios"], fstats["disagreements"]))
    wstats = wrapper_part(ctx)
    ctx.log("wrappers over fake libraries: %d call sequences, %d disagreements (%d behave like the loops before the fix)" % (
        wstats["scenarios"], wstats["disagreements"], wstats["behaves_like_loops_before_the_fix"]))
    pstats = probe_part(ctx)
    ctx.log("probing: %d inputs, %d disagreements" % (pstats["lines"], pstats["disagreements"]))
    rstats = real_codec_part(ctx, bufsz)
    ctx.log("real codecs under the wrappers: %d scenarios, %d violations, %d process_data calls monitored" % (
        rstats["scenarios"], rstats["violations"], rstats["contract_calls_monitored"]))
    tstats, tsamples = tool_part(ctx, bufsz)
    ctx.log("tools: %d tar2sqfs runs, %d sqfs2tar runs" % (tstats["tar2sqfs_runs"], tstats["sqfs2tar_runs"]))
    ctx.cov.update({
        "evaluations": fstats["scenarios"] + wstats["scenarios"] + pstats["lines"] + rstats["scenarios"] + tstats["tar2sqfs_runs"] + tstats["sqfs2tar_runs"],
        "distinct_nontrivial": fstats["nontrivial"] + sum(v for k, v in tstats["by_class"].items() if k != "single"),
        "rule": "fake-codec scenarios: operation sequences on the real ostream_xfrm / chunking+reader scripts on the real istream_xfrm, at BUFSZ in "
                "%s; non-trivial = more data than one buffer, or a truncated/garbage/damaged stream. Tool runs: tar2sqfs on generated "
                "archives (one multi-file, others sized k*BUFSZ +-512 with incompressible/compressible bytes) wrapped by the reference "
                "compressors in the listed variants; sqfs2tar -c X expanded by the reference decompressors; non-trivial = every variant other than the plain single stream" % sorted(fstats["by_bufsz"]),
        "fake_codec": fstats, "backend_loops": wstats, "probing": pstats, "real_codecs_under_wrappers": rstats, "tools": tstats,
        "samples": fsamples + tsamples,
        "disagreements_checked": fstats["disagreements"] + wstats["disagreements"],
        "bufsz": bufsz,
    })
    return ctx.finish(LEVEL, trusted_extra=[
        "zlib, liblzma, libbz2, libzstd are represented by the library-level conventions LibEncContract/LibDecContract/LibDecErrContract, ZEncContract/ZDecContract/ZDecErrContract of Sqfs/Spec/XfrmContract.lean (assumed; exercised under the real wrappers and call by call by part a'' and at tool level against reference decompressors: Python zlib/lzma/bz2, libzstd; producers: the gzip/xz/bzip2 command line tools, libzstd's streaming API)",
        "modelled: lib/xfrm/src/istream.c, ostream.c, the process_data loops of gzip.c/xz.c/bzip2.c/zstd.c, compress.c's magic table, tar_open_stream's probing, as in the current tree (the loops before fix commits 8eb5186/7b3a56e are Sqfs/Model/XfrmOld.lean, used by Sqfs/Witness/C15.lean only)",
        "harness/h_c15.c (fake codec, scripted source and sink with failure injection, real-codec ops), h_c15w.c + c15_fakelib.[ch], h_c15p.c, c15_zstd_ref.c, tools/checks/c15.py (generators, oracles)"],
        assumptions=["inputs that do not start with a codec's magic number (shorter than it, or a zstd stream whose first frame is a skippable frame) are not recognised as compressed by tar_open_stream, are read as a plain tar stream and rejected by the tar reader (limitation, not claimed)",
                     "zstd frames without content checksum cannot reveal payload damage; damaged streams are judged against the reference decompressor's verdict"])


def replay(ctx, path):
    body = json.loads(open(path).read())
    rp = body.get("replay", {})
    if "line" in rp:
        ctx.lean_build(["sqfsmodel"])
        line = rp["line"]
        bufsz = int(line.split()[1])
        real = "unmodified" in rp.get("harness", "")
        exe = build_fake_harness(ctx, bufsz, real)
        impl = run_lines(ctx, exe, [line], timeout=300)
        model = ctx.driver(["c15"], line + "\n")
        d = rp.get("desc", {})
        s = {"kind": line.split()[0], "line": line, "segments": [untok(x) for x in d.get("segments", [])], "tail": untok(d.get("tail", "-")),
             "class": d.get("class"), "expect": untok(d.get("expect", "-")),
             "afail": d.get("afail"), "ffail": d.get("ffail"), "fail": d.get("fail")}
        bad = spec_verdict(s, impl[0])
        print("impl :", impl[0][:500]); print("model:", model[0][:500]); print("clauses violated:", bad)
        return 1 if bad or impl[0] != model[0] else 0
    if "real_line" in rp:
        if not rp["real_line"]:
            print("the recorded line was too long to keep (sha256 %s): re-run the tier with the recorded seed" % rp.get("real_line_sha"))
            return 1
        line = rp["real_line"]
        bufsz = int(line.split()[1]) if line.split()[0] != "rfeed" else 64
        exe = build_fake_harness(ctx, bufsz, "unmodified" in rp.get("harness", ""), real_codecs=True)
        impl = run_lines(ctx, exe, [line], timeout=300)
        print("impl :", impl[0][:1500]); print("recorded:", rp.get("impl", "")[:1500])
        print("(the verdict needs the reference decompressor: class %s; see tools/checks/c15.py real_codec_part)" % rp.get("class"))
        return 1 if impl[0] == rp.get("impl", "")[:2000] or impl[0].endswith("HANG") or impl[0].startswith("ABORT") else 0
    if "wrap_line" in rp:
        ctx.lean_build(["sqfsmodel"])
        exe = build_wrap_harness(ctx)
        impl = run_lines(ctx, exe, [rp["wrap_line"]], timeout=300)
        model = ctx.driver(["c15"], rp["wrap_line"] + "\n")
        print("impl :", impl[0][:600]); print("model:", model[0][:600])
        return 0 if same_trace(impl[0], model[0]) else 1
    if "probe_line" in rp:
        ctx.lean_build(["sqfsmodel"])
        exe = ctx.cc("h_c15p", ["h_c15p.c", str(ctx.build_lib())], libs=vlib.CODEC_LIBS)
        impl = run_lines(ctx, exe, [rp["probe_line"]], timeout=300)
        model = ctx.driver(["c15"], rp["probe_line"] + "\n")
        print("impl :", impl[0]); print("model:", model[0])
        return 0 if impl[0] == model[0] else 1
    if rp.get("tool") == "tar2sqfs" and rp.get("input_hex"):
        T = Tools(ctx)
        data = untok(rp["input_hex"])
        res = T.pack(data, "replay", timeout=300)
        print("tar2sqfs on the recorded %s input (%s): %s; expected: %s" % (rp["codec"], rp["variant"], res[:2], rp["expected"]))
        exp = ref_decompress_all(T, rp["codec"], data)
        ref = T.pack(exp, "ref") if exp is not None else ("rejects",)
        print("reference decompressor:", "rejects the stream" if exp is None else "accepts; tar2sqfs on its expansion: %s" % (ref[:2],))
        bad = res[0] in ("hang", "abort") or (res[0] == "ok" and (exp is None or ref[:2] != res[:2]))
        return 1 if bad else 0
    if rp.get("tool") == "sqfs2tar>/dev/full":
        T = Tools(ctx)
        img = T.image(mk_tar([("a.txt", b"hello\n" * 20), ("b.bin", ctx.rng.randbytes(3000 if rp.get("archive") == "small" else 300000))]), "replay")
        res = T.unpack_to_full(img, rp.get("codec"))
        print("sqfs2tar %s > /dev/full: %s (must exit with an error)" % ("-c %s" % rp["codec"] if rp.get("codec") else "", res[:2]))
        return 0 if (res[0] == "exit" and 0 < res[1] < 90) else 1
    if rp.get("tool") == "sqfs2tar":
        T = Tools(ctx)
        n = rp["tar_len"] - 512 - 1024
        tar = mk_tar([("f", ctx.rng.randbytes(n))])
        img = T.image(tar, "replay")
        base = T.unpack(img, timeout=300)
        res = T.unpack(img, rp["codec"], timeout=300)
        okay = res[0] == "ok" and ref_decompress_all(T, rp["codec"], res[1]) == base[1]
        print("sqfs2tar -c %s on an image whose tar stream has %d bytes: %s, expands to plain output: %s" % (rp["codec"], len(base[1]), res[0], okay))
        return 0 if okay else 1
    print("replay file names a broken obligation, no input to replay:", json.dumps(rp)[:500])
    return 1
