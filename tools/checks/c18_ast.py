"""
C18 helper: enumerate every call of canonicalize_name / is_filename_sane in the working tree from the clang AST.

    sites = enumerate_callsites(ctx)  ->  [Site]

Two passes over every non-test, non-Windows `*.c` below $VERIF_REPO/lib and $VERIF_REPO/bin:
 1. `clang -E` (cheap): keep the files whose *preprocessed* text mentions one of the two identifiers - a call that
    reaches the function through a macro defined in a header is still found;
 2. `clang -fsyntax-only -Xclang -ast-dump=json` on those files; walk the AST of the main file and record every
    CallExpr whose callee resolves (through casts/parentheses) to a FunctionDecl of that name, together with the
    enclosing function, its ordinal among the calls of that callee in that function (source order), the line, and
    the *shape* in which the result is used (chain of parent node kinds up to the enclosing statement).

A file that clang cannot parse, or a helper process that fails, is an infrastructure failure (vlib.CheckFailure):
the enumeration is never silently shorter.  Taking the address of one of the two functions (a DeclRefExpr that is
not the callee of a CallExpr) is reported as a site of kind "address-taken" so that it cannot hide a call.
"""
import json, re, subprocess, sys
from concurrent.futures import ThreadPoolExecutor
import vlib

TARGETS = ("canonicalize_name", "is_filename_sane")
DEFINING = {"lib/util/src/canonicalize_name.c", "lib/util/src/filename_sane.c"}
JOBS = 4


class Site:
    def __init__(self, file, func, callee, ordinal, line, shape, kind="call"):
        self.file, self.func, self.callee, self.ordinal, self.line, self.shape, self.kind = file, func, callee, ordinal, line, shape, kind

    @property
    def key(self):
        return "%s:%s:%s#%d" % (self.file, self.func, self.callee, self.ordinal)

    def as_dict(self):
        return {"key": self.key, "line": self.line, "shape": self.shape, "kind": self.kind}


def candidate_sources():
    out = []
    for top in ("lib", "bin"):
        for p in sorted((vlib.REPO / top).rglob("*.c")):
            rel = p.relative_to(vlib.REPO).as_posix()
            if "/test/" in rel or rel in vlib.LIB_EXCLUDE:
                continue
            out.append(rel)
    if len(out) < 50:
        raise vlib.CheckFailure("C18 call-site enumeration: only %d C sources found below %s/lib and /bin" % (len(out), vlib.REPO))
    return out


def _flags(rel):
    return ["-w"] + vlib.include_flags() + vlib.BASE_DEFS + ["-I%s" % (vlib.REPO / rel).parent]


def _preprocess_mentions(rel):
    r = vlib.sh(["clang", "-E", "-P"] + _flags(rel) + [str(vlib.REPO / rel)], timeout=300)
    if r.returncode != 0:
        raise vlib.CheckFailure("C18 call-site enumeration: clang -E failed on %s: %s" % (rel, r.stderr[-1500:]))
    if not r.stdout.strip():
        raise vlib.CheckFailure("C18 call-site enumeration: clang -E produced no output for %s" % rel)
    # include/util/util.h contributes one mention (the prototype) to every file that includes it: a file is a
    # candidate when an identifier occurs more often than that, or occurs in its own text
    raw = (vlib.REPO / rel).read_text(errors="replace")
    for t in TARGETS:
        n = len(re.findall(r"\b%s\b" % t, r.stdout))
        if n >= 2 or (n >= 1 and re.search(r"\b%s\b" % t, raw)):
            return True
    return False


def _callee_decl(n):
    """the FunctionDecl name a CallExpr's callee refers to (through ImplicitCastExpr / ParenExpr), else None"""
    inner = n.get("inner") or []
    x = inner[0] if inner else None
    while isinstance(x, dict):
        if x.get("kind") == "DeclRefExpr":
            return (x.get("referencedDecl") or {}).get("name"), id(x)
        if x.get("kind") not in ("ImplicitCastExpr", "ParenExpr", "CStyleCastExpr"):
            return None, None
        inner = x.get("inner") or []
        x = inner[0] if inner else None
    return None, None


STMT_KINDS = {"CompoundStmt", "IfStmt", "ForStmt", "WhileStmt", "DoStmt", "SwitchStmt", "ReturnStmt", "CaseStmt", "DefaultStmt",
              "DeclStmt", "LabelStmt"}


COMPARISONS = ("==", "!=", "<", ">", "<=", ">=")


def _literal(n):
    """text of an integer literal operand (through casts, parentheses and a unary minus), else '?'"""
    sign = ""
    while isinstance(n, dict):
        k = n.get("kind")
        if k == "IntegerLiteral":
            return sign + str(n.get("value"))
        if k == "UnaryOperator" and n.get("opcode") == "-":
            sign = "-" if not sign else ""
        elif k not in ("ImplicitCastExpr", "ParenExpr", "CStyleCastExpr", "ConstantExpr"):
            return "?"
        inner = [c for c in n.get("inner") or [] if isinstance(c, dict)]
        n = inner[0] if len(inner) == 1 else None
    return "?"


def _shape(stack, node=None):
    """parent kinds from the enclosing statement down to the call's parent, e.g.
    'IfStmt(cond)>BinaryOperator(||)>BinaryOperator(!= 0)': an if statement says whether the call is in its condition, a
    comparison carries the side the result is on and the other
    operand when that is an integer literal ('(0 ==)' when the call is the right operand)"""
    parts = []
    path = stack + [node]
    for i in range(len(stack) - 1, -1, -1):
        s = stack[i]
        k = s.get("kind")
        if k == "CompoundStmt":
            break
        if k in ("ImplicitCastExpr", "ParenExpr"):
            continue
        tag = "(%s)" % s["opcode"] if "opcode" in s else ""
        if k == "BinaryOperator" and s.get("opcode") in COMPARISONS and node is not None:
            ops = [c for c in s.get("inner") or [] if isinstance(c, dict)]
            if len(ops) == 2:
                mine = 0 if ops[0] is path[i + 1] else 1 if ops[1] is path[i + 1] else None
                if mine == 0:
                    tag = "(%s %s)" % (s["opcode"], _literal(ops[1]))
                elif mine == 1:
                    tag = "(%s %s)" % (_literal(ops[0]), s["opcode"])
        if k == "IfStmt" and node is not None:
            kids = [c for c in s.get("inner") or [] if isinstance(c, dict)]
            tag = "(cond)" if kids and kids[0] is path[i + 1] else "(body)"
        parts.append(k + tag)
        if k in STMT_KINDS:
            break
    return ">".join(reversed(parts)) or "ExprStmt"


def _ast_sites(rel):
    r = subprocess.run(["clang", "-fsyntax-only", "-Xclang", "-ast-dump=json"] + _flags(rel) + [str(vlib.REPO / rel)],
                       stdout=subprocess.PIPE, stderr=subprocess.PIPE, timeout=600)
    if r.returncode != 0:
        raise vlib.CheckFailure("C18 call-site enumeration: clang AST dump failed on %s: %s" % (rel, r.stderr.decode(errors="replace")[-1500:]))
    try:
        root = json.loads(r.stdout)
    except ValueError as e:
        raise vlib.CheckFailure("C18 call-site enumeration: AST of %s is not JSON (%s)" % (rel, e))
    found, callee_refs, nfuncs = [], set(), [0]
    state = {"line": None}
    counts = {}

    def visit(n, func, stack):
        k = n.get("kind")
        for l in (n.get("loc") or {}, (n.get("range") or {}).get("begin") or {}):
            tgt = l.get("expansionLoc") or l.get("spellingLoc") or l
            if "line" in tgt:
                state["line"] = tgt["line"]
        if k == "FunctionDecl":
            func = n.get("name")
            if any(isinstance(c, dict) and c.get("kind") == "CompoundStmt" for c in n.get("inner") or []):
                nfuncs[0] += 1
        if k == "CallExpr":
            name, ref = _callee_decl(n)
            if name in TARGETS:
                callee_refs.add(ref)
                o = counts.get((func, name), 0)
                counts[(func, name)] = o + 1
                found.append(Site(rel, func or "<file scope>", name, o, state["line"], _shape(stack, n)))
        if k == "DeclRefExpr" and (n.get("referencedDecl") or {}).get("name") in TARGETS and id(n) not in callee_refs \
                and (n.get("referencedDecl") or {}).get("kind") == "FunctionDecl":
            name = n["referencedDecl"]["name"]
            o = counts.get((func, name + "&"), 0)
            counts[(func, name + "&")] = o + 1
            found.append(Site(rel, func or "<file scope>", name, o, state["line"], _shape(stack), kind="address-taken"))
        stack.append(n)
        for c in n.get("inner") or []:
            if isinstance(c, dict):
                visit(c, func, stack)
        stack.pop()

    old = sys.getrecursionlimit()
    sys.setrecursionlimit(max(old, 20000))
    try:
        visit(root, None, [])
    finally:
        sys.setrecursionlimit(old)
    if nfuncs[0] == 0:
        raise vlib.CheckFailure("C18 call-site enumeration: AST of %s contains no function definition" % rel)
    return found


def enumerate_callsites(ctx):
    srcs = candidate_sources()
    with ThreadPoolExecutor(JOBS) as ex:
        mentions = list(ex.map(_preprocess_mentions, srcs))
    if len(mentions) != len(srcs):
        raise vlib.CheckFailure("C18 call-site enumeration: preprocess pass lost files")
    files = [s for s, m in zip(srcs, mentions) if m]
    for d in DEFINING:
        if d not in files:
            raise vlib.CheckFailure("C18 call-site enumeration: defining file %s does not mention its own function after preprocessing" % d)
    with ThreadPoolExecutor(JOBS) as ex:
        per_file = list(ex.map(_ast_sites, files))
    sites = [s for fs in per_file for s in fs]
    return sites, {"sources_scanned": len(srcs), "files_mentioning": files}
