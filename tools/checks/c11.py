"""
C11 — packing a directory is independent of the host's enumeration order.

Proof: Sqfs/Props/C11.lean over the model Sqfs/Model/FsTree.lean (native iterator with read_names/compare_names/qsort →
recursive iterator → hard-link filter → dir_tree_iterator → scan_directory → fstree_add_generic → fstree_post_process →
fstree_sort_files → order of pack_files).

Tie (every run, real code from the working tree):
  0. function level — harness/h_c11_unit.c compiles the real dir_unix.c into itself: compare_names on name pairs that share
     up to 254 bytes; the real native iterator on directories of 0..4097 (thorough 8193) entries served by the readdir shim in
     several orders; insert_sorted; fstree_sort_files; fstree_add_generic/fstree_post_process called directly (nesting limit,
     ERANGE/EINVAL, hard-link sets in several queue orders); a directory chain around SQFS_MAX_DIR_NESTING;
  1. harness level — harness/h_c11.c links the real scan path (ASan+UBSan) with harness/shim_readdir.c wrapped around readdir;
     generated directory trees (nested, files/symlinks/fifos/sockets/devices, multiply-linked files within and across
     directories, non-ASCII names; big directories of 129..600 (2000) entries whose names share long prefixes) are scanned under
     >= 8 readdir orders; tree + inode numbers + file list are compared with the model run on the logged orders, for `--pack-dir`
     and for pack files with `glob` lines;
  2. tool level — gensquashfs (plain under LD_PRELOAD=shim_readdir.so, and an ASan build with the shim linked in), incl. -S sort
     files and --xattr-file: sha256 of the image must be constant across orders; the image is read back with the real reader
     (harness/h_c11_dump.c) and its tree, inode numbers and data placement order are compared with the model.

The main model (`sorted=1`) is the code in /repo.  `sorted=0` (read_names without its qsort call: what a revert of /repo 7ff9210
would be) is consulted only to name a disagreement: an order dependence it predicts exactly and that involves a multiply-linked
file with hard-link detection on is reported as `D16:hardlink-primary` (recorded as fixed, hence a violation).

Fail-closed: every helper must answer one line per operation, never `bad-op`; the shim's log must show that it was in control;
every part has a floor on what it evaluated (CheckFailure otherwise).
"""
import json, os, shutil, socket, stat, subprocess, atexit, time
import vlib

LEVEL = "proof"
MODULE = "Sqfs.Props.C11"
REQUIRED = ["Sqfs.C11.insertSorted_perm", "Sqfs.C11.insertSorted_sorted", "Sqfs.C11.compare_names_total_order",
            "Sqfs.C11.read_names_sorted", "Sqfs.C11.read_names_perm", "Sqfs.C11.qsort_any_conforming",
            "Sqfs.C11.scan_perm_invariant", "Sqfs.C11.scan_perm_invariant_glob", "Sqfs.C11.pack_order_invariant", "Sqfs.C11.sort_files_perm_sorted_stable",
            "Sqfs.C11.numbering_deterministic", "Sqfs.C11.pack_dir_links_order_free", "Sqfs.C11.scan_tree_sorted", "Sqfs.C11.glob_tree_sorted",
            "Sqfs.C11.strcmpC_neg_iff_lt", "Sqfs.C11.compare_names_is_lex", "Sqfs.C11.read_names_sorted_lex"]
# not obligations of the property: the witness for the iterator without its qsort call (a revert of /repo 7ff9210), and the
# frozen record of the theorems about the code before that commit; both must keep building with allowed axioms only
RECORD_MODULES = ["Sqfs.Witness.C11", "Sqfs.Proofs.C11Pinned.Theorems"]
WITNESS_THEOREMS = ["Sqfs.Witness.C11.scan_order_dependent", "Sqfs.Witness.C11.nohardlinks_agree", "Sqfs.Witness.C11.repaired_agree",
                    "Sqfs.Witness.C11.nofile_filter_order_dependent", "Sqfs.Witness.C11.nofile_repaired_agree",
                    "Sqfs.C11Pinned.scan_perm_invariant_partial", "Sqfs.C11Pinned.scan_perm_invariant_glob_partial",
                    "Sqfs.C11Pinned.repair_conservative"]
D16_KEY = "D16:hardlink-primary"

F_NO_SOCK, F_NO_SLINK, F_NO_FILE, F_NO_BLK, F_NO_DIR, F_NO_CHR, F_NO_FIFO = 1, 2, 4, 8, 16, 32, 64
F_KEEP_TIME, F_KEEP_UID, F_KEEP_GID, F_KEEP_MODE = 0x100, 0x200, 0x400, 0x800
F_ONE_FS, F_NO_REC, F_NO_HL, F_FULL_PATH = 0x1000, 0x2000, 0x4000, 0x8000
DEFAULT_FLAGS = F_KEEP_UID | F_KEEP_GID | F_KEEP_MODE          # options.c: process_command_line


def tok(b):
    return b.hex() if b else "-"


TIMES = {"model": 0.0, "harness": 0.0, "tool": 0.0, "trees": 0.0}


def szip(*streams):
    """zip() that refuses streams of different length (a short helper output must never shorten a comparison)"""
    n = len(streams[0])
    if any(len(x) != n for x in streams):
        raise vlib.CheckFailure("internal: streams of unequal length %s" % [len(x) for x in streams])
    return zip(*streams)


def model(ctx, lines):
    """run the model driver on `lines`; exactly one answer per line, and never `bad-op`"""
    if not lines:
        raise vlib.CheckFailure("internal: empty script for the model driver")
    t0 = time.time()
    out = ctx.driver(["c11"], "\n".join(lines) + "\n")
    TIMES["model"] += time.time() - t0
    if len(out) != len(lines):
        raise vlib.CheckFailure("model driver answered %d lines for %d operations" % (len(out), len(lines)))
    for l, o in zip(lines, out):
        if o.startswith("bad-op"):
            raise vlib.CheckFailure("model driver rejected an operation the check generated: %s" % l[:300])
    return out


def otok(b):
    return "-" if b is None else "p:" + b.hex()


# ------------------------------------------------------------------------------------------------ tree generator
NAME_POOL = [b"a", b"b", b"c", b"A", b"B", b"ab", b"a.b", b"a-b", b"a b", b"aa", b"b.txt", b"c.txt", b"d.bin", b"0", b"00",
             b"Z", b"_", b"~", b"\xc3\xa4", b"\xff", b"\x80x", b"\x7f", b"lib", b"usr", b"bin", b"x.c", b"x.h", b"z.txt",
             b".hidden", b"...", b"..a", b"a..", b"-", b"--", b"*", b"?", b"a*", b"[x]"]


class Gen:
    """creates a directory tree on disk; everything else is derived from lstat afterwards"""

    def __init__(self, ctx, root, size):
        self.ctx, self.rng, self.root, self.size = ctx, ctx.rng, root, size
        self.files = []          # paths (bytes) of non-directories, creation order
        self.dirs = [root]
        self.count = 0
        self.mounts = []

    def name(self, used):
        r = self.rng
        for _ in range(50):
            if r.random() < 0.6:
                n = r.choice(NAME_POOL)
            else:
                n = bytes(r.choice(b"abcXYZ019._-\xe4\xc3\x80 ") for _ in range(r.randint(1, 12)))
            if n not in used and n not in (b".", b"..") and b"/" not in n and b"\0" not in n:
                used.add(n)
                return n
        n = b"n%d" % self.count
        used.add(n)
        return n

    def populate(self, d, depth, budget):
        r = self.rng
        used = set(os.listdir(d))          # never re-open an existing entry (opening an existing fifo would block)
        n_here = r.randint(0, min(budget, r.choice([2, 4, 8, 8, 16, 40])))
        for _ in range(n_here):
            if self.count >= self.size:
                return
            nm = self.name(used)
            p = d + b"/" + nm
            k = r.random()
            self.count += 1
            try:
                if k < 0.22 and depth < 5:
                    os.mkdir(p)
                    self.dirs.append(p)
                    self.populate(p, depth + 1, budget // 2 + 1)
                elif k < 0.62:
                    with os.fdopen(os.open(p, os.O_WRONLY | os.O_CREAT | os.O_EXCL, 0o644), "wb") as f:
                        f.write(b"%d:" % self.count + bytes(r.getrandbits(8) for _ in range(r.choice([0, 1, 10, 100, 5000]))))
                    self.files.append(p)
                elif k < 0.72:
                    os.symlink(r.choice([b"a", b"../x", b"/abs/path", b"t\xc3\xa4rget", b"a/b/c", nm]), p)
                    self.files.append(p)
                elif k < 0.78:
                    os.mkfifo(p)
                    self.files.append(p)
                elif k < 0.82:
                    os.mknod(p, r.choice([stat.S_IFCHR, stat.S_IFBLK]) | 0o640, os.makedev(r.randint(0, 300), r.randint(0, 300)))
                    self.files.append(p)
                elif k < 0.85 and len(p) < 100:
                    s = socket.socket(socket.AF_UNIX)
                    s.bind(p)
                    s.close()
                    self.files.append(p)
                elif self.files:
                    # another name for an existing non-directory (same or other directory)
                    src = r.choice(self.files[-12:] if r.random() < 0.7 else self.files)
                    os.link(src, p, follow_symlinks=False)
                    self.files.append(p)
                else:
                    with os.fdopen(os.open(p, os.O_WRONLY | os.O_CREAT | os.O_EXCL, 0o644), "wb") as f:
                        f.write(b"%d" % self.count)
                    self.files.append(p)
            except OSError:
                pass

    def attributes(self):
        r = self.rng
        for p in self.files + self.dirs[1:]:
            try:
                st = os.lstat(p)
                if not stat.S_ISLNK(st.st_mode) and r.random() < 0.5:
                    os.chmod(p, r.choice([0o644, 0o755, 0o600, 0o4755, 0o1777, 0o000, 0o7777, 0o444]))
                if r.random() < 0.4:
                    os.lchown(p, r.choice([0, 1, 1000, 65534, 70000]), r.choice([0, 5, 1000, 4000000000]))
            except OSError:
                pass
        for p in self.files + list(reversed(self.dirs)):
            t = r.choice([0, 1, 1000, 1234567890, 2 ** 31 - 1, 2 ** 32 - 1, 2 ** 32, 2 ** 33 + 5, -1, -100000, r.randint(0, 2 ** 31)])
            try:
                os.utime(p, ns=(t * 10 ** 9, t * 10 ** 9), follow_symlinks=False)
            except OSError:
                pass


def make_tree(ctx, idx, size, want_links=None, mount=False):
    root = (str(ctx.scratch / ("tree%d" % idx))).encode()
    os.mkdir(root)
    g = Gen(ctx, root, size)
    g.populate(root, 0, size)
    tries = 0
    while g.count < max(3, size // 2) and tries < 10:
        tries += 1
        g.populate(ctx.rng.choice(g.dirs), 1, size)      # name collisions with existing entries just fail (EEXIST, ignored)
    if want_links is True and g.files:
        # make sure at least one multiply linked file exists, with names that sort differently from creation order
        for _ in range(ctx.rng.randint(1, 3)):
            src = ctx.rng.choice(g.files)
            d = ctx.rng.choice(g.dirs)
            for nm in (b"0lnk", b"zlnk", b"Mlnk", b"\xfflnk"):
                p = d + b"/" + nm
                if not os.path.lexists(p):
                    try:
                        os.link(src, p, follow_symlinks=False)
                        g.files.append(p)
                    except OSError:
                        pass
                    break
    if want_links is True:
        # multiply-linked NON-regular files (the hard-link filter unifies every non-directory): symlinks linked with
        # link(2) (`ln -P`), fifos, device nodes, sockets; names inside one directory and across directories, chosen so
        # that strcmp order, creation order and DFS order disagree
        r = ctx.rng
        for _ in range(r.randint(0, 3)):
            kind = r.choice(["l", "l", "p", "c", "b", "s"])
            d0 = r.choice(g.dirs)
            first = d0 + b"/" + r.choice([b"m", b"k", b"sp", b"Q"]) + kind.encode() + b"%d" % r.randint(0, 9)
            if os.path.lexists(first) or len(first) > 100:
                continue
            try:
                if kind == "l":
                    os.symlink(r.choice([b"/etc/passwd", b"x", b"../y"]), first)
                elif kind == "p":
                    os.mkfifo(first)
                elif kind == "s":
                    sk = socket.socket(socket.AF_UNIX); sk.bind(first); sk.close()
                else:
                    os.mknod(first, (stat.S_IFCHR if kind == "c" else stat.S_IFBLK) | 0o600, os.makedev(r.randint(1, 200), r.randint(0, 200)))
                g.files.append(first)
                for _ in range(r.randint(1, 3)):
                    d1 = d0 if r.random() < 0.5 else r.choice(g.dirs)
                    nm = r.choice([b"0", b"A", b"a", b"z", b"~", b"\xff", b"c", b"t"]) + kind.encode() + b"%d" % r.randint(0, 99)
                    if not os.path.lexists(d1 + b"/" + nm):
                        os.link(first, d1 + b"/" + nm, follow_symlinks=False)
                        g.files.append(d1 + b"/" + nm)
            except OSError:
                pass
    if mount and len(g.dirs) > 1:
        mp = ctx.rng.choice(g.dirs[1:])
        if do_mount(ctx, mp):
            g.mounts.append(mp)
            for nm in (b"inside", b"z"):
                with open(mp + b"/" + nm, "wb") as f:
                    f.write(b"on the other file system " + nm)
            os.mkdir(mp + b"/sub")
            with open(mp + b"/sub/deep", "wb") as f:
                f.write(b"deep")
    g.attributes()
    return g


def tree_spec(root):
    """everything needed to rebuild the tree (shape, types, attributes, link groups, mount points; file content only by size)"""
    out = []
    rootdev = os.lstat(root).st_dev
    for dp, dn, fn in os.walk(root):
        dn.sort()
        pdev = os.lstat(dp).st_dev
        for x in sorted(dn + fn):
            p = dp + b"/" + x
            st = os.lstat(p)
            e = {"p": p[len(root) + 1:].hex(), "mode": st.st_mode, "uid": st.st_uid, "gid": st.st_gid, "mtime": st.st_mtime_ns // 10 ** 9,
                 "rdev": st.st_rdev, "size": st.st_size, "grp": "%d:%d" % (st.st_dev, st.st_ino)}
            if stat.S_ISLNK(st.st_mode):
                e["tgt"] = os.readlink(p).hex()
            if stat.S_ISDIR(st.st_mode) and st.st_dev != pdev:
                e["mount"] = True
            out.append(e)
    return out


class Rebuilt:
    pass


def rebuild_tree(ctx, spec, name):
    root = (str(ctx.scratch / name)).encode()
    os.mkdir(root)
    t = Rebuilt()
    t.root, t.dirs, t.files, t.mounts = root, [root], [], []
    groups = {}
    for i, e in enumerate(spec):
        p = root + b"/" + bytes.fromhex(e["p"])
        m = e["mode"]
        if stat.S_ISDIR(m):
            os.mkdir(p)
            t.dirs.append(p)
            if e.get("mount") and do_mount(ctx, p):
                t.mounts.append(p)
            continue
        if e["grp"] in groups:
            os.link(groups[e["grp"]], p, follow_symlinks=False)
        elif stat.S_ISREG(m):
            with open(p, "wb") as f:
                f.write((b"%d:" % i + b"x" * e["size"])[:e["size"]])
        elif stat.S_ISLNK(m):
            os.symlink(bytes.fromhex(e.get("tgt", "")), p)
        elif stat.S_ISFIFO(m):
            os.mkfifo(p)
        elif stat.S_ISSOCK(m):
            sk = socket.socket(socket.AF_UNIX)
            sk.bind(p)
            sk.close()
        else:
            os.mknod(p, m, e["rdev"])
        groups.setdefault(e["grp"], p)
        t.files.append(p)
    for e in reversed(spec):
        p = root + b"/" + bytes.fromhex(e["p"])
        if not stat.S_ISLNK(e["mode"]):
            os.chmod(p, e["mode"] & 0o7777)
        os.lchown(p, e["uid"], e["gid"])
    for e in reversed(spec):
        p = root + b"/" + bytes.fromhex(e["p"])
        os.utime(p, ns=(e["mtime"] * 10 ** 9, e["mtime"] * 10 ** 9), follow_symlinks=False)
    return t


_MOUNTS = []


def do_mount(ctx, path):
    r = vlib.sh(["mount", "-t", "tmpfs", "-o", "size=1m", "verif_c11", path.decode("utf-8", "surrogateescape")])
    if r.returncode != 0:
        return False
    _MOUNTS.append(path)
    return True


def umount_all():
    while _MOUNTS:
        p = _MOUNTS.pop()
        vlib.sh(["umount", "-l", p.decode("utf-8", "surrogateescape")])


# ------------------------------------------------------------------------------------------------ host forest → model tokens
def lst(p):
    st = os.lstat(p)
    return st


def forest_tokens(dirpath, orders, stats_out):
    """tokens for the children of `dirpath` in the order the shim served them (fallback: sorted)"""
    st = os.lstat(dirpath)
    names = orders.get((st.st_dev, st.st_ino))
    real = sorted(os.listdir(dirpath))
    if names is None:
        names = [b".", b".."] + real
        stats_out["dirs_not_read"] = stats_out.get("dirs_not_read", 0) + 1
    out = [str(len(names))]
    for nm in names:
        p = dirpath + b"/" + nm
        s = os.lstat(p)
        tgt = os.readlink(p) if stat.S_ISLNK(s.st_mode) else b""
        out += [tok(nm), str(s.st_mode), str(s.st_uid), str(s.st_gid), str(s.st_mtime_ns // 10 ** 9), str(s.st_dev), str(s.st_ino),
                str(s.st_rdev), tok(tgt)]
        if stat.S_ISDIR(s.st_mode) and nm not in (b".", b".."):
            out += forest_tokens(p, orders, stats_out)
        else:
            out.append("0")
    return out


def parse_log(log):
    orders = {}
    for l in log.split(";"):
        f = l.split()
        if len(f) >= 4 and f[0] == "R":
            orders[(int(f[1]), int(f[2]))] = [bytes.fromhex(x) for x in f[4:]]
    return orders


def tree_facts(root):
    """(has multiply-linked non-directory inside the tree, number of entries, max dir size, depth,
    kinds of multiply-linked non-regular files)"""
    seen, multi, n, maxdir, depth, nonreg = {}, False, 0, 0, 0, set()
    for dp, dn, fn in os.walk(root):
        maxdir = max(maxdir, len(dn) + len(fn))
        depth = max(depth, dp.count(b"/") - root.count(b"/"))
        for x in fn + [d for d in dn if os.path.islink(dp + b"/" + d)]:
            s = os.lstat(dp + b"/" + x)
            n += 1
            k = (s.st_dev, s.st_ino)
            if k in seen:
                multi = True
                if not stat.S_ISREG(s.st_mode):
                    nonreg.add({stat.S_IFLNK: "l", stat.S_IFIFO: "p", stat.S_IFSOCK: "s", stat.S_IFBLK: "b", stat.S_IFCHR: "c"}.get(stat.S_IFMT(s.st_mode), "?"))
            seen[k] = 1
        n += len(dn)
    return multi, n, maxdir, depth, sorted(nonreg)


# ------------------------------------------------------------------------------------------------ cases
class Case:
    """one scan configuration of one tree"""

    def __init__(self, kind, tree, d, flags, defs, packfile_lines=None, glob=None, pre=None):
        self.kind, self.tree, self.d, self.flags, self.defs = kind, tree, d, flags, defs
        self.packfile_lines, self.glob, self.pre = packfile_lines, glob, pre or []

    def describe(self):
        hx = lambda v: ("hex:" + v.hex()) if isinstance(v, bytes) else v
        return {"kind": self.kind, "flags": self.flags, "defaults": self.d, "defs": self.defs,
                "glob": self.glob and {k: hx(v) for k, v in self.glob.items()},
                "pre": [[hx(x) for x in e] for e in self.pre],
                "packfile": [l.decode("latin1") for l in (self.packfile_lines or [])],
                "sort_text": getattr(self, "sort_text", None), "xattr_text": getattr(self, "xattr_text", None),
                "sort_rules": [[a, b, c, d, "hex:" + e.hex()] for (a, b, c, d, e) in getattr(self, "sort_rules", None) or []] or None,
                "tree_spec": tree_spec(self.tree.root)}

    @staticmethod
    def from_description(ctx, desc, tree, idx):
        un = lambda v: bytes.fromhex(v[4:]) if isinstance(v, str) and v.startswith("hex:") else v
        glob = desc.get("glob") and {k: un(v) for k, v in desc["glob"].items()}
        pre = [tuple(un(x) for x in e) for e in desc.get("pre", [])]
        lines = [l.encode("latin1") for l in desc.get("packfile", [])]
        c = Case(desc["kind"], tree, desc["defaults"], desc["flags"], desc["defs"], packfile_lines=lines or None, glob=glob, pre=pre)
        if desc.get("sort_rules"):
            c.sort_rules = [(a, b, c_, d, un(e)) for (a, b, c_, d, e) in desc["sort_rules"]]
            c.sort_text = desc.get("sort_text")
        if desc.get("xattr_text"):
            c.xattr_text = desc["xattr_text"]
        if desc["kind"] == "packfile":
            c.packfile_path = (str(ctx.scratch / ("replay_pack%d.txt" % idx))).encode()
            with open(c.packfile_path, "wb") as f:
                f.write(b"\n".join(lines) + b"\n")
        return c


def harness_line(case, order, ctx):
    d = case.d
    if case.kind == "packdir":
        return "packdir %s %s %d %d %d %d %d %d %d %d" % (order, tok(case.tree.root), d["uid"], d["gid"], d["mtime"], d["mode"],
                                                           case.flags, case.defs["uid"], case.defs["gid"], case.defs["mtime"])
    return "packfile %s %s %s %d %d %d %d %d %d %d" % (order, tok(case.packfile_path), tok(case.tree.root), d["uid"], d["gid"],
                                                      d["mtime"], d["mode"], case.flags, case.defs["uid"], case.defs["gid"])


def model_line(case, sorted_flag, orders, stats_out):
    d = case.d
    head = "run %d %d %d %d %d" % (sorted_flag, d["uid"], d["gid"], d["mtime"], d["mode"])
    if case.kind == "packdir":
        rootdev = os.stat(case.tree.root).st_dev
        step = ["G", "-", str(case.flags), str(case.defs["uid"]), str(case.defs["gid"]), "0", str(case.defs["mtime"]), "-", "-",
                str(rootdev)] + forest_tokens(case.tree.root, orders, stats_out)
        return head + " 1 " + " ".join(step)
    steps = []
    for (path, mode, uid, gid, extra) in case.pre:
        steps.append(["A", tok(path), str(mode), str(uid), str(gid), str(d["mtime"]), "0", otok(extra)])
    g = case.glob
    base = case.tree.root + (b"/" + g["subdir"] if g["subdir"] else b"")
    rootdev = os.stat(base).st_dev
    steps.append(["G", tok(g["target"]), str(g["flags"]), str(g["uid"]), str(g["gid"]), str(g["mode"]), str(d["mtime"]),
                  otok(g["subdir"] if g["subdir"] else None), otok(g["pattern"]), str(rootdev)] + forest_tokens(base, orders, stats_out))
    return head + " %d " % len(steps) + " ".join(" ".join(s) for s in steps)


def gen_packdir_case(ctx, tree):
    r = ctx.rng
    flags = DEFAULT_FLAGS
    if r.random() < 0.35:
        flags |= F_NO_HL
    if r.random() < 0.4:
        flags |= F_KEEP_TIME
    if r.random() < 0.3 or tree.mounts:
        flags |= F_ONE_FS
    if r.random() < 0.15:
        flags &= ~F_KEEP_UID
    if r.random() < 0.15:
        flags &= ~F_KEEP_GID
    if r.random() < 0.3:
        # dir_tree_iterator_create() is called directly by the harness: also the flags no gensquashfs option sets
        flags |= r.randint(0, 127) & (F_NO_BLK | F_NO_CHR | F_NO_FIFO | F_NO_FILE | F_NO_SLINK | F_NO_SOCK | (F_NO_DIR if r.random() < 0.2 else 0))
        if r.random() < 0.15:
            flags |= F_NO_REC
        if r.random() < 0.2:
            flags &= ~F_KEEP_MODE
    mt = r.choice([0, 1, 1700000000, 2 ** 32 - 1])
    d = {"uid": r.choice([0, 1000]), "gid": r.choice([0, 100]), "mtime": mt, "mode": r.choice([0o755, 0o700, 0o7777])}
    defs = {"uid": r.choice([0, 42]), "gid": r.choice([0, 23]), "mtime": mt}
    return Case("packdir", tree, d, flags, defs)


TYPE_HIST = {}


def gen_glob_case(ctx, tree, idx, multi=False, tool=False, nofile=None):
    """pack file: a few explicit entries, then one glob line"""
    r = ctx.rng
    d = {"uid": r.choice([0, 1000]), "gid": r.choice([0, 100]), "mtime": r.choice([0, 1700000000]), "mode": r.choice([0o755, 0o700])}
    dirscan = DEFAULT_FLAGS
    if r.random() < 0.3 and not tool:
        dirscan |= F_NO_HL          # -H on the command line does not reach glob lines (glob_flags start at 0): kept for the record
    target = r.choice([b"", b"", b"usr", b"usr/lib", b"a/b/c", b"x"])
    if nofile is not None:
        target = b""             # (a non-root target fails on any link group whatever the order, see below)
    lines, pre = [], []
    # explicit entries before the glob (some collide with scanned names on purpose, some create implicit parents)
    if r.random() < 0.6:
        pool = [b"pre", b"a", b"zz", b"lib", b"usr", b"0", b"q", b"M"]
        r.shuffle(pool)
        for _ in range(r.randint(1, 3)):
            kind = r.choice(["dir", "slink", "pipe"] if tool else ["dir", "file", "slink", "pipe", "deep"])
            nm = pool.pop() if r.random() < 0.9 else r.choice([b"a", b"usr"])
            path = (target + b"/" if target and r.random() < 0.5 else b"") + nm
            if kind == "dir":
                lines.append(b"dir \"%s\" 0711 7 8" % path)
                pre.append((path, 0o40711, 7, 8, None))
            elif kind == "file":
                lines.append(b"file \"%s\" 0600 7 8 some/input" % path)
                pre.append((path, 0o100600, 7, 8, b"some/input"))
            elif kind == "slink":
                lines.append(b"slink \"%s\" 0777 7 8 tgt" % path)
                pre.append((path, 0o120777, 7, 8, b"tgt"))
            elif kind == "pipe":
                lines.append(b"pipe \"%s\" 0600 7 8" % path)
                pre.append((path, 0o10600, 7, 8, None))
            else:
                path = path + b"/implicit/leaf"
                lines.append(b"file \"%s\" 0600 7 8 in" % path)
                pre.append((path, 0o100600, 7, 8, b"in"))
    gflags = 0
    mode_s, uid_s, gid_s = b"0750", b"3", b"4"
    mode, uid, gid = 0o750, 3, 4
    if r.random() < 0.5:
        mode_s, gflags = b"*", gflags | F_KEEP_MODE
        mode = 0
    if r.random() < 0.5:
        uid_s, gflags = b"*", gflags | (dirscan & F_KEEP_UID)
        uid = 0
    if r.random() < 0.5:
        gid_s, gflags = b"*", gflags | (dirscan & F_KEEP_GID)
        gid = 0
    opts = []
    if r.random() < 0.3:
        opts.append(b"-xdev"); gflags |= F_ONE_FS
    if r.random() < 0.3:
        opts.append(b"-keeptime"); gflags |= F_KEEP_TIME
    if r.random() < (0.15 if nofile is None else 0.05):
        opts.append(b"-nonrecursive"); gflags |= F_NO_REC
    # a non-root target + a multiply-linked file fails in the pinned code whatever the order (the hard-link filter records
    # the link target without cfg.prefix: "Resolving hard link '/x/a' -> 'c'"); keep most such cases meaningful with -nohardlinks
    if r.random() < ((0.8 if (target and multi) else 0.3) if nofile is None else 0.15):
        opts.append(r.choice([b"-nohardlinks"])); gflags |= F_NO_HL
    TYPES = [b"f", b"d", b"l", b"p", b"s", b"b", b"c"]
    chosen = None
    if nofile is not None:
        # directed: a -type filter WITHOUT regular files over a tree with multiply-linked symlinks/fifos/devices/sockets:
        # hard links are still detected among the kinds that remain (and a linked name always arrives as S_IFLNK)
        chosen = [t for t in TYPES[1:] if r.random() < 0.4]
        for k in nofile:
            if k.encode() in TYPES and r.random() < 0.8 and k.encode() not in chosen:
                chosen.append(k.encode())
        if r.random() < 0.8 and b"d" not in chosen:
            chosen.append(b"d")
        if r.random() < 0.7 and b"l" not in chosen:
            chosen.append(b"l")
        if not chosen:
            chosen = [b"d", b"l"]
        r.shuffle(chosen)
    elif r.random() < 0.5:
        mask = r.randint(1, 127)                     # every non-empty subset of the seven -type letters is drawn
        chosen = [t for i, t in enumerate(TYPES) if mask >> i & 1]
        r.shuffle(chosen)
    TYPE_HIST["".join(sorted(t.decode() for t in chosen)) if chosen is not None else "(no -type)"] = \
        TYPE_HIST.get("".join(sorted(t.decode() for t in chosen)) if chosen is not None else "(no -type)", 0) + 1
    if chosen is not None:
        gflags |= F_NO_BLK | F_NO_CHR | F_NO_DIR | F_NO_FIFO | F_NO_FILE | F_NO_SLINK | F_NO_SOCK
        for t in chosen:
            t = t if r.random() < 0.8 else t.upper()
            opts += [b"-type", t]
            gflags &= ~{b"f": F_NO_FILE, b"d": F_NO_DIR, b"l": F_NO_SLINK, b"p": F_NO_FIFO, b"s": F_NO_SOCK, b"b": F_NO_BLK, b"c": F_NO_CHR}[t.lower()]
    pattern = None
    if r.random() < (0.35 if nofile is None else 0.15):
        if r.random() < 0.6:
            pattern = r.choice([b"*.txt", b"a*", b"?", b"*", b"*b*", b"lib", b"??*"])
            opts += [b"-name", b"\"" + pattern + b"\""]
        else:
            pattern = (target + b"/" if target else b"") + r.choice([b"*", b"*/*", b"a*/*", b"*/*.txt", b"usr*"])
            opts += [b"-path", b"\"" + pattern + b"\""]
            gflags |= F_FULL_PATH
    subdir = None
    subs = [p[len(tree.root) + 1:] for p in tree.dirs[1:] if b" " not in p and b"\"" not in p and b"\\" not in p and os.path.isdir(p)]
    if subs and r.random() < 0.4:
        subdir = r.choice(subs)
    line = b"glob \"/%s\" %s %s %s %s" % (target, mode_s, uid_s, gid_s, b" ".join(opts))
    if subdir is not None:
        line += b" -- \"" + subdir + b"\""
    lines.append(line)
    c = Case("packfile", tree, d, dirscan, {"uid": 0, "gid": 0, "mtime": d["mtime"]}, packfile_lines=lines,
             glob={"target": target, "flags": gflags, "uid": uid, "gid": gid, "mode": mode, "subdir": subdir, "pattern": pattern}, pre=pre)
    c.packfile_path = (str(ctx.scratch / ("pack%d.txt" % idx))).encode()
    with open(c.packfile_path, "wb") as f:
        f.write(b"\n".join(lines) + b"\n")
    return c


def orders_for(ctx, n):
    kinds = ["seed", "seed", "seed", "swaps", "rot", "seed"]
    out = ["sorted", "reverse"] + ["%s:%d" % (kinds[i % len(kinds)], ctx.rng.randint(1, 10 ** 9)) for i in range(n - 2)]
    if n >= 6:
        out[-1] = "halves"
    return out


# ------------------------------------------------------------------------------------------------ evaluation of one case
SHIM = {"dirs_logged": 0, "dirs_permuted": 0, "dirs_not_read": 0, "root_not_read": 0, "cases_all_read_required": 0}


def shim_account(case_root, lo, order, ok):
    """the readdir shim must really have been in control: the directory being scanned is in its log, and what it logged
    is the permutation that was asked for (for `sorted`: sorted; otherwise counted when it differs from sorted)"""
    st = os.lstat(case_root)
    names = lo.get((st.st_dev, st.st_ino))
    if names is None:
        if ok:
            SHIM["root_not_read"] += 1
        return
    for k, v in lo.items():
        SHIM["dirs_logged"] += 1
        if v != sorted(v):
            SHIM["dirs_permuted"] += 1
            if order == "sorted":
                raise vlib.CheckFailure("readdir shim: order `sorted` requested but %r was served" % [x[:20] for x in v[:6]])
        if b"." not in v or b".." not in v:
            raise vlib.CheckFailure("readdir shim: logged enumeration lacks . or ..")


def scan_root(case):
    if case.kind == "packdir" or not case.glob.get("subdir"):
        return case.tree.root
    return case.tree.root + b"/" + case.glob["subdir"]


def plain_case(case):
    """a scan that must read every directory of the tree (nothing filtered, nothing skipped)"""
    return case.kind == "packdir" and not case.tree.mounts and (case.flags & ~(F_KEEP_TIME | F_NO_HL)) == DEFAULT_FLAGS


def run_case(ctx, harness, case, orders):
    """returns list of (order, impl_dump, log_orders, model_sorted, model_unsorted, aborted)"""
    text = "\n".join(harness_line(case, o, ctx) for o in orders) + "\n"
    t0 = time.time()
    try:
        r = vlib.sh([str(harness)], input=text, env=ctx.san_env(), timeout=900)
    except subprocess.TimeoutExpired:
        return None, ("timeout", "real scan path did not finish within 900 s", 0)
    TIMES["harness"] += time.time() - t0
    out = r.stdout.splitlines()
    res = []
    if r.returncode != 0 or len(out) != len(orders):
        return None, (r.returncode, r.stderr[-3000:], len(out))
    mlines = []
    for o, line in szip(orders, out):
        if line.startswith("bad-op") or " @@ " not in line:
            raise vlib.CheckFailure("harness h_c11 rejected an operation the check generated: %s -> %s" % (harness_line(case, o, ctx)[:200], line[:100]))
        dump, _, log = line.partition(" @@ ")
        lo = parse_log(log)
        stats = {}
        mlines.append(model_line(case, 1, lo, stats))
        shim_account(scan_root(case), lo, o, dump.startswith("ok"))
        SHIM["dirs_not_read"] += stats.get("dirs_not_read", 0)
        if plain_case(case) and dump.startswith("ok"):
            SHIM["cases_all_read_required"] += 1
            if stats.get("dirs_not_read", 0):
                raise vlib.CheckFailure("readdir shim not in effect: %d directories of %s were scanned without going through "
                                        "readdir (order %s)" % (stats["dirs_not_read"], case.tree.root, o))
        res.append([o, dump, lo])
    m = model(ctx, mlines)
    for i, x in enumerate(res):
        x += [m[i], None]
    return res, None


def need_unsorted(ctx, case, res):
    """the model of the iterator WITHOUT its qsort call (what a revert of /repo 7ff9210 would be) is only consulted to name a
    disagreement, so it is only run when there is one"""
    if res and res[0][4] is None:
        m = model(ctx, [model_line(case, 0, x[2], {}) for x in res])
        for x, mo in szip(res, m):
            x[4] = mo


def child_lists(dump):
    """child name sequences of every directory of an implementation dump (harness format), as driver lines"""
    pm = parse_model_dump(dump)
    if pm is None:
        return []
    kids = {}
    for n in pm[0]:
        if n["path"] == "-":
            continue
        b = bytes.fromhex(n["path"])
        parent, _, name = b.rpartition(b"/")
        kids.setdefault(parent, []).append(name)
    return ["mon-sorted " + " ".join(tok(x) for x in v) for v in kids.values() if len(v) > 1]


def monitor_sorted(ctx, case, res, counters):
    """specification clause evaluated on the implementation's behaviour: every directory the real code built is
    strictly sorted in strcmp order (Sqfs.FsTree.SortedNames), whatever order the entries arrived in"""
    lines = []
    for x in res:
        lines += child_lists(x[1])
    if not lines:
        return
    out = model(ctx, lines)
    counters["monitor_lists"] = counters.get("monitor_lists", 0) + len(lines)
    if any(o not in ("0", "1") for o in out):
        raise vlib.CheckFailure("mon-sorted answered something other than 0/1")
    bad = [l for l, o in szip(lines, out) if o != "1"]
    if bad and counters.get("monitor_bad", 0) < 3:
        counters["monitor_bad"] = counters.get("monitor_bad", 0) + 1
        ctx.violation("unsorted:%s" % vlib.sha(bad[0])[:10], "the real scan path built a directory whose children are not strictly sorted by strcmp: %s" % bad[0][:300],
                      {"case": case.describe(), "orders": [x[0] for x in res], "child_list": bad[0], "level": "monitor"})


def nontrivial(dump):
    return dump.startswith("ok") and dump.count(" N ") >= 4


def classify(ctx, case, res, facts, tag, counters):
    """the property's specification evaluated on the implementation's behaviour + correspondence with the models"""
    multi = facts[0]
    hl_on = not (case.flags & F_NO_HL) if case.kind == "packdir" else not (case.glob["flags"] & F_NO_HL)
    impl = [x[1] for x in res]
    spec_ok = all(d == impl[0] for d in impl)                 # the property, on the implementation
    main_ok = all(x[1] == x[3] for x in res)                  # implementation = model of the code in /repo
    counters["evaluations"] += len(res)
    if main_ok and spec_ok:
        return
    need_unsorted(ctx, case, res)
    wit_ok = all(x[1] == x[4] for x in res)                   # implementation = model of the iterator without its qsort
    replay = {"case": case.describe(), "tree_root_listing": listing(case.tree.root), "orders": [x[0] for x in res],
              "impl": [d[:6000] for d in impl[:4]], "model_sorted": [x[3][:6000] for x in res][:4],
              "model_unsorted": [x[4][:6000] for x in res][:4], "level": tag}
    if wit_ok and multi and hl_on and (not spec_ok or not main_ok):
        # the behaviour the witness theorem (Sqfs.Witness.C11) describes: which name of a link group becomes the
        # real file depends on the enumeration
        counters["d16"] += 1
        if counters["d16"] > 5 and ctx.known_finding(D16_KEY) is None:
            return
        ctx.violation(D16_KEY, "image depends on readdir order for multiply-linked files: the first name seen of a (dev, ino) group "
                      "becomes the real file (dir_hl.c), so inode numbers and data order follow the enumeration", replay)
        return
    counters["harness_other"] += 1
    if counters["harness_other"] > 5:
        return
    if not spec_ok:
        a = next(i for i, d in enumerate(impl) if d != impl[0])
        replay["differing_orders"] = [res[0][0], res[a][0]]
        ctx.violation("order:%s:%s" % (tag, vlib.sha(json.dumps(replay, sort_keys=True))[:10]),
                      "scan result depends on the readdir order (orders %s vs %s) in a way the hard-link witness does not explain"
                      % (res[0][0], res[a][0]), replay)
        return
    counters["mismatch"] += 1
    ctx.violation("corr:%s:%s" % (tag, vlib.sha(json.dumps(replay, sort_keys=True))[:10]),
                  "model and real scan path disagree although the result is the same for all orders tried "
                  "(correspondence broke: the theorems no longer speak about this code)", replay, found_input=False)


def listing(root):
    out = []
    for dp, dn, fn in os.walk(root):
        for x in sorted(dn + fn):
            p = dp + b"/" + x
            s = os.lstat(p)
            out.append("%s mode=%o ino=%d dev=%d nlink=%d" % (p[len(root):].decode("latin1"), s.st_mode, s.st_ino, s.st_dev, s.st_nlink))
    return out[:400]


def witness_gate(ctx):
    """the witness (Sqfs/Witness/C11.lean) and the frozen theorems about the pre-7ff9210 code (Sqfs/Proofs/C11Pinned/) are
    part of the record: they must build and use no disallowed axiom; they are not obligations of the property"""
    import re
    okb, log = ctx.lean_build(RECORD_MODULES)
    problems = []
    if not okb:
        problems.append("lake build %s failed: %s" % (RECORD_MODULES, log[-1500:]))
    else:
        af = ctx.scratch / "Audit_C11_witness.lean"
        af.write_text("".join("import %s\n" % m for m in RECORD_MODULES) + "".join("#print axioms %s\n" % n for n in WITNESS_THEOREMS))
        r = vlib.sh(["lake", "env", "lean", str(af)], cwd=str(vlib.LEAN))
        text = " ".join((r.stdout + r.stderr).split())
        if r.returncode != 0:
            problems.append("witness audit failed: " + text[-1500:])
        for n in WITNESS_THEOREMS:
            m = re.search(r"'%s' depends on axioms: \[([^\]]*)\]" % re.escape(n), text)
            ax = [a.strip() for a in m.group(1).split(",")] if m else []
            if not m and not re.search(r"'%s' does not depend on any axioms" % re.escape(n), text):
                problems.append("no axiom report for %s" % n)
            bad = [a for a in ax if a and a not in vlib.ALLOWED_AXIOMS]
            if bad:
                problems.append("%s depends on %s" % (n, bad))
    ctx.cov["record_not_claimed"] = {"modules": RECORD_MODULES, "theorems": WITNESS_THEOREMS, "ok": not problems}
    if problems:
        ctx.violation("proof:C11-witness", "witness / frozen record of C11 no longer checks: " + " | ".join(problems)[:1200],
                      {"broken": problems}, found_input=False)


def build_harness(ctx):
    lib = ctx.build_lib("san")
    gs = str(vlib.REPO / "bin/gensquashfs/src")
    return ctx.cc("h_c11", ["h_c11.c", "shim_readdir.c", "bin/gensquashfs/src/glob.c", "bin/gensquashfs/src/fstree_from_file.c",
                            "bin/gensquashfs/src/sort_by_file.c"],
                  flags=["-DSHIM_WRAP", "-I" + gs],
                  libs=[str(lib)] + vlib.CODEC_LIBS + ["-Wl,--wrap=readdir,--wrap=readdir64,--wrap=closedir"])


# ------------------------------------------------------------------------------------------------ tool level
SQFS_TYPE = {stat.S_IFDIR: (1, 8), stat.S_IFREG: (2, 9), stat.S_IFLNK: (3, 10), stat.S_IFBLK: (4, 11), stat.S_IFCHR: (5, 12),
             stat.S_IFIFO: (6, 13), stat.S_IFSOCK: (7, 14)}
BLK = 4096


def build_tools(ctx):
    gen = ctx.build_tool("gensquashfs", sanitize=False, tag="plain")
    shim = ctx.scratch / "shim_readdir.so"
    r = vlib.sh(["gcc", "-shared", "-fPIC", "-O1", "-w", str(vlib.HARNESS / "shim_readdir.c"), "-o", str(shim), "-ldl"])
    if r.returncode != 0:
        raise vlib.CheckFailure("cannot build shim_readdir.so: " + r.stderr[-1000:])
    lib = ctx.build_lib("san")
    dump = ctx.cc("h_c11_dump", ["h_c11_dump.c"], libs=[str(lib)] + vlib.CODEC_LIBS)
    shim_o = ctx.scratch / "shim_wrap.o"
    r = vlib.sh(["gcc", "-c", "-O1", "-w", "-DSHIM_WRAP", "-DSHIM_LOG_FILE"] + vlib.SAN + [str(vlib.HARNESS / "shim_readdir.c"), "-o", str(shim_o)])
    if r.returncode != 0:
        raise vlib.CheckFailure("cannot build shim object: " + r.stderr[-1000:])
    gen_san = ctx.build_tool("gensquashfs", tag="san", extra_objs=[str(shim_o)],
                             ldflags=["-Wl,--wrap=readdir,--wrap=readdir64,--wrap=closedir"])
    # /repo's default configuration (pool allocator: mempool.c compiled, NO_CUSTOM_ALLOC not defined) for a share of the tool cases
    t0 = time.time()
    gen_pool = ctx.build_tool("gensquashfs", sanitize=False, tag="plainpool", custom_alloc=True)
    return {"gen": gen, "shim": shim, "dump": dump, "gen_san": gen_san, "gen_pool": gen_pool, "pool_build_seconds": round(time.time() - t0, 1)}


def parse_model_dump(dump):
    toks = dump.split()
    if not toks or toks[0] != "ok":
        return None
    nodes, i = [], 2
    while i < len(toks) and toks[i] == "N":
        f = toks[i + 1:i + 12]
        nodes.append({"path": f[0], "mode": int(f[1], 8), "uid": int(f[2]), "gid": int(f[3]), "mtime": int(f[4]), "nlink": int(f[5]),
                      "hard": f[7] == "1", "rdev": int(f[8]), "extra": f[9], "inum": int(f[10])})
        i += 12
    files = toks[i + 1:] if i < len(toks) and toks[i] == "F" else []
    return nodes, files


def placement(order, sizes, place):
    """data placement must follow the file list: walking the files in list order, each file's data lies behind everything
    written before, or exactly where an earlier file's data lies (deduplicated identical content)"""
    for what, key, sel in (("blocks", lambda p: p[0], lambda sz: sz >= BLK), ("fragments", lambda p: (p[1], p[2]), lambda sz: sz % BLK != 0)):
        seen, top = set(), None
        for i in order:
            if i not in place or not sel(sizes.get(i, 0)):
                continue
            k = key(place[i])
            if k in seen:
                continue
            if top is not None and k < top:
                return "%s of inode %d at %s lie before data written earlier (%s); file list %s" % (what, i, k, top, order)
            seen.add(k)
            top = k
    return "ok"


def rule_tokens(rules):
    out = [str(len(rules))]
    for (prio, flags, do_glob, path_glob, pat) in rules:
        out += [str(prio), str(flags), "1" if do_glob else "0", "1" if path_glob else "0", tok(pat)]
    return out


def model_sortfiles(ctx, rules, files_hex):
    """`fstree_sort_files` of the model on a file list (hex paths): [(hex path, flags)]"""
    line = "sortfiles " + " ".join(rule_tokens(rules) + [str(len(files_hex))] + files_hex)
    out = model(ctx, [line])[0].split()
    if not out or out[0] != "ok" or len(out) != len(files_hex) + 1:
        raise vlib.CheckFailure("model sortfiles: unexpected answer %s" % " ".join(out)[:200])
    return [(x.rsplit(":", 1)[0], int(x.rsplit(":", 1)[1])) for x in out[1:]]


def model_canon(ctx, dump, sizes, place, rules=None):
    """what the image must contain according to a model dump; `sizes`/`place`: inode number -> file size / data location
    (from the image); `rules`: the parsed sort file (gensquashfs -S), applied to the model's file list"""
    pm = parse_model_dump(dump)
    if pm is None:
        return "err"
    nodes, files = pm
    if rules is not None and files:
        files = [f for f, _ in model_sortfiles(ctx, rules, files)]
    by_path = {n["path"]: n for n in nodes}
    out = []
    for n in nodes:
        t = n
        if n["hard"]:
            tgt = n["extra"].split(":")[2]
            t = by_path.get(tgt)
            if t is None:
                return "unresolved-link"
        ty = t["mode"] & 0o170000
        x = "-"
        if ty == stat.S_IFLNK:
            x = t["extra"]
        elif ty in (stat.S_IFBLK, stat.S_IFCHR):
            x = "d:%d" % (t["rdev"] & 0xFFFFFFFF)
        out.append("%s %d %s %o %d %d %d %d %s" % (n["path"], t["inum"], "%d" % SQFS_TYPE[ty][0], t["mode"] & 0o7777, t["uid"], t["gid"],
                                                   t["mtime"], t["nlink"], x))
    order = [by_path[f]["inum"] for f in files if f in by_path]
    return "\n".join(out) + "\nplacement " + placement(order, sizes, place)


def image_canon(text):
    """canonical form of h_c11_dump output; sizes and data locations by inode number"""
    out, sizes, place = [], {}, {}
    for l in text.splitlines():
        f = l.split()
        if not f or f[0] != "E":
            continue
        path, inum, ty, mode, uid, gid, mtime, nlink, x = f[1], int(f[2]), int(f[3]), int(f[4], 8), int(f[5]), int(f[6]), int(f[7]), int(f[8]), f[9]
        base = ty if ty <= 7 else ty - 7
        if x.startswith("f:"):
            _, size, start, fidx, foff = x.split(":")
            sizes[inum] = int(size)
            place[inum] = (int(start), int(fidx), int(foff))
            x = "-"
        out.append("%s %d %d %o %d %d %d %d %s" % (path, inum, base, mode & 0o7777, uid, gid, mtime, nlink, x))
    return "\n".join(out) + "\nplacement ok", sizes, place


def run_tool_case(ctx, tools, case, cmdline, orders, use_san, pool=False):
    """pack under each order; returns [order, image_canon, log_orders, model_sorted_canon, model_unsorted_canon, sha] or crash
    pool=True: the gensquashfs built in /repo's default configuration (pool allocator), same shim, same oracle"""
    assert not (pool and use_san)
    res, mlines, stats = [], [], {}
    img = ctx.scratch / "tool.sqfs"
    logf = ctx.scratch / "readdir.log"
    for o in orders:
        for f in (img, logf):
            if f.exists():
                f.unlink()
        env = dict(os.environ) if not use_san else ctx.san_env()
        env.update({"VERIF_READDIR_ORDER": o, "VERIF_READDIR_LOG": str(logf)})
        env.pop("SOURCE_DATE_EPOCH", None)
        if not use_san:
            env["LD_PRELOAD"] = str(tools["shim"])
        exe = tools["gen_san"] if use_san else tools["gen_pool"] if pool else tools["gen"]
        try:
            r = subprocess.run([str(exe)] + cmdline + [str(img)], env=env, stdout=subprocess.PIPE, stderr=subprocess.PIPE, timeout=300)
        except subprocess.TimeoutExpired:
            return None, ("timeout", "", o)
        if r.returncode not in (0, 1):
            return None, (r.returncode, r.stderr[-3000:].decode("latin1"), o)
        log = logf.read_text().replace("\n", ";") if logf.exists() else ""
        lo = parse_log(log)
        if r.returncode == 0 and img.exists():
            sha = vlib.sha(img.read_bytes())
            d = vlib.sh([str(tools["dump"]), str(img)], env=ctx.san_env(), timeout=120)
            if d.returncode != 0:
                return None, ("dump:%d" % d.returncode, d.stderr[-2000:], o)
            canon, sizes, place = image_canon(d.stdout)
        else:
            sha, canon, sizes, place = "failed", "err", {}, {}
        stats = {}
        mlines.append(model_line(case, 1, lo, stats))
        shim_account(scan_root(case), lo, o, sha != "failed")
        SHIM["dirs_not_read"] += stats.get("dirs_not_read", 0)
        if plain_case(case) and sha != "failed":
            SHIM["cases_all_read_required"] += 1
            if stats.get("dirs_not_read", 0):
                raise vlib.CheckFailure("readdir shim not in effect under gensquashfs: %d directories of %s were scanned without "
                                        "going through readdir (order %s)" % (stats["dirs_not_read"], case.tree.root, o))
        res.append([o, canon, lo, None, None, sha, sizes, place])
    m = model(ctx, mlines)
    rules = getattr(case, "sort_rules", None)
    for i, x in enumerate(res):
        x[3] = model_canon(ctx, m[i], x[6], x[7], rules)
    return res, None


def need_unsorted_tool(ctx, case, res):
    if res and res[0][4] is None:
        m = model(ctx, [model_line(case, 0, x[2], {}) for x in res])
        rules = getattr(case, "sort_rules", None)
        for x, mo in szip(res, m):
            x[4] = model_canon(ctx, mo, x[6], x[7], rules)


def classify_tool(ctx, case, cmdline, res, facts, counters):
    multi = facts[0]
    hl_on = not (case.flags & F_NO_HL) if case.kind == "packdir" else not (case.glob["flags"] & F_NO_HL)
    shas = [x[5] for x in res]
    spec_ok = all(s == shas[0] for s in shas)                  # the property itself: one image whatever the order
    main_ok = all(x[1] == x[3] for x in res)
    counters["evaluations"] += len(res)
    counters["tool_runs"] += len(res)
    if main_ok and spec_ok:
        return
    need_unsorted_tool(ctx, case, res)
    wit_ok = all(x[1] == x[4] for x in res)
    replay = {"case": case.describe(), "cmdline": cmdline, "tree_root_listing": listing(case.tree.root), "orders": [x[0] for x in res],
              "sha256": shas, "image": [x[1] for x in res][:3], "model_sorted": [x[3] for x in res][:3],
              "model_unsorted": [x[4] for x in res][:3], "level": "tool",
              "configuration": "pool" if getattr(case, "pool_configuration", False) else "malloc"}
    if wit_ok and multi and hl_on:
        counters["d16"] += 1
        if counters["d16"] > 5 and ctx.known_finding(D16_KEY) is None:
            return
        ctx.violation(D16_KEY, "gensquashfs: sha256 of the image depends on the readdir order for multiply-linked files", replay)
        return
    if not spec_ok:
        a = next(i for i, s in enumerate(shas) if s != shas[0])
        replay["differing_orders"] = [res[0][0], res[a][0]]
        if counters["other"] < 5:
            ctx.violation("order:tool:%s" % vlib.sha(json.dumps(replay, sort_keys=True))[:10],
                          "gensquashfs produced different images for readdir orders %s and %s (not explained by the hard-link witness)"
                          % (res[0][0], res[a][0]), replay)
        counters["other"] += 1
        return
    counters["mismatch"] += 1
    if counters["other"] < 5:
        ctx.violation("corr:tool:%s" % vlib.sha(json.dumps(replay, sort_keys=True))[:10],
                      "image read back from gensquashfs disagrees with the model (tree / inode numbers / data order) although all orders "
                      "gave the same image", replay, found_input=False)
    counters["other"] += 1


def make_big_tree(ctx, idx, n, maxlen=255):
    """one directory with n entries whose names share long prefixes, with hard-link groups inside it and across directories:
    what it takes to see a native iterator that sorts only part of a directory, or compares only part of a name"""
    r = ctx.rng
    root = (str(ctx.scratch / ("big%d" % idx))).encode()
    os.mkdir(root)
    g = Gen(ctx, root, 0)
    top = r.random() < 0.4
    big = root if top else root + b"/" + r.choice([b"big", b"m", b"\xffdir"])
    if not top:
        os.mkdir(big)
        g.dirs.append(big)
    other = root + b"/" + r.choice([b"0ther", b"zz"])
    os.mkdir(other)
    g.dirs.append(other)
    names = long_names(r, n, maxlen)
    regs = []
    for i, nm in enumerate(names):
        p = big + b"/" + nm
        k = r.random()
        if k < 0.80 or not regs:
            with open(p, "wb") as f:
                f.write(b"%d:" % i + b"d" * r.choice([0, 0, 3, 40]))
            regs.append(p)
        elif k < 0.86:
            os.symlink(r.choice([b"t", nm[:40], b"../x"]), p)
        elif k < 0.90:
            os.mkdir(p)
            g.dirs.append(p)
            with open(p + b"/inner", "wb") as f:
                f.write(b"%d" % i)
            g.files.append(p + b"/inner")
            continue
        else:
            os.link(r.choice(regs), p)                    # second name inside the big directory
        g.files.append(p)
    # link groups whose members are far apart in strcmp order and in the served order, and one across directories
    srt = sorted(regs)
    for a, b in ((srt[0], b"\xff\xfflast"), (srt[-1], b"\x01first"), (srt[len(srt) // 2], b"mid\x80")):
        if not os.path.lexists(big + b"/" + b):
            os.link(a, big + b"/" + b)
            g.files.append(big + b"/" + b)
    lp = other + b"/" + r.choice([b"a", b"\xe4"])
    os.link(srt[len(srt) // 3], lp)
    g.files.append(lp)
    for p in list(g.dirs[1:]) + [root]:
        os.utime(p, ns=(10 ** 9, 10 ** 9))
    g.count = n
    return g


def gen_tool_case(ctx, tree, idx, multi, nofile=None):
    """(case, command line without the output file)"""
    r = ctx.rng
    if nofile is None and r.random() < 0.6:
        mt = r.choice([0, 1234567890])
        flags = DEFAULT_FLAGS
        cmd = ["-q", "-f", "-b", str(BLK), "-j", str(r.choice([1, 4])), "-d", "mtime=%d" % mt, "--pack-dir", tree.root.decode("utf-8", "surrogateescape")]
        defs = {"uid": 0, "gid": 0, "mtime": mt}
        if r.random() < 0.35:
            cmd.append(r.choice(["-H", "--no-hard-links"])); flags |= F_NO_HL
        if r.random() < 0.4:
            cmd.append(r.choice(["-k", "--keep-time"])); flags |= F_KEEP_TIME
        if r.random() < 0.3 or tree.mounts:
            cmd.append(r.choice(["-o", "--one-file-system"])); flags |= F_ONE_FS
        if r.random() < 0.15:
            cmd += ["-u", "77"]; flags &= ~F_KEEP_UID; defs["uid"] = 77
        if r.random() < 0.15:
            cmd += ["-g", "88"]; flags &= ~F_KEEP_GID; defs["gid"] = 88
        # mkfs.c main(): -u/-g also replace the default owner (root inode, implicit directories) — asked of the model
        mu, mg = model(ctx, ["maindefaults 0 0 %d %d %d" % (flags, defs["uid"], defs["gid"])])[0].split()
        c = Case("packdir", tree, {"uid": int(mu), "gid": int(mg), "mtime": mt, "mode": 0o755}, flags, defs)
        add_sort_and_xattr(ctx, c, cmd, idx)
        return c, cmd
    c = gen_glob_case(ctx, tree, 100000 + idx, multi, tool=True, nofile=nofile)
    d = c.d
    cmd = ["-q", "-f", "-b", str(BLK), "-j", str(r.choice([1, 4])), "-d", "uid=%d,gid=%d,mode=0%o,mtime=%d" % (d["uid"], d["gid"], d["mode"], d["mtime"]),
           "-D", tree.root.decode("utf-8", "surrogateescape"), "-F", c.packfile_path.decode()]
    c.flags = DEFAULT_FLAGS
    add_sort_and_xattr(ctx, c, cmd, idx)
    return c, cmd


TOOL_EXTRA = {"sortfile_cases": 0, "xattrfile_cases": 0}


def add_sort_and_xattr(ctx, case, cmd, idx, force=False):
    """gensquashfs -S <sort file> (the order of the file data then follows fstree_sort_files, modelled) and
    --xattr-file (apply_xattrs walks the tree; not modelled, the image must still not depend on the readdir order)"""
    r = ctx.rng
    tree = case.tree
    if force or r.random() < 0.35:
        regs = [p[len(tree.root) + 1:] for p in tree.files if os.path.lexists(p) and stat.S_ISREG(os.lstat(p).st_mode)]
        regs = [p for p in regs if not any(c in p for c in b"[]\\\"*?") and p == p.strip()]
        _, rules, text = gen_sortfile(r, regs or [b"none"], safe_flags=True)
        sf = ctx.scratch / ("tool_sort%d.txt" % idx)
        sf.write_bytes(text)
        cmd += [r.choice(["-S", "--sort-file"]), str(sf)]
        case.sort_rules = rules
        case.sort_text = text.decode("latin1")
        TOOL_EXTRA["sortfile_cases"] += 1
    if force or r.random() < 0.3:
        lines = []
        ents = [p[len(tree.root):] for p in (tree.files + tree.dirs[1:]) if os.path.lexists(p)]
        ents = [p for p in ents if all(32 < c < 127 and c not in b"\\\"" for c in p)]
        r.shuffle(ents)
        for p in ents[:r.randint(1, 12)]:
            lines.append(b"# file: " + p.lstrip(b"/"))
            for k in range(r.randint(1, 3)):
                lines.append(b"user.k%d=" % k + r.choice([b"\"value %d\"" % k, b"0x0102ff", b"0sQUJD"]))
            lines.append(b"")
        if lines:
            xf = ctx.scratch / ("tool_xattr%d.txt" % idx)
            xf.write_bytes(b"\n".join(lines) + b"\n")
            cmd += [r.choice(["-A", "--xattr-file"]), str(xf)]
            case.xattr_text = b"\n".join(lines).decode("latin1")
            TOOL_EXTRA["xattrfile_cases"] += 1


def witness_tree(ctx, idx):
    """DESIGN.md §4 C11: directory {a, b, c}, a and c one inode, b another file"""
    root = (str(ctx.scratch / ("wit%d" % idx))).encode()
    os.mkdir(root)
    for n, c in ((b"a", b"AAAA"), (b"b", b"BBBB")):
        with open(root + b"/" + n, "wb") as f:
            f.write(c)
    os.link(root + b"/a", root + b"/c")
    for n in (b"a", b"b", b""):
        os.utime(root + b"/" + n, ns=(10 ** 9, 10 ** 9))
    g = Gen(ctx, root, 0)
    g.files = [root + b"/a", root + b"/b", root + b"/c"]
    return g


# ------------------------------------------------------------------------------------------------ adversarial names
DIFF_POS = [1, 15, 16, 17, 31, 32, 63, 64, 127, 128, 254]
NAME_MAX = 255
BASE_ALPHA = b"abcdefghijklmnopqrstuvwxyzABCDEFGHIJKLMNOPQRSTUVWXYZ0123456789._-\xc3\xa4\xff\x80"
DIFF_BYTES = [0x01, 0x20, 0x2d, 0x2e, 0x30, 0x41, 0x61, 0x7e, 0x7f, 0x80, 0x81, 0xc3, 0xfe, 0xff]


def long_names(r, n, maxlen=NAME_MAX):
    """n pairwise different names (<= maxlen bytes) made to defeat shortcuts in a name comparison: families that share a long
    common prefix and first differ at byte DIFF_POS (around 16/32/64/128 and at the very end), bytes >= 0x80 against bytes
    < 0x80 at the differing position (signed/unsigned char), names that are proper prefixes of one another"""
    names = set()
    bases = [bytes(r.choice(BASE_ALPHA) for _ in range(maxlen)) for _ in range(r.randint(1, 3))]
    tries = 0
    while len(names) < n and tries < 20 * n + 200:
        tries += 1
        base = r.choice(bases)
        p = min(r.choice(DIFF_POS) if r.random() < 0.8 else r.randint(0, maxlen - 1), maxlen - 1)
        k = r.random()
        if k < 0.12:
            nm = base[:p]
        elif k < 0.24:
            nm = base[:p + 1]
        else:
            tail_len = r.choice([0, 0, 1, 3, maxlen - p - 1, r.randint(0, maxlen - p - 1)])
            tail = base[p + 1:p + 1 + tail_len] if r.random() < 0.7 else bytes(r.choice(b"xyz\xff\x01") for _ in range(tail_len))
            nm = base[:p] + bytes([r.choice(DIFF_BYTES)]) + tail
        if nm and nm not in (b".", b"..") and b"/" not in nm and b"\0" not in nm and len(nm) <= maxlen:
            names.add(nm)
    i = 0
    while len(names) < n:                      # fill up: counters behind a 200 byte common prefix
        names.add(bases[0][:200] + b"%06d" % i)
        i += 1
    lst = sorted(names)
    r.shuffle(lst)
    return lst[:n]


UNIT_ORDERS = ["sorted", "reverse", "halves"]


def unit_orders(r, k):
    o = ["sorted", "reverse"] + ["%s:%d" % (kind, r.randint(1, 10 ** 9)) for kind in ("seed", "swaps", "rot", "seed")] + ["halves"]
    head, rest = o[:2], o[2:]
    r.shuffle(rest)
    return (head + rest)[:k]


def build_unit_harness(ctx):
    return ctx.cc("h_c11_unit", ["h_c11_unit.c", "shim_readdir.c"], flags=["-DSHIM_WRAP"],
                  libs=[str(ctx.build_lib("san"))] + vlib.CODEC_LIBS + ["-Wl,--wrap=readdir,--wrap=readdir64,--wrap=closedir"])


def run_harness(ctx, exe, lines, what, timeout=600):
    """a sanitizer abort, a signal and a timeout of the real code are results (reported with the input), not crashes of the check"""
    try:
        r = vlib.sh([str(exe)], input="\n".join(lines) + "\n", env=ctx.san_env(), timeout=timeout)
    except subprocess.TimeoutExpired as e:
        done = len((e.stdout or b"").splitlines()) if e.stdout else 0
        return None, {"rc": "timeout after %ds" % timeout, "stderr": "", "answered": done, "of": len(lines), "what": what}
    out = r.stdout.splitlines()
    if r.returncode != 0 or len(out) != len(lines):
        return None, {"rc": r.returncode, "stderr": r.stderr[-3000:], "answered": len(out), "of": len(lines), "what": what}
    for l, o in zip(lines, out):
        if o.startswith("bad-op"):
            raise vlib.CheckFailure("harness rejected an operation the check generated (%s): %s" % (what, l[:200]))
    return out, None


def unit_part(ctx, unit, harness, counters, hist):
    """the pieces of the scan the order independence now rests on, each compared function by function with the real code:
    compare_names, read_names (real native iterator under the shim), insert_sorted, fstree_sort_files"""
    r = ctx.rng
    u = {"cmp_pairs": 0, "cmp_equal_prefix_ge16": 0, "readnames_dirs": 0, "readnames_runs": 0, "readnames_max": 0, "readnames_permuted": 0,
         "isort_lists": 0, "isort_max": 0, "sortfile_cases": 0, "sortfile_rules": 0, "name_len_max": 0}

    # (a) compare_names
    fam = long_names(r, 120)
    pairs = []
    for _ in range(900):
        a, b = r.choice(fam), r.choice(fam)
        pairs.append((a, b))
    for a in fam[:60]:
        pairs += [(a, a), (a, a[:-1] or b"x"), (a[:-1] or b"x", a), (a, a + b"\x01") if len(a) < NAME_MAX else (a, a)]
    for _ in range(200):
        pairs.append((r.choice(NAME_POOL), r.choice(NAME_POOL)))
    for p in DIFF_POS:                          # directed: equal up to byte p, then low byte against high byte
        base = bytes(r.choice(BASE_ALPHA) for _ in range(NAME_MAX))
        for lo, hi in ((0x7f, 0x80), (0x01, 0xff), (0x61, 0xe4), (0x2e, 0xc3)):
            x, y = base[:p] + bytes([lo]) + base[p + 1:], base[:p] + bytes([hi]) + base[p + 1:]
            pairs += [(x, y), (y, x), (x[:p], x), (x, x[:p])] if p > 0 else [(x, y), (y, x)]
    pairs = [(a, b) for a, b in pairs if a and b]
    lines = ["cmp %s %s" % (tok(a), tok(b)) for a, b in pairs]
    out, crash = run_harness(ctx, unit, lines, "cmp")
    if crash:
        ctx.violation("crash:unit:cmp", "unit harness (compare_names) aborted: rc=%s" % crash["rc"], crash)
    else:
        m = model(ctx, lines)
        for (a, b), real, mo in szip(pairs, out, m):
            u["cmp_pairs"] += 1
            counters["evaluations"] += 1
            cp = os.path.commonprefix([a, b])
            u["cmp_equal_prefix_ge16"] += 1 if len(cp) >= 16 and a != b else 0
            u["name_len_max"] = max(u["name_len_max"], len(a), len(b))
            spec = "-1" if a < b else ("1" if a > b else "0")          # strcmp on unsigned bytes = Python's bytes order
            msign, mlt = mo.split()
            if (msign == "-1") != (mlt == "1"):
                raise vlib.CheckFailure("model: strcmpC and nameLt disagree on %s %s" % (tok(a), tok(b)))
            if real != msign:
                counters["mismatch"] += 1
                if counters["unit_bad"] < 4:
                    counters["unit_bad"] += 1
                    ctx.violation("corr:cmp:%s" % vlib.sha(tok(a) + tok(b))[:10],
                                  "compare_names (dir_unix.c) returned sign %s, strcmp on unsigned bytes (model %s, reference %s) for two names "
                                  "with a common prefix of %d bytes" % (real, msign, spec, len(cp)),
                                  {"level": "unit", "op": "cmp", "a": tok(a), "b": tok(b), "real": real, "model": msign, "spec": spec},
                                  found_input=False)
            elif msign != spec:
                raise vlib.CheckFailure("model and real strcmp agree (%s) but differ from the reference order (%s)" % (msign, spec))

    # (b) read_names: the real native iterator over real directories, entries served by the shim in different orders
    sizes = [0, 1, 2, 3, 15, 16, 17, 100, 127, 128, 129, 255, 256, 257, 1023, 1024, 1025, 2000, 4097]
    if not ctx.quick():
        sizes += [511, 512, 513, 2047, 2048, 2049, 4096, 5000, 8193]
    for si, n in enumerate(sizes):
        d = (str(ctx.scratch / ("names%d" % si))).encode()
        os.mkdir(d)
        # (the model sorts by insertion: beyond 2000 entries short names keep that affordable)
        names = long_names(r, n, 24 if n > 2000 else (NAME_MAX if si % 3 != 2 else r.choice([12, 40, NAME_MAX])))
        for nm in names:
            os.close(os.open(d + b"/" + nm, os.O_WRONLY | os.O_CREAT | os.O_EXCL, 0o644))
        if sorted(os.listdir(d)) != sorted(names):
            raise vlib.CheckFailure("could not create the requested names in %s" % d)
        orders = unit_orders(r, 4 if ctx.quick() else 6)
        lines = ["readnames %s %s" % (o, tok(d)) for o in orders]
        out, crash = run_harness(ctx, unit, lines, "readnames")
        if crash:
            ctx.violation("crash:unit:readnames:%d" % n, "native iterator aborted on a directory of %d entries: rc=%s" % (n, crash["rc"]),
                          dict(crash, names=[tok(x) for x in names[:50]], orders=orders))
            shutil.rmtree(d, ignore_errors=True)
            continue
        st = os.lstat(d)
        served, mlines = [], []
        for o, line in szip(orders, out):
            body, _, log = line.partition(" @@ ")
            lo = parse_log(log)
            logged = lo.get((st.st_dev, st.st_ino))
            if logged is None or len(lo) != 1 or sorted(logged) != sorted(names + [b".", b".."]):
                raise vlib.CheckFailure("readdir shim not in effect for the native iterator: %d entries created, log has %s"
                                        % (n, "no entry for the directory" if logged is None else "%d names" % len(logged)))
            if o == "sorted" and logged != sorted(logged):
                raise vlib.CheckFailure("readdir shim: `sorted` requested, something else served")
            if logged != sorted(logged):
                u["readnames_permuted"] += 1
            served.append(body)
            mlines.append("readnames 1 " + " ".join(tok(x) for x in logged))
            u["readnames_runs"] += 1
            counters["evaluations"] += 1
        m = model(ctx, mlines)
        u["readnames_dirs"] += 1
        u["readnames_max"] = max(u["readnames_max"], n)
        u["name_len_max"] = max([u["name_len_max"]] + [len(x) for x in names])
        spec = " ".join(["ok"] + [tok(x) for x in sorted(names + [b".", b".."])])
        impl_same = all(x == served[0] for x in served)
        model_ok = all(("ok " + mo if mo else "ok") == x for mo, x in szip(m, served))
        if any(("ok " + mo if mo else "ok") != spec for mo in m):
            raise vlib.CheckFailure("model read_names does not return the names in strcmp order (directory of %d)" % n)
        if not (impl_same and model_ok):
            replay = {"level": "unit", "op": "readnames", "names": [tok(x) for x in names], "orders": orders,
                      "served_first_differences": [x[:400] for x in served][:4], "expected": spec[:400]}
            if counters["unit_bad"] < 4:
                counters["unit_bad"] += 1
                if not impl_same:
                    a = next(i for i, x in enumerate(served) if x != served[0])
                    ctx.violation("order:readnames:%d:%s" % (n, vlib.sha(json.dumps(replay, sort_keys=True))[:10]),
                                  "the native iterator serves a directory of %d entries in an order that depends on the readdir order "
                                  "(orders %s vs %s)" % (n, orders[0], orders[a]), replay)
                else:
                    counters["mismatch"] += 1
                    ctx.violation("corr:readnames:%d:%s" % (n, vlib.sha(json.dumps(replay, sort_keys=True))[:10]),
                                  "the native iterator serves a directory of %d entries in the same order for all readdir orders tried, but "
                                  "not in strcmp order (model of read_names)" % n, replay, found_input=False)
        shutil.rmtree(d, ignore_errors=True)
    if u["readnames_permuted"] * 2 < u["readnames_runs"] - len(sizes):
        raise vlib.CheckFailure("readdir shim: too few non-sorted enumerations served (%d of %d runs)" % (u["readnames_permuted"], u["readnames_runs"]))

    # (c) insert_sorted through fstree_add_generic
    lines, lists = [], []
    for n in [0, 1, 2, 3, 5, 17, 40, 130, 300] + ([1000] if not ctx.quick() else [600]):
        names = long_names(r, n, r.choice([NAME_MAX, NAME_MAX, 30]))
        if n >= 5:
            names = names[:n - 3] + r.sample(NAME_POOL, 3)
            names = list(dict.fromkeys(names))
        for k in range(2):
            perm = list(names)
            r.shuffle(perm)
            if k == 1:
                perm = sorted(perm, reverse=True)
            lists.append(perm)
            lines.append("isort " + " ".join(tok(x) for x in perm))
    out, crash = run_harness(ctx, harness, lines, "isort")
    if crash:
        ctx.violation("crash:unit:isort", "harness (insert_sorted) aborted: rc=%s" % crash["rc"], crash)
    else:
        m = model(ctx, lines)
        for perm, real, mo in szip(lists, out, m):
            u["isort_lists"] += 1
            u["isort_max"] = max(u["isort_max"], len(perm))
            counters["evaluations"] += 1
            spec = " ".join(tok(x) for x in sorted(perm))
            real_names = real[3:] if real.startswith("ok ") else ("" if real == "ok" else real)
            if mo != spec:
                raise vlib.CheckFailure("model insert_sorted does not sort %d names" % len(perm))
            if real_names != mo and counters["unit_bad"] < 4:
                counters["unit_bad"] += 1
                ctx.violation("order:isort:%s" % vlib.sha(" ".join(tok(x) for x in perm))[:10],
                              "fstree_add_generic/insert_sorted left the %d children of a directory in an order that is not the strcmp order "
                              "(so it depends on the insertion order)" % len(perm),
                              {"level": "unit", "op": "isort", "inserted": [tok(x) for x in perm], "real": real[:600], "expected": spec[:600]})

    # (d) fstree_sort_files
    for ci in range(6 if ctx.quick() else 40):
        paths, rules, text = gen_sortfile(r, None)
        sf = ctx.scratch / ("sortfile%d.txt" % ci)
        sf.write_bytes(text)
        line = "sortfiles %s %d %s" % (tok(str(sf).encode()), len(paths), " ".join(tok(x) for x in paths))
        out, crash = run_harness(ctx, harness, [line], "sortfiles")
        if crash:
            ctx.violation("crash:unit:sortfiles:%s" % vlib.sha(text)[:8], "harness (fstree_sort_files) aborted: rc=%s" % crash["rc"],
                          dict(crash, sortfile=text.decode("latin1"), paths=[tok(x) for x in paths]))
            continue
        f = out[0].split()
        if f[:2] != ["ok", "pre"] or "post" not in f:
            raise vlib.CheckFailure("sortfiles: the generated sort file was rejected by the real parser: %s / %r" % (out[0][:200], text[:300]))
        pre, post = f[2:f.index("post")], f[f.index("post") + 1:]
        expect_pre = [tok(x) for x in sorted(paths, key=lambda q: q.split(b"/"))]
        if pre != expect_pre:
            raise vlib.CheckFailure("sortfiles: file list before sorting is not the DFS order of the paths")
        mo = model_sortfiles(ctx, rules, pre)
        u["sortfile_cases"] += 1
        u["sortfile_rules"] += len(rules)
        counters["evaluations"] += 1
        if ["%s:%d" % x for x in mo] != post and counters["unit_bad"] < 4:
            counters["unit_bad"] += 1
            counters["mismatch"] += 1
            ctx.violation("corr:sortfiles:%s" % vlib.sha(text)[:10], "fstree_sort_files orders/flags the file list differently from the model",
                          {"level": "unit", "op": "sortfiles", "sortfile": text.decode("latin1"), "paths": [tok(x) for x in paths],
                           "real": post[:200], "model": ["%s:%d" % x for x in mo][:200]}, found_input=False)
    hist["unit"] = u
    for k in ("cmp_pairs", "cmp_equal_prefix_ge16", "readnames_runs", "readnames_permuted", "isort_lists", "sortfile_cases"):
        if u[k] == 0 and not ctx.violations:
            raise vlib.CheckFailure("unit part `%s` evaluated nothing" % k)


def direct_part(ctx, harness, counters, hist):
    """fstree_add_generic / fstree_post_process called directly (no pack-file parser in between): the argument checks
    (EINVAL, ERANGE), the nesting limit of mknode, and hard links that point at files, at other links (chains, cycles), at
    directories or at nothing, queued in different orders"""
    r = ctx.rng
    dp = {"ops": 0, "nesting": 0, "range": 0, "link_sets": 0, "flat_sets": 0, "err": 0, "orders_per_set": 3}
    hist["direct"] = dp

    def ent(kind, path, mode, uid=0, gid=0, mtime=0, rdev=0, extra=None):
        return [kind, tok(path), str(mode), str(uid), str(gid), str(mtime), str(rdev), otok(extra)]

    def op(what, ents, d=(0, 0, 0, 0o755)):
        return "direct %s %d %d %d %d %d %s" % (what, d[0], d[1], d[2], d[3], len(ents), " ".join(" ".join(e) for e in ents))

    lines, groups = [], []          # groups: (first line index, number of lines, all-flat?) for the link sets
    limit = 4096                                     # SQFS_MAX_DIR_NESTING; the model takes it from the header
    deep = lambda k: b"/".join([b"a"] * k)
    lines += [op("count", [ent("A", deep(limit), 0o40755)]), op("count", [ent("A", deep(limit + 1), 0o40755)]),
              op("count", [ent("A", deep(limit + 2), 0o100644, extra=b"in")])]
    dp["nesting"] += 3
    if not ctx.quick():
        for depth in (limit - 1, limit, limit + 1, limit + 2):
            p = deep(depth)
            lines += [op("count", [ent("A", p, 0o100644, extra=b"in")]),
                      op("count", [ent("A", deep(depth - 1), 0o40755), ent("A", p, 0o40700)]),
                      op("count", [ent("A", b"x", 0o100644), ent("L", p, 0o120777, extra=b"x")])]
            dp["nesting"] += 3
    for v in (2 ** 32 - 1, 2 ** 32, 2 ** 40 + 5):
        lines += [op("full", [ent("A", b"u", 0o100644, uid=v)]), op("full", [ent("A", b"g", 0o40755, gid=v)]),
                  op("full", [ent("A", b"c", 0o20644, rdev=v)]), op("full", [ent("A", b"b", 0o60644, rdev=v)]),
                  op("full", [ent("A", b"f", 0o100644, rdev=v)]), op("full", [ent("A", b"t", 0o100644), ent("L", b"h", 0o60644, rdev=v, extra=b"t")]),
                  op("full", [ent("A", b"d/e", 0o10644, uid=v)])]
        dp["range"] += 7
    lines += [op("full", [ent("A", b"l", 0o120777)]), op("full", [ent("A", b"l", 0o120777, extra=b"")]),
              op("full", [ent("A", b"l", 0o120777, extra=b"tgt")]), op("full", [ent("L", b"l", 0o120777)]),
              op("full", [ent("A", b"", 0o40700, uid=7)]), op("full", [ent("A", b"", 0o100600)])]
    # directed link shapes, each queued in every order: a chain ending in a file, a chain ending nowhere, a self loop, a
    # two-cycle, and a cycle that does NOT contain the link being resolved (only `max_hops` ends that one)
    fileF = ent("A", b"f", 0o100644, extra=b"in")
    for shape in ([(b"a", b"b"), (b"b", b"c"), (b"c", b"f")], [(b"a", b"b"), (b"b", b"nowhere")], [(b"a", b"a")],
                  [(b"a", b"b"), (b"b", b"a")], [(b"a", b"b"), (b"b", b"c"), (b"c", b"b")],
                  [(b"a", b"b"), (b"b", b"c"), (b"c", b"d"), (b"d", b"c"), (b"e", b"f")]):
        ls = [ent("L", p, 0o120777, extra=t) for p, t in shape]
        perms = [ls, list(reversed(ls))] + ([ls[1:] + ls[:1]] if len(ls) > 2 else [])
        for pm in perms:
            lines.append(op("full", [fileF] + pm))
        dp["directed_shapes"] = dp.get("directed_shapes", 0) + len(perms)
    for si in range(30 if ctx.quick() else 300):
        dirs = [b""] + [r.choice([b"d", b"e", b"d/s", b"zz"]) for _ in range(r.randint(0, 2))]
        files, base = [], []
        for d in sorted(set(dirs)):
            if d and r.random() < 0.7:
                base.append(ent("A", d, 0o40755, mtime=5))
        for i in range(r.randint(1, 6)):
            d = r.choice(dirs)
            p = (d + b"/" if d else b"") + r.choice([b"f", b"a", b"m", b"\xff", b"0"]) + b"%d" % i
            files.append(p)
            base.append(ent("A", p, r.choice([0o100644, 0o100644, 0o10600, 0o120777, 0o20600]), extra=b"x" if r.random() < 0.8 else None, rdev=r.randint(0, 500)))
        kind = r.choice(["flat", "flat", "flat", "mixed", "mixed", "cycle"])
        links, names = [], []
        for i in range(r.randint(1, 7)):
            d = r.choice(dirs)
            p = (d + b"/" if d else b"") + r.choice([b"l", b"z", b"A", b"\x01"]) + b"%d" % i
            if kind == "flat" or not names or r.random() < 0.5:
                tgt = r.choice(files)
            elif kind == "cycle" and r.random() < 0.5:
                tgt = r.choice(names + [p])
            else:
                tgt = r.choice(names + [b"missing", r.choice(dirs) or b"d", b"d/none"])
            names.append(p)
            links.append(ent("L", p, 0o120777, uid=i, extra=tgt))
        # a symlink without target (0o120777 with extra None) makes the whole thing fail: keep, it is a legal input
        flat = kind == "flat" and all(e[7] != "-" or not stat.S_ISLNK(int(e[2])) for e in base)
        first = len(lines)
        for k in range(dp["orders_per_set"]):
            perm = list(links)
            r.shuffle(perm)
            if k == 0:
                ents = base + perm
            elif k == 1:
                ents = base + list(reversed(perm))
            else:                                           # links queued before / between the files they point to
                ents = list(base)
                for l in perm:
                    ents.insert(r.randint(0, len(ents)), l)
                # parents must still come first for explicit directories: keep `dir` entries in front
                ents.sort(key=lambda e: 0 if (e[0] == "A" and stat.S_ISDIR(int(e[2]))) else 1)
            lines.append(op("full", ents))
        groups.append((first, dp["orders_per_set"], flat))
        dp["link_sets"] += 1
        dp["flat_sets"] += 1 if flat else 0
    out, crash = run_harness(ctx, harness, lines, "direct", timeout=300)
    if crash:
        ctx.violation("crash:direct", "fstree_add_generic / fstree_post_process aborted (rc=%s) after %d of %d operations: %s"
                      % (crash["rc"], crash["answered"], crash["of"], crash["stderr"][-300:]),
                      dict(crash, level="direct", next_op=lines[min(crash["answered"], len(lines) - 1)][:2000]))
        return
    m = model(ctx, lines)
    bad = 0
    for i, (l, real, mo) in enumerate(szip(lines, out, m)):
        dp["ops"] += 1
        dp["err"] += 1 if real == "err" else 0
        counters["evaluations"] += 1
        if real != mo:
            bad += 1
            counters["mismatch"] += 1
            if bad <= 3:
                ctx.violation("corr:direct:%s" % vlib.sha(l)[:10], "fstree_add_generic/fstree_post_process and the model disagree (real %s, model %s)"
                              % (real[:60], mo[:60]), {"level": "direct", "op": l[:20000], "real": real[:3000], "model": mo[:3000]}, found_input=False)
    for first, n, flat in groups:
        res = out[first:first + n]
        if flat and any(x != res[0] for x in res) and bad <= 3:
            bad += 1
            ctx.violation("order:links:%s" % vlib.sha(lines[first])[:10], "fstree_post_process gives different results for different orders of the "
                          "same hard links (all pointing at existing non-directories)", {"level": "direct", "ops": [x[:20000] for x in lines[first:first + n]],
                                                                                          "real": [x[:3000] for x in res]})
    hist["direct"] = dp
    if dp["ops"] < 100 or dp["flat_sets"] < 5 or dp["err"] == 0 or dp["err"] == dp["ops"]:
        raise vlib.CheckFailure("direct part starved: %s" % dp)


def deep_part(ctx, harness, counters, hist):
    """the nesting limit of the recursive iterator (dir_rec.c: SQFS_MAX_DIR_NESTING): a chain of directories deeper than any
    path name can express, built and inspected through directory file descriptors, scanned with directories filtered out
    (so that fstree.c's own limit does not get to see them)"""
    limit = None
    for l in open(str(vlib.LEAN / "Sqfs" / "Generated" / "Consts.lean")):
        if l.startswith("def maxDirNesting"):
            limit = int(l.split(":=")[1])
    if limit is None:
        raise vlib.CheckFailure("maxDirNesting missing from the generated constants")
    dp = {"limit": limit, "cases": 0, "err": 0, "ok": 0}
    hist["deep"] = dp
    lines, mlines = [], []
    roots = []
    for ci, depth in enumerate((limit, limit + 1) if ctx.quick() else (limit - 1, limit, limit + 1)):
        root = str(ctx.scratch / ("deep%d" % ci))
        os.mkdir(root)
        roots.append(root)
        fd = os.open(root, os.O_RDONLY | os.O_DIRECTORY)
        rootdev = os.fstat(fd).st_dev
        levels = []                                        # per level: (dir key, stat of d or None, stat of f)
        for k in range(depth + 1):
            f = os.open("f", os.O_WRONLY | os.O_CREAT | os.O_EXCL, 0o644, dir_fd=fd)
            os.close(f)
            sf = os.stat("f", dir_fd=fd, follow_symlinks=False)
            sd = None
            if k < depth:
                os.mkdir("d", 0o755, dir_fd=fd)
                sd = os.stat("d", dir_fd=fd, follow_symlinks=False)
            st = os.fstat(fd)
            levels.append(((st.st_dev, st.st_ino), sd, sf))
            if k < depth:
                nfd = os.open("d", os.O_RDONLY | os.O_DIRECTORY, dir_fd=fd)
                os.close(fd)
                fd = nfd
        os.close(fd)
        flags = DEFAULT_FLAGS | F_NO_DIR | F_NO_HL
        for order in (["reverse"] if ctx.quick() else ["sorted", "reverse"]):
            lines.append(("packdir %s %s 0 0 0 %d %d 0 0 0" % (order, tok(root.encode()), 0o755, flags), levels, rootdev, flags))
    out, crash = run_harness(ctx, harness, [l[0] for l in lines], "deep")
    for root in roots:
        vlib.sh(["rm", "-rf", root])
    if crash:
        ctx.violation("crash:deep", "real scan path aborted on a directory chain around the nesting limit: rc=%s %s" % (crash["rc"], crash["stderr"][-300:]),
                      dict(crash, level="deep"))
        return
    for (line, levels, rootdev, flags), o in szip(lines, out):
        dump, _, log = o.partition(" @@ ")
        lo = parse_log(log)

        def ent(nm, st):
            if st is None:
                return [tok(nm), str(0o40755), "0", "0", "0", str(rootdev), "1", "0", "-"]
            return [tok(nm), str(st.st_mode), str(st.st_uid), str(st.st_gid), str(int(st.st_mtime)), str(st.st_dev), str(st.st_ino), "0", "-"]

        head, tail = [], []                      # the forest is one chain: tokens before / after the nested directory
        for key, sd, sf in levels:
            names = lo.get(key)
            if names is None:
                names = [b".", b"..", b"d", b"f"] if sd is not None else [b".", b"..", b"f"]
            head.append(str(len(names)))
            after = []
            cur = head
            for nm in names:
                if nm == b"d":
                    head += ent(nm, sd)
                    cur = after
                else:
                    cur += ent(nm, sf if nm == b"f" else None) + ["0"]
            tail.append(after)
        toks = head + [x for a in reversed(tail) for x in a]
        mlines.append("run 1 0 0 0 %d 1 G - %d 0 0 0 0 - - %d %s" % (0o755, flags, rootdev, " ".join(toks)))
        if levels[0][0] not in lo:
            raise vlib.CheckFailure("readdir shim not in effect in the deep-chain case")
    m = model(ctx, mlines)
    for (line, levels, _, _), o, mo in szip(lines, out, m):
        dump = o.partition(" @@ ")[0]
        dp["cases"] += 1
        dp["err" if dump == "err" else "ok"] += 1
        counters["evaluations"] += 1
        if dump != mo:
            counters["mismatch"] += 1
            ctx.violation("corr:deep:%d" % (len(levels) - 1), "a chain of %d nested directories (limit %d), directories filtered out: real scan %s, model %s"
                          % (len(levels) - 1, limit, dump[:80], mo[:80]),
                          {"level": "deep", "depth": len(levels) - 1, "harness_line": line, "real": dump[:2000], "model": mo[:2000]}, found_input=False)
    hist["deep"] = dp
    if dp["err"] == 0 or dp["ok"] == 0:
        if not ctx.violations:
            raise vlib.CheckFailure("deep-chain part does not straddle the nesting limit: %s" % dp)


SORT_FLAGS = {"dont_fragment": 4, "dont_compress": 1, "dont_deduplicate": 8, "nosparse": 16}


def gen_sortfile(r, files, safe_flags=False):
    """(paths, rules, text): a set of file paths (given, or invented), the parsed rules for the model, the sort file"""
    def comp():
        while True:
            c = bytes(r.choice(b"abcxyz019._-") for _ in range(r.randint(1, 6)))
            if c not in (b".", b".."):              # (canonicalize_name would rewrite such a line of the sort file)
                return c
    if files is None:
        dirs = [b""] + [comp() for _ in range(r.randint(0, 3))]
        dirs += [r.choice(dirs[1:]) + b"/" + comp() for _ in range(r.randint(0, 2)) if len(dirs) > 1]
        paths = set()
        for _ in range(r.randint(3, 60)):
            d = r.choice(dirs)
            nm = comp() if r.random() < 0.85 else comp() + r.choice([b" x", b"[1]", b"*", b"\"q\"", b"\\b"])
            paths.add((d + b"/" if d else b"") + nm)
        # a path must not be a directory of another one
        paths = [p for p in paths if not any(q.startswith(p + b"/") for q in paths)]
    else:
        paths = list(files)
    rules, lines = [], [b"# sort file generated by tools/checks/c11.py", b""]
    for _ in range(r.randint(1, 10)):
        prio = r.choice([-100, -5, -1, 0, 1, 1, 2, 5, 7, 1000, -(2 ** 40)])
        fl = [f for f in SORT_FLAGS if r.random() < 0.25 and not (safe_flags and f == "dont_fragment")]
        kind = r.random()
        target = r.choice(paths) if paths else b"none"
        if kind < 0.45:
            do_glob, path_glob, pat = False, False, (target if r.random() < 0.85 else target + b"x")
        else:
            do_glob, path_glob = True, r.random() < 0.5
            base = target.split(b"/")
            pat = r.choice([b"*", b"*/*", b"?*", base[-1][:1] + b"*", b"/".join(base[:-1] + [b"*"]), b"*" + base[-1][-1:], target,
                            b"*/" + base[-1], base[0] + b"*"])
            pat = bytes(c for c in pat if c not in b"[]\\\"")
            if not pat:
                pat = b"*"
        words = [("glob" if path_glob else "glob_no_path")] if do_glob else []
        words += fl
        r.shuffle(words)
        quoted = (b'"' in pat or b"\\" in pat or pat[:1] in b" \t" or pat[-1:] in b" \t") or r.random() < 0.4
        name = (b'"' + pat.replace(b"\\", b"\\\\").replace(b'"', b'\\"') + b'"') if quoted else pat
        line = b"%d " % prio + ((b"[" + ", ".join(words).encode() + b"] ") if words or r.random() < 0.1 else b"") + name
        if r.random() < 0.2:
            line = b"  " + line + b"  "
        lines.append(line)
        if r.random() < 0.15:
            lines.append(b"# comment")
        rules.append((prio, sum(SORT_FLAGS[f] for f in fl), do_glob, path_glob, pat))
    return paths, rules, b"\n".join(lines) + b"\n"



def run(ctx):
    atexit.register(umount_all)
    ok, problems = vlib.proof_gate(ctx, MODULE, REQUIRED)
    if not ok:
        ctx.violation("proof:C11", "proof obligations of C11 no longer check: " + " | ".join(problems)[:1500],
                      {"broken": problems, "theorems_file": "lean/Sqfs/Props/C11.lean"}, found_input=False)
    witness_gate(ctx)
    harness = build_harness(ctx)
    unit = build_unit_harness(ctx)
    tools = build_tools(ctx)
    counters = {"evaluations": 0, "d16": 0, "mismatch": 0, "tool_runs": 0, "other": 0, "harness_other": 0, "unit_bad": 0}
    hist = {"trees": 0, "trees_with_multilink": 0, "packdir_cases": 0, "glob_cases": 0, "err_results": 0, "entries_total": 0,
            "max_dir": 0, "max_depth": 0, "mount_trees": 0, "trees_with_multilink_nonregular": 0, "glob_nofile_cases": 0,
            "tool_nofile_cases": 0, "type_subsets": {}}
    distinct = set()
    samples = []
    n_orders = 8 if ctx.quick() else 12
    n_trees = 48 if ctx.quick() else 400

    def one(case, facts, tag):
        orders = orders_for(ctx, n_orders)
        res, crash = run_case(ctx, harness, case, orders)
        if crash:
            rc, err, k = crash
            ctx.violation("crash:%s" % vlib.sha(err)[:10], "real scan path aborted (rc=%s) after %d of %d orders: %s" % (rc, k, len(orders), err[-400:]),
                          {"case": case.describe(), "orders": orders, "stderr": err, "tree": listing(case.tree.root)})
            return
        classify(ctx, case, res, facts, tag, counters)
        monitor_sorted(ctx, case, res, counters)
        for x in res:
            if x[1].startswith("err"):
                hist["err_results"] += 1
            if nontrivial(x[1]):
                distinct.add(vlib.sha(x[1] + repr(sorted(x[2].items()))))
        if len(samples) < 6:
            dsc = case.describe(); dsc.pop("tree_spec", None)
            samples.append({"case": dsc, "order": res[-1][0], "impl": res[-1][1][:300]})

    # 0. function-by-function: compare_names, read_names, insert_sorted, fstree_sort_files
    t0 = time.time()
    unit_part(ctx, unit, harness, counters, hist)
    hist["unit"]["seconds"] = round(time.time() - t0, 1)
    t0 = time.time()
    direct_part(ctx, harness, counters, hist)
    hist["direct"]["seconds"] = round(time.time() - t0, 1)
    t0 = time.time()
    deep_part(ctx, harness, counters, hist)
    hist["deep"]["seconds"] = round(time.time() - t0, 1)

    # 0a. corpus of minimised past disagreements (each: tree spec + case + orders), harness level and tool level
    cdir = vlib.CORPUS / "C11"
    ncorpus = 0
    if cdir.exists():
        for k, cf in enumerate(sorted(cdir.glob("*.json"))):
            body = json.loads(cf.read_text())
            ctree = rebuild_tree(ctx, body["case"]["tree_spec"], "corpus%d" % k)
            ccase = Case.from_description(ctx, body["case"], ctree, 1000 + k)
            cfacts = tree_facts(ctree.root)
            res, crash = run_case(ctx, harness, ccase, body["orders"])
            if crash:
                ctx.violation("crash:corpus:%s" % cf.name, "real scan path aborted on corpus entry %s: %s" % (cf.name, crash[1][-300:]),
                              {"case": ccase.describe(), "orders": body["orders"], "stderr": crash[1]})
            else:
                classify(ctx, ccase, res, cfacts, "corpus:" + cf.stem, counters)
                for x in res:
                    if nontrivial(x[1]):
                        distinct.add(vlib.sha(x[1] + repr(sorted(x[2].items()))))
            if True:
                if ccase.kind == "packdir":
                    cmd = ["-q", "-f", "-b", str(BLK), "-d", "mtime=0", "--pack-dir", ctree.root.decode("utf-8", "surrogateescape")]
                    if ccase.flags & F_NO_HL:
                        cmd.append("-H")
                else:
                    dd = ccase.d
                    cmd = ["-q", "-f", "-b", str(BLK), "-d", "uid=%d,gid=%d,mode=0%o,mtime=%d" % (dd["uid"], dd["gid"], dd["mode"], dd["mtime"]),
                           "-D", ctree.root.decode("utf-8", "surrogateescape"), "-F", ccase.packfile_path.decode()]
                res, crash = run_tool_case(ctx, tools, ccase, cmd, body["orders"], False)
                if crash:
                    ctx.violation("crash:tool:corpus:%s" % cf.name, "gensquashfs aborted on corpus entry %s" % cf.name,
                                  {"case": ccase.describe(), "cmdline": cmd, "orders": body["orders"], "stderr": str(crash[1])})
                else:
                    classify_tool(ctx, ccase, cmd, res, cfacts, counters)
            umount_all()
            shutil.rmtree(ctree.root, ignore_errors=True)
            ncorpus += 1
    hist["corpus_entries"] = ncorpus

    # 0b. the witness of D16, replayed on the real code
    wt = witness_tree(ctx, 0)
    one(Case("packdir", wt, {"uid": 0, "gid": 0, "mtime": 0, "mode": 0o755}, DEFAULT_FLAGS, {"uid": 0, "gid": 0, "mtime": 0}),
        tree_facts(wt.root), "witness")
    one(Case("packdir", wt, {"uid": 0, "gid": 0, "mtime": 0, "mode": 0o755}, DEFAULT_FLAGS | F_NO_HL, {"uid": 0, "gid": 0, "mtime": 0}),
        tree_facts(wt.root), "witness-nohl")

    tool_hist = {"tool_cases": 0, "tool_cases_asan": 0, "tool_failed_packs": 0, "tool_packfile_cases": 0}
    # cases packed by the gensquashfs of /repo's default configuration (pool allocator; same shim, model and comparisons)
    pool_hist = {"pool_configuration_cases": 0, "pool_configuration_runs": 0, "pool_configuration_packs_succeeded": 0,
                 "pool_configuration_cases_with_hard_links_detected": 0, "build_seconds": tools.get("pool_build_seconds")}

    def one_tool(tree, facts, idx, use_san, nofile=None, force_packdir=False, pool=False):
        if force_packdir:
            cmd = ["-q", "-f", "-b", str(BLK), "-j", "4", "-d", "mtime=0", "--pack-dir", tree.root.decode("utf-8", "surrogateescape")]
            case = Case("packdir", tree, {"uid": 0, "gid": 0, "mtime": 0, "mode": 0o755}, DEFAULT_FLAGS, {"uid": 0, "gid": 0, "mtime": 0})
            add_sort_and_xattr(ctx, case, cmd, idx, force=True)
        else:
            case, cmd = gen_tool_case(ctx, tree, idx, facts[0], nofile)
        orders = orders_for(ctx, n_orders)
        case.pool_configuration = pool
        res, crash = run_tool_case(ctx, tools, case, cmd, orders, use_san, pool=pool)
        if crash:
            rc, err, o = crash
            ctx.violation("crash:tool:%s" % vlib.sha(str(err))[:10], "gensquashfs/reader aborted (rc=%s) under readdir order %s: %s" % (rc, o, str(err)[-400:]),
                          {"case": case.describe(), "cmdline": cmd, "order": o, "stderr": err, "tree": listing(case.tree.root),
                           "configuration": "pool" if pool else "malloc"})
            return
        classify_tool(ctx, case, cmd, res, facts, counters)
        if pool:
            ok_packs = sum(1 for x in res if x[5] != "failed")
            pool_hist["pool_configuration_cases"] += 1
            pool_hist["pool_configuration_runs"] += len(res)
            pool_hist["pool_configuration_packs_succeeded"] += ok_packs
            hl_on = not (case.flags & F_NO_HL) if case.kind == "packdir" else not (case.glob["flags"] & F_NO_HL)
            pool_hist["pool_configuration_cases_with_hard_links_detected"] += 1 if (facts[0] and hl_on and ok_packs) else 0
            pool_hist["_last_ok_packs"] = ok_packs
        tool_hist["tool_cases"] += 1
        tool_hist["tool_cases_asan"] += 1 if use_san else 0
        tool_hist["tool_packfile_cases"] += 1 if case.kind == "packfile" else 0
        tool_hist["tool_failed_packs"] += sum(1 for x in res if x[5] == "failed")
        for x in res:
            if x[1] != "err" and x[1].count("\n") >= 5:
                distinct.add(vlib.sha(x[1] + repr(sorted(x[2].items()))))
        if len(samples) < 9 and tool_hist["tool_cases"] <= 3:
            samples.append({"tool_cmdline": cmd, "order": res[-1][0], "sha256": res[-1][5], "image": res[-1][1][:300]})

    one_tool(wt, tree_facts(wt.root), 0, False)
    one_tool(wt, tree_facts(wt.root), 1, True)

    # 1. generated trees
    tool_every = 3 if ctx.quick() else 2
    for t in range(n_trees):
        size = ctx.rng.choice([4, 8, 16, 30, 60] if ctx.quick() else [4, 8, 16, 30, 60, 120, 400])
        want_links = ctx.rng.random() < 0.6
        mount = (t % 8 == 5)
        tree = make_tree(ctx, t, size, want_links, mount)
        facts = tree_facts(tree.root)
        hist["trees"] += 1
        hist["trees_with_multilink"] += 1 if facts[0] else 0
        hist["entries_total"] += facts[1]
        hist["max_dir"] = max(hist["max_dir"], facts[2])
        hist["max_depth"] = max(hist["max_depth"], facts[3])
        hist["mount_trees"] += 1 if tree.mounts else 0
        for k in range(2):
            one(gen_packdir_case(ctx, tree), facts, "packdir")
            hist["packdir_cases"] += 1
        for k in range(2):
            gcase = gen_glob_case(ctx, tree, 2 * t + k, facts[0])
            one(gcase, facts, "glob")
            hist["glob_cases"] += 1
            hist["glob_hl_on"] = hist.get("glob_hl_on", 0) + (0 if gcase.glob["flags"] & F_NO_HL else 1)
        if facts[4]:
            # directed: -type filter without regular files over multiply-linked symlinks / fifos / devices / sockets
            hist["trees_with_multilink_nonregular"] += 1
            one(gen_glob_case(ctx, tree, 500000 + t, facts[0], nofile=facts[4]), facts, "glob-nofile")
            hist["glob_nofile_cases"] += 1
        if t % tool_every == 0:
            # every 5th tool case (chosen by index, no rng draw) is packed by the pool-configured gensquashfs instead
            in_pool = (t // tool_every) % 5 == 1
            one_tool(tree, facts, t, use_san=(t % (4 * tool_every) == 0) and not in_pool, pool=in_pool)
            if facts[4]:
                one_tool(tree, facts, 700000 + t, False, nofile=facts[4])
                hist["tool_nofile_cases"] += 1
        umount_all()
        shutil.rmtree(tree.root, ignore_errors=True)
    # 2. big directories (more than 128 / 256 / 1024 entries), names sharing long prefixes, link groups inside them
    t0 = time.time()
    big_sizes = ([ctx.rng.choice([129, 131, 200]), ctx.rng.choice([257, 300]), ctx.rng.choice([513, 600])] if ctx.quick()
                 else [129, 200, 257, 513, 1025, 1400, 2000])
    hist["big"] = {"trees": 0, "sizes": big_sizes, "harness_cases": 0, "tool_cases": 0}
    save_orders = n_orders
    n_orders = 4 if ctx.quick() else 6
    for bi, n in enumerate(big_sizes):
        tree = make_big_tree(ctx, bi, n, NAME_MAX if bi % 3 != 2 else 48)
        facts = tree_facts(tree.root)
        hist["big"]["trees"] += 1
        hist["max_dir"] = max(hist["max_dir"], facts[2])
        one(Case("packdir", tree, {"uid": 0, "gid": 0, "mtime": 0, "mode": 0o755}, DEFAULT_FLAGS | (F_KEEP_TIME if bi % 2 else 0),
                 {"uid": 0, "gid": 0, "mtime": 0}), facts, "big-packdir")
        hist["big"]["harness_cases"] += 1
        if bi == 0 or not ctx.quick():
            gc = gen_glob_case(ctx, tree, 800000 + bi, facts[0], nofile=None)
            one(gc, facts, "big-glob")
            hist["big"]["harness_cases"] += 1
        if bi < 2 or not ctx.quick():
            one_tool(tree, facts, 900000 + bi, use_san=False, force_packdir=True)
            hist["big"]["tool_cases"] += 1
        shutil.rmtree(tree.root, ignore_errors=True)
    hist["big"]["seconds"] = round(time.time() - t0, 1)
    # 3. pool configuration, directed: the hard-link filter (lib/sqfs/src/io/dir_hl.c) keeps one rbtree node (48 bytes) per
    #    non-directory inode of the scan and the pool hands out 65536-byte blocks (1344 such nodes): a tree with more than
    #    1344 non-directory inodes and hard-link groups of >= 600 names makes the pool grow past its first block while
    #    groups are being looked up.  (After every other case: the random stream of those is what it was.)
    t0 = time.time()
    n_orders = 3 if ctx.quick() else 6
    tree = make_big_tree(ctx, 99, 1700 if ctx.quick() else 2600, 40)
    pdir = tree.root + b"/hl.pool"
    os.mkdir(pdir)
    tree.dirs.append(pdir)
    regs = sorted(p for p in tree.files if stat.S_ISREG(os.lstat(p).st_mode) and os.lstat(p).st_nlink == 1)
    for i, src in enumerate(ctx.rng.sample(regs, 260)):
        for j in range(1 if i % 4 else 3):                       # groups of 2 and of 4 names
            lp = pdir + b"/" + (b"%c%03d.%d" % (b"az\xe9"[i % 3], i, j))
            os.link(src, lp)
            tree.files.append(lp)
    for p in (pdir, tree.root):
        os.utime(p, ns=(10 ** 9, 10 ** 9))
    names, inodes = 0, set()
    for dp, dn, fn in os.walk(tree.root):
        for x in fn + [d for d in dn if os.path.islink(dp + b"/" + d)]:
            st_ = os.lstat(dp + b"/" + x)
            inodes.add((st_.st_dev, st_.st_ino))
            names += 1 if st_.st_nlink > 1 else 0
    facts = tree_facts(tree.root)
    pool_hist["_last_ok_packs"] = 0
    one_tool(tree, facts, 950000, use_san=False, force_packdir=True, pool=True)
    pool_hist["directed_big_case"] = {"names_in_hard_link_groups": names, "non_directory_inodes": len(inodes), "entries": facts[1],
                                      "orders": n_orders, "packs_succeeded": pool_hist.pop("_last_ok_packs"),
                                      "rbtree_nodes_per_65536_byte_pool_block": 1344, "seconds": round(time.time() - t0, 1)}
    shutil.rmtree(tree.root, ignore_errors=True)
    n_orders = save_orders
    hist["pool_configuration"] = pool_hist
    hist.update(tool_hist)
    hist.update(TOOL_EXTRA)
    hist["shim"] = dict(SHIM)
    hist["seconds_in"] = {k: round(v, 1) for k, v in TIMES.items()}
    hist["type_subsets"] = {"distinct": len(TYPE_HIST), "without_f": sum(v for k, v in TYPE_HIST.items() if "f" not in k and k != "(no -type)"),
                            "counts": dict(sorted(TYPE_HIST.items(), key=lambda z: -z[1])[:40])}

    # an empty or starved part is a failure of the check infrastructure, never a pass
    q = ctx.quick()
    floors = [("harness evaluations", counters["evaluations"] - counters["tool_runs"], 1200 if q else 8000),
              ("tool runs", counters["tool_runs"], 120 if q else 1000),
              ("tool packs that succeeded", counters["tool_runs"] - tool_hist["tool_failed_packs"], 60 if q else 500),
              ("harness results that are not `err`", counters["evaluations"] - counters["tool_runs"] - hist["err_results"], 900 if q else 6000),
              ("distinct non-trivial results", len(distinct), 150 if q else 1000),
              ("child lists monitored", counters.get("monitor_lists", 0), 500 if q else 4000),
              ("trees with a multiply-linked file", hist["trees_with_multilink"], 10 if q else 80),
              ("glob cases with hard-link detection on", hist.get("glob_hl_on", 0), 20 if q else 150),
              ("trees with a mount point inside", hist["mount_trees"], 1),
              ("big directories scanned", hist["big"]["harness_cases"], 3),
              ("tool cases with a sort file", TOOL_EXTRA["sortfile_cases"], 2),
              ("tool cases with an xattr file", TOOL_EXTRA["xattrfile_cases"], 2),
              ("directories served in a non-sorted order by the shim", SHIM["dirs_permuted"], 1000 if q else 8000),
              ("plain scans in which every directory had to go through the shim", SHIM["cases_all_read_required"], 100 if q else 800),
              ("corpus entries", ncorpus, 7)]
    starved = ["%s: %d < %d" % (n, v, f) for n, v, f in floors if v < f]
    if SHIM["root_not_read"]:
        starved.append("the scanned directory itself was read without going through the readdir shim in %d runs" % SHIM["root_not_read"])
    hist["floors"] = {n: [v, f] for n, v, f in floors}
    if starved and not ctx.violations:
        raise vlib.CheckFailure("coverage floor not reached (the check would pass without having looked): " + "; ".join(starved))
    pbig = pool_hist["directed_big_case"]
    pool_floors = [("pool-configuration tool cases", pool_hist["pool_configuration_cases"], 4 if q else 30),
                   ("pool-configuration gensquashfs runs", pool_hist["pool_configuration_runs"], 24 if q else 300),
                   ("pool-configuration packs that succeeded", pool_hist["pool_configuration_packs_succeeded"], 12 if q else 150),
                   ("names in hard-link groups of the directed pool-configuration case", pbig["names_in_hard_link_groups"], 600),
                   ("non-directory inodes of the directed pool-configuration case (one pool block holds 1344 nodes)", pbig["non_directory_inodes"], 1400),
                   ("packs of the directed pool-configuration case that succeeded", pbig["packs_succeeded"], 2)]
    hist["floors"].update({n: [v, f] for n, v, f in pool_floors})
    pstarved = ["%s: %d < %d" % (n, v, f) for n, v, f in pool_floors if v < f]
    if pstarved and not ctx.violations:
        raise vlib.CheckFailure("too few runs against /repo's default configuration (pool allocator): " + "; ".join(pstarved))

    ctx.cov.update({
        "evaluations": counters["evaluations"],
        "distinct_nontrivial": len(distinct),
        "rule": "distinct (result dump, served readdir orders) pairs whose scan succeeded with at least 4 tree nodes",
        "samples": samples,
        "disagreements_checked": counters["d16"] + counters["mismatch"],
        "spec_monitor": {"predicate": "Sqfs.FsTree.SortedNames on every child list of every tree the real code built",
                         "lists_checked": counters.get("monitor_lists", 0), "violations": counters.get("monitor_bad", 0)},
        "known_finding_cases": counters["d16"], "tool_runs": counters["tool_runs"],
        "pool_configuration_runs": pool_hist["pool_configuration_runs"], "pool_configuration": pool_hist,
        "histogram": hist,
        "orders_per_case": n_orders,
        "input_distribution": "seeded random directory trees under ctx.scratch: 4..400 entries, depth <= 6, names from a pool with shared "
                              "prefixes, bytes >= 0x80 and glob metacharacters; regular files, symlinks, fifos, sockets, device nodes, "
                              "extra hard links (60% of trees forced to contain a multiply-linked file); random chmod/chown/utime "
                              "(incl. negative and > 2^32 mtimes); flags: -H 35%, -k 40%, -o 30%, forced uid/gid 15% each",
    })
    return ctx.finish(LEVEL, trusted_extra=[
        "harness/h_c11.c, harness/shim_readdir.c (readdir wrapper: serves a logged permutation), tools/checks/c11.py (tree generator, "
        "lstat-based reconstruction of the enumeration handed to the model)",
        "paths are modelled as component lists ('/'-joining and splitting is the identity for readdir names); fnmatch is a parameter "
        "of the model (the driver instantiates it with a literal/?/* matcher, the generator only uses such patterns)"],
        assumptions=["names inside one directory are pairwise different (WFList) — guaranteed by the kernel"])


def replay_unit(ctx, r):
    """re-run a recorded function-level disagreement (compare_names / read_names / insert_sorted / fstree_sort_files)"""
    op = r.get("op")
    if op == "cmp":
        unit = build_unit_harness(ctx)
        line = "cmp %s %s" % (r["a"], r["b"])
        out, crash = run_harness(ctx, unit, [line], "cmp")
        mo = model(ctx, [line])[0].split()[0]
        print("compare_names: real %s, model %s" % (out and out[0], mo))
        if crash or out[0] != mo:
            print("REPRODUCED: compare_names differs from strcmp on unsigned bytes")
            return 1
    elif op == "readnames":
        unit = build_unit_harness(ctx)
        d = (str(ctx.scratch / "replay_names")).encode()
        os.mkdir(d)
        names = [bytes.fromhex(x) for x in r["names"]]
        for nm in names:
            os.close(os.open(d + b"/" + nm, os.O_WRONLY | os.O_CREAT | os.O_EXCL, 0o644))
        lines = ["readnames %s %s" % (o, tok(d)) for o in r["orders"]]
        out, crash = run_harness(ctx, unit, lines, "readnames")
        spec = " ".join(["ok"] + [tok(x) for x in sorted(names + [b".", b".."])])
        if crash:
            print("REPRODUCED: native iterator aborted:", crash)
            return 1
        bad = 0
        for o, line in szip(r["orders"], out):
            body = line.partition(" @@ ")[0]
            print("order %-18s %s" % (o, "strcmp order" if body == spec else "NOT in strcmp order"))
            bad += body != spec
        if bad:
            print("REPRODUCED: the native iterator does not serve the names in strcmp order")
            return 1
    elif op == "isort":
        harness = build_harness(ctx)
        line = "isort " + " ".join(r["inserted"])
        out, crash = run_harness(ctx, harness, [line], "isort")
        mo = model(ctx, [line])[0]
        if crash or (out[0][3:] if out[0].startswith("ok ") else "") != mo:
            print("REPRODUCED: insert_sorted order differs from strcmp order")
            return 1
    elif op == "sortfiles":
        harness = build_harness(ctx)
        sf = ctx.scratch / "replay_sortfile.txt"
        sf.write_bytes(r["sortfile"].encode("latin1"))
        line = "sortfiles %s %d %s" % (tok(str(sf).encode()), len(r["paths"]), " ".join(r["paths"]))
        out, crash = run_harness(ctx, harness, [line], "sortfiles")
        print("real:", out and out[0][:600])
        print("model (recorded):", r.get("model"))
        f = out[0].split() if out else []
        if crash or "post" not in f or f[f.index("post") + 1:][:200] != r.get("model"):
            print("REPRODUCED: fstree_sort_files differs from the model")
            return 1
    else:
        print(json.dumps(r, indent=1)[:3000])
        print("unknown unit replay")
        return 1
    print("not reproduced: real code and model agree on the recorded input")
    return 0


def replay(ctx, path):
    """rebuild the recorded tree, re-run the recorded case under the recorded readdir orders against the current working tree"""
    atexit.register(umount_all)
    body = json.loads(open(path).read())
    r = body.get("replay", {})
    if r.get("level") in ("unit", "direct", "deep"):
        ctx.lean_build(["sqfsmodel"])
        if r["level"] == "unit":
            return replay_unit(ctx, r)
        harness = build_harness(ctx)
        if r["level"] == "deep":
            counters = {"evaluations": 0, "mismatch": 0}
            deep_part(ctx, harness, counters, {})
            print("REPRODUCED: deep directory chain: real scan and model disagree" if ctx.violations
                  else "not reproduced: real scan and model agree around the nesting limit")
            return 1 if ctx.violations else 0
        ops = r.get("ops") or [r.get("op") or r.get("next_op")]
        out, crash = run_harness(ctx, harness, ops, "direct", timeout=300)
        if crash:
            print("REPRODUCED: real code aborted / timed out:", crash["rc"])
            return 1
        m = model(ctx, ops)
        bad = 0
        for o, real, mo in szip(ops, out, m):
            print("real  %s\nmodel %s" % (real[:300], mo[:300]))
            bad += real != mo
        if bad or ("ops" in r and any(x != out[0] for x in out)):
            print("REPRODUCED")
            return 1
        print("not reproduced: real code and model agree, and all orders give the same result")
        return 0
    desc = r.get("case")
    if not desc or "tree_spec" not in desc:
        print(json.dumps(r, indent=1)[:4000])
        print("no recorded input in this replay file (broken obligation / infrastructure): nothing to re-run")
        return 1
    tree = rebuild_tree(ctx, desc["tree_spec"], "replay_tree")
    case = Case.from_description(ctx, desc, tree, 0)
    facts = tree_facts(tree.root)
    orders = r.get("orders") or ([r["order"]] if "order" in r else ["sorted", "reverse"])
    counters = {"evaluations": 0, "d16": 0, "mismatch": 0, "tool_runs": 0, "other": 0, "harness_other": 0, "unit_bad": 0}
    ctx.lean_build(["sqfsmodel"])
    if r.get("level") == "tool" or "cmdline" in r:
        tools = build_tools(ctx)
        cmd = [c.replace(r.get("tree_root", "\0"), tree.root.decode("utf-8", "surrogateescape")) for c in r["cmdline"]]
        for i, c in enumerate(cmd):                                   # re-point --pack-dir/-D/-F at the rebuilt inputs
            if c in ("--pack-dir", "-D"):
                cmd[i + 1] = tree.root.decode("utf-8", "surrogateescape")
            if c == "-F":
                cmd[i + 1] = case.packfile_path.decode()
            if c in ("-S", "--sort-file") and getattr(case, "sort_text", None) is not None:
                (ctx.scratch / "replay_sort.txt").write_bytes(case.sort_text.encode("latin1"))
                cmd[i + 1] = str(ctx.scratch / "replay_sort.txt")
            if c in ("-A", "--xattr-file") and getattr(case, "xattr_text", None) is not None:
                (ctx.scratch / "replay_xattr.txt").write_bytes(case.xattr_text.encode("latin1") + b"\n")
                cmd[i + 1] = str(ctx.scratch / "replay_xattr.txt")
        case.pool_configuration = r.get("configuration") == "pool"
        res, crash = run_tool_case(ctx, tools, case, cmd, orders, use_san=False, pool=case.pool_configuration)
        if crash:
            print("REPRODUCED: tool aborted:", crash)
            return 1
        for x in res:
            print("order %-16s sha256 %s" % (x[0], x[5]))
        classify_tool(ctx, case, cmd, res, facts, counters)
    else:
        harness = build_harness(ctx)
        res, crash = run_case(ctx, harness, case, orders)
        if crash:
            print("REPRODUCED: real scan path aborted:", crash)
            return 1
        need_unsorted(ctx, case, res)
        for x in res:
            print("order %-16s impl=%s model=%s model(iterator without qsort)=%s" % (x[0], vlib.sha(x[1])[:12], vlib.sha(x[3])[:12], vlib.sha(x[4])[:12]))
        classify(ctx, case, res, facts, "replay", counters)
    umount_all()
    if ctx.violations or ctx.known_hits:
        print("REPRODUCED: %s" % (ctx.violations[0]["what"] if ctx.violations else ctx.known_hits[0]["key"]))
        return 1
    print("not reproduced: all orders give the same result and it agrees with the model")
    return 0
