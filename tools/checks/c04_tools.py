"""
C04 (tool level) -- tar <-> SquashFS conversion preserves the archive; byte-exact fix-point.

Three sub-checks, all against tools built from the working tree ($VERIF_REPO) with ASan+UBSan:

 (A) "t2s"  tar -> image fidelity.  Archives are *generated* (python tarfile in USTAR/GNU/PAX format and a raw
     512-byte header writer for v7, pre-POSIX/GNU, ustar prefix split, base-256 / unterminated octal numbers,
     GNU 'L'/'K', PAX records, LIBARCHIVE/SCHILY xattrs, old GNU sparse, PAX sparse 0.0/0.1/1.0, 'g' headers);
     the expected image tree is computed by `expected_tree` from the generator's own description (never by
     re-parsing with the code under test) and compared with what rdsquashfs (-d, -s, -u/-c, -x) and an
     `sqfs2tar -r <obsroot>` read through python tarfile (mtime, xattr, hard link observer) report.
     The generator's description is itself cross-checked against python tarfile and GNU tar reading the archive.
 (B) "s2t"  image -> tar.  sqfs2tar output (option matrix) is checked for well-formedness (own block walker:
     length, checksums, terminator) and read by two independent readers, python tarfile and GNU tar 1.34
     (listing with --numeric-owner --full-time --xattrs, contents with -xO); both must yield the expected
     member list derived from the image tree and the sqfs2tar options.
 (C) "fix"  fix-point.  img1=tar2sqfs(A); tar1=sqfs2tar(img1); img2=tar2sqfs(tar1); tar2=sqfs2tar(img2);
     img3=tar2sqfs(tar2): tar1==tar2, sha256(img2)==sha256(img3), tree(img1)==tree(img2).

Reproducibility of images: tar2sqfs takes the super block modification time and the time stamp of implicitly
created directories from fstree defaults, i.e. `--defaults mtime=` or else $SOURCE_DATE_EPOCH or else 0
(lib/common/src/fstree_cli.c, lib/util/src/source_date_epoch.c); no wall clock time enters the image.  This
module therefore removes SOURCE_DATE_EPOCH from the environment unless a case sets it on purpose (then the same
value is used for every tar2sqfs run of that case) - nothing else is needed for byte identical images.

Design choices of the code that the oracle encodes (each was read off the C sources and judged defensible):
  * a second entry for an existing non-directory / explicitly created directory -> tar2sqfs fails (EEXIST);
    an explicit directory entry after the directory was created implicitly overwrites its attributes.
  * entries whose canonical name contains '..' -> tar2sqfs fails; './', leading '/', '//' and trailing '/' in
    member names are canonicalised away; './' or '/' itself sets the root inode's attributes (must be a dir).
  * time stamps are clamped to [0, 2^32-1]; fractional PAX mtimes are truncated towards zero (parse_int stops
    at the '.'), which after clamping equals floor().
  * xattr keys outside user./trusted./security. are skipped with a warning (no --no-skip given).
  * hard links take all attributes from their target; xattrs on a hard link record are ignored.
  * hard link to a directory / to a missing path / hard link loop -> tar2sqfs fails.
  * sqfs2tar without --root-becomes does not emit the root inode (documented: its meta data is lost), so the
    plain fix-point compares the root inode only when the archive had no root entry; the "-r" fix-point flavour
    (tar2sqfs -r R / sqfs2tar -r R) compares it always.
  * sqfs2tar writes hard link records with mode 0777 (the mode of a link record is meaningless); not compared.
  * name components longer than 255 bytes are stored unchanged by tar2sqfs (not truncated); noted in stats only.
  * v7 archives: directories are generated with typeflag '5' (the code does not implement the trailing-'/'
    convention of old tars; not judged here).
"""
import base64, calendar, collections, concurrent.futures, hashlib, io, json, os, random, re, shutil, struct
import subprocess, sys, tarfile, time
from pathlib import Path
from types import SimpleNamespace as NS

sys.path.insert(0, str(Path(__file__).resolve().parent.parent))
import vlib  # noqa: E402

GEN_VERSION = 1
U32 = 0xFFFFFFFF
OBSROOT = b"OBSROOT"
BOUND_NAME_LENS = [99, 100, 101, 154, 155, 156, 255, 256, 257, 1000]
BOUND_IDS = [0, 2097151, 2097152, 16777215, 16777216, 2 ** 31, 2 ** 32 - 1]
BOUND_MTIMES = [-1, 0, 2 ** 31, 2 ** 32 - 1, 2 ** 32, 2 ** 33 - 1, 2 ** 33, 2 ** 36]
SUPPORTED_XATTR = (b"user.", b"trusted.", b"security.")
TIMEOUT = 120                 # CPU seconds per tool run (RLIMIT_CPU): load on the machine cannot turn a slow run into a false "timeout"
WALL_TIMEOUT = 3600           # wall clock backstop only (a process that sleeps forever)


def sha(b):
    return hashlib.sha256(b).hexdigest()


# =====================================================================================================
# 1. raw tar writer
# =====================================================================================================

def enc_num(val, width, style):
    """encode a header number; None when the style cannot hold the value"""
    if style == "b256":
        if val >= 0:
            if val >= 1 << 55:
                return None
            return b"\x80" + val.to_bytes(width - 1, "big")
        if val < -(1 << 55):
            return None
        return b"\xff" + (val + (1 << (8 * (width - 1)))).to_bytes(width - 1, "big")
    if val < 0:
        return None
    digits = b"%o" % val
    if style == "nul" or style == "sp":
        if len(digits) > width - 1:
            return None
        return digits.rjust(width - 1, b"0") + (b"\0" if style == "nul" else b" ")
    if style == "full":                       # all digits, no terminator
        if len(digits) > width:
            return None
        return digits.rjust(width, b"0")
    if style == "lead":                       # leading blanks, NUL terminated
        if len(digits) > width - 1:
            return None
        return digits.rjust(width - 1, b" ") + b"\0"
    raise ValueError(style)


def pick_num(rng, hist, field, val, width, allowed):
    cands = [(s, enc_num(val, width, s)) for s in allowed]
    cands = [(s, b) for s, b in cands if b is not None]
    if not cands:
        return None
    # prefer the narrowest classical encodings most of the time, but exercise all
    s, b = rng.choice(cands)
    if s == "full" and len(b"%o" % val) < width and rng.random() < 0.7:
        # 'full' is only interesting when all digits are needed
        s2 = [c for c in cands if c[0] in ("nul", "sp")]
        if s2:
            s, b = rng.choice(s2)
    hist["num:%s:%s" % (field, s if not (s == "full" and len(b"%o" % val) == width) else "full-alldigits")] += 1
    return b


MAGIC = {"v7": b"\0" * 8, "gnu": b"ustar  \0", "ustar": b"ustar\x0000", "pax": b"ustar\x0000"}


def raw_header(name, mode, uid, gid, size, mtime, typeflag, linkname=b"", magic=MAGIC["ustar"], uname=b"",
               gname=b"", devmajor=b"0000000\0", devminor=b"0000000\0", tail=b""):
    """all numeric arguments are already encoded byte strings of the right width"""
    assert len(name) <= 100 and len(linkname) <= 100 and len(tail) <= 167, (len(name), len(linkname), len(tail))
    h = bytearray(512)
    h[0:len(name)] = name
    h[100:108] = mode
    h[108:116] = uid
    h[116:124] = gid
    h[124:136] = size
    h[136:148] = mtime
    h[148:156] = b" " * 8
    h[156:157] = typeflag
    h[157:157 + len(linkname)] = linkname
    h[257:265] = magic
    h[265:265 + len(uname)] = uname
    h[297:297 + len(gname)] = gname
    h[329:337] = devmajor
    h[337:345] = devminor
    h[345:345 + len(tail)] = tail
    h[148:156] = b"%06o\0 " % sum(h)
    return bytes(h)


def pad512(b):
    return b + b"\0" * (-len(b) % 512)


def pax_records(recs):
    out = b""
    for k, v in recs:
        body = b" " + k + b"=" + v + b"\n"
        n = len(body) + 1
        while len(b"%d" % n) + len(body) != n:
            n = len(b"%d" % n) + len(body)
        out += b"%d" % n + body
    return out


def simple_num(v, w):
    return enc_num(v, w, "nul")


def ext_record(typeflag, hname, payload, magic):
    return raw_header(hname, simple_num(0o644, 8), simple_num(0, 8), simple_num(0, 8), simple_num(len(payload), 12),
                      simple_num(0, 12), typeflag, magic=magic) + pad512(payload)


def split_ustar(name, rng):
    """possible (prefix, name) splits of a path for the POSIX header"""
    out = []
    for i, c in enumerate(name):
        if c == 0x2f and 0 < i <= 155 and 0 < len(name) - i - 1 <= 100:
            out.append((name[:i], name[i + 1:]))
    return out


def urlenc(key):
    return b"".join(bytes([c]) if (0x30 <= c <= 0x39 or 0x41 <= c <= 0x5a or 0x61 <= c <= 0x7a or c in b"._-") else
                    b"%%%02X" % c for c in key)


def sparse_stored(ent):
    return b"".join(ent.data[o:o + n] for o, n in ent.segs)


def encode_entry(ent, dialect, rng, hist, counter):
    """serialise one description entry in the given dialect; returns bytes"""
    out = b""
    magic = MAGIC[dialect]
    name, link = ent.name, (ent.link or b"")
    recs = []                                  # PAX records
    hname, hlink, tail = name, link, b""
    hist["namelen:%s" % lenclass(len(name))] += 1
    if ent.kind in ("symlink", "hardlink"):
        hist["linklen:%s" % lenclass(len(link))] += 1
    # ---- names
    if dialect == "v7":
        assert len(name) <= 100 and len(link) <= 100
    elif dialect == "gnu":
        if len(link) > 100 or (len(link) == 100 and rng.random() < 0.5):
            out += ext_record(b"K", b"././@LongLink", link + (b"\0" if rng.random() < 0.8 else b""), magic)
            hlink = link[:100]
            hist["longrec:gnu-K"] += 1
        if len(name) > 100 or (len(name) == 100 and rng.random() < 0.5):
            out += ext_record(b"L", b"././@LongLink", name + (b"\0" if rng.random() < 0.8 else b""), magic)
            hname = name[:100]
            hist["longrec:gnu-L"] += 1
    else:
        use_pax_name = False
        if len(name) > 100 or (dialect == "pax" and rng.random() < 0.15):
            splits = split_ustar(name, rng)
            if splits and not (dialect == "pax" and rng.random() < 0.5):
                pfx, hname = rng.choice(splits)
                tail = pfx
                hist["longrec:ustar-prefix"] += 1
                hist["prefixlen:%s" % lenclass(len(pfx))] += 1
            elif len(name) > 100 or dialect == "pax":
                use_pax_name = True
        elif dialect == "ustar" and len(name) > 3 and rng.random() < 0.3:
            splits = split_ustar(name, rng)
            if splits:
                pfx, hname = rng.choice(splits)
                tail = pfx
                hist["longrec:ustar-prefix"] += 1
        if use_pax_name:
            assert dialect == "pax", "name not representable in ustar"
            recs.append((b"path", name))
            hname = b"PaxName/%d" % counter
            hist["longrec:pax-path"] += 1
        if len(link) > 100 or (dialect == "pax" and link and rng.random() < 0.15):
            assert dialect == "pax", "link not representable in ustar"
            recs.append((b"linkpath", link))
            hlink = b"PaxLink/%d" % counter
            hist["longrec:pax-linkpath"] += 1
    # ---- numbers
    octal = ["nul", "sp", "full", "lead"]
    wide = octal + (["b256"] if dialect != "v7" else [])

    def num(field, val, width, paxkey=None):
        force = ent.tags.get("force_" + field)
        if force == "b256":
            hist["num:%s:b256" % field] += 1
            return enc_num(val, width, "b256")
        if dialect == "pax" and paxkey and (force == "pax" or rng.random() < 0.2 or enc_num(val, width, "full") is None):
            v = b"%d" % val
            if paxkey == b"mtime" and ent.mtime_frac:
                v += ent.mtime_frac
            recs.append((paxkey, v))
            hist["num:%s:pax" % field] += 1
            return enc_num(rng.choice([0, 1]) if paxkey != b"size" else 0, width, "nul")
        b = pick_num(rng, hist, field, val, width, wide if paxkey else octal)
        assert b is not None, "cannot encode %s=%d in %s" % (field, val, dialect)
        return b

    stored = b""
    typeflag = {"file": b"0", "hardlink": b"1", "symlink": b"2", "chr": b"3", "blk": b"4", "dir": b"5", "fifo": b"6"}[ent.kind]
    if ent.kind == "file":
        stored = ent.data
        if ent.sparse is None and rng.random() < 0.15 and not hname.endswith(b"/"):      # (python tarfile takes '\\0' + "x/" for a directory)
            typeflag = b"\0"
            hist["typeflag:nul-file"] += 1
    sp = ent.sparse if ent.kind == "file" else None
    hsize_val = len(stored)
    if sp:
        stored = sparse_stored(ent)
        if ent.bad_size is not None:                   # malformed stream: the map lies about the amount of data
            stored = (stored + b"\xaa" * ent.bad_size)[:ent.bad_size]
    if sp == "old":
        assert dialect == "gnu"
        hsize_val = len(stored)
        typeflag = b"S"
    elif sp in ("0.0", "0.1", "1.0"):
        assert dialect == "pax"
        real = len(ent.data) if ent.real_size is None else ent.real_size
        if sp == "0.0":
            recs += [(b"GNU.sparse.size", b"%d" % real), (b"GNU.sparse.numblocks", b"%d" % len(ent.segs))]
            for o, n in ent.segs:
                recs += [(b"GNU.sparse.offset", b"%d" % o), (b"GNU.sparse.numbytes", b"%d" % n)]
        elif sp == "0.1":
            recs += [(b"GNU.sparse.size", b"%d" % real), (b"GNU.sparse.numblocks", b"%d" % len(ent.segs)),
                     (b"GNU.sparse.map", b",".join(b"%d,%d" % s for s in ent.segs))]
        else:
            recs += [(b"GNU.sparse.major", b"1"), (b"GNU.sparse.minor", b"0"), (b"GNU.sparse.realsize", b"%d" % real)]
            m = b"%d\n" % len(ent.segs) + b"".join(b"%d\n%d\n" % s for s in ent.segs)
            hist["sparse-1.0-mapblocks:%d" % min((len(m) + 511) // 512, 4)] += 1
            stored = pad512(m) + stored
        if sp != "0.0" or rng.random() < 0.7:
            if not any(k == b"path" for k, _ in recs):
                recs.append((b"GNU.sparse.name", name))
                hname = b"GNUSparseFile.%d/%d" % (counter, counter)
                hist["longrec:pax-sparse-name"] += 1
        hsize_val = len(stored)
    if sp:
        hist["sparse:%s:segs-%s" % (sp, segclass(len(ent.segs)))] += 1
    if ent.kind in ("hardlink", "symlink", "dir", "chr", "blk", "fifo"):
        hsize_val = 0
    mode = num("mode", ent.mode, 8)
    uid = num("uid", ent.uid, 8, b"uid")
    gid = num("gid", ent.gid, 8, b"gid")
    size = num("size", hsize_val, 12, b"size" if ent.kind == "file" and not sp else None)
    mtime = num("mtime", ent.mtime, 12, b"mtime") if not (dialect == "pax" and ent.mtime_frac) else None
    if mtime is None:
        recs.append((b"mtime", b"%d" % ent.mtime + ent.mtime_frac))
        hist["num:mtime:pax-fraction"] += 1
        mtime = simple_num(0, 12)
    dmaj = num("devmajor", ent.major, 8) if ent.kind in ("chr", "blk") else simple_num(0, 8)
    dmin = num("devminor", ent.minor, 8) if ent.kind in ("chr", "blk") else simple_num(0, 8)
    if dialect == "v7" and ent.kind not in ("chr", "blk"):
        dmaj = dmin = b"\0" * 8
    # ---- xattrs
    for k, v in ent.xattrs:
        if ent.xattr_style == "libarchive":
            recs.append((b"LIBARCHIVE.xattr." + urlenc(k), base64.b64encode(v) if rng.random() < 0.5 else base64.b64encode(v).rstrip(b"=")))
            hist["xattr:libarchive"] += 1
        else:
            recs.append((b"SCHILY.xattr." + k, v))
            hist["xattr:schily%s" % ("-binary" if any(c in v for c in b"=\n\0") or any(c > 127 for c in v) else "")] += 1
    if sp == "old":
        segs = list(ent.segs)
        t = bytearray(167)                     # atime ctime offset longnames unused sparse[4] isextended realsize
        for i, (o, n) in enumerate(segs[:4]):
            t[41 + 24 * i:41 + 24 * i + 24] = enc_num(o, 12, "nul") + enc_num(n, 12, "nul")
        rest = segs[4:]
        t[137] = 1 if rest else 0
        t[138:150] = enc_num(len(ent.data) if ent.real_size is None else ent.real_size, 12, rng.choice(["nul", "sp"]))
        tail = bytes(t)
        ext = b""
        while rest:
            blk = bytearray(512)
            for i, (o, n) in enumerate(rest[:21]):
                blk[24 * i:24 * i + 24] = enc_num(o, 12, "nul") + enc_num(n, 12, "nul")
            rest = rest[21:]
            blk[504] = 1 if rest else 0
            ext += bytes(blk)
            hist["sparse:old:extblocks"] += 1
        stored = ext + pad512(stored)          # extension blocks are not counted in the size field
    if recs:
        assert dialect == "pax"
        rng.shuffle(recs) if not any(k.startswith(b"GNU.sparse.") for k, _ in recs) else None
        out += ext_record(b"x", b"PaxHeaders/%d" % counter, pax_records(recs), magic)
    out += raw_header(hname, mode, uid, gid, size, mtime, typeflag, hlink, magic, b"" if dialect == "v7" else ent.uname,
                      b"" if dialect == "v7" else ent.gname, dmaj, dmin, tail)
    out += pad512(stored)
    return out


def lenclass(n):
    if n in BOUND_NAME_LENS or n in (0, 1):
        return str(n)
    for lo, hi in ((2, 98), (102, 153), (157, 254), (258, 999), (1001, 10 ** 9)):
        if lo <= n <= hi:
            return "%d-%s" % (lo, hi if hi < 10 ** 9 else "")
    return str(n)


def segclass(n):
    return str(n) if n <= 4 else ("5-25" if n <= 25 else ("26-46" if n <= 46 else ">46"))


# =====================================================================================================
# 2. archive generator (description first, bytes second)
# =====================================================================================================

ALL_KINDS = ("file", "dir", "symlink", "hardlink", "chr", "blk", "fifo")
CAP = {
    "v7": dict(maxname=100, maxlink=100, maxid=8 ** 8 - 1, mt=(0, 8 ** 12 - 1), kinds=("file", "dir", "symlink", "hardlink"), pax=False, split=False),
    "gnu": dict(maxname=3000, maxlink=3000, maxid=U32, mt=(-2 ** 40, 2 ** 40), kinds=ALL_KINDS, pax=False, split=False),
    "ustar": dict(maxname=256, maxlink=100, maxid=U32, mt=(-2 ** 40, 2 ** 40), kinds=ALL_KINDS, pax=False, split=True),
    "pax": dict(maxname=3000, maxlink=3000, maxid=U32, mt=(-2 ** 40, 2 ** 40), kinds=ALL_KINDS, pax=True, split=False),
    "tf-ustar": dict(maxname=256, maxlink=100, maxid=8 ** 7 - 1, mt=(0, 8 ** 11 - 1), kinds=ALL_KINDS, pax=False, split=True),
    "tf-gnu": dict(maxname=3000, maxlink=3000, maxid=U32, mt=(-2 ** 40, 2 ** 40), kinds=ALL_KINDS, pax=False, split=False),
    "tf-pax": dict(maxname=3000, maxlink=3000, maxid=U32, mt=(-2 ** 40, 2 ** 40), kinds=ALL_KINDS, pax=True, split=False),
}
DIALECTS = list(CAP)
LETTERS = b"abcdefghijklmnopqrstuvwxyz0123456789_-"


def mk_ent(kind, name, **kw):
    e = NS(kind=kind, name=name, mode=0o644, uid=0, gid=0, mtime=0, mtime_frac=b"", link=None, major=0, minor=0, data=b"",
           sparse=None, segs=None, bad_size=None, real_size=None, xattrs=[], xattr_style="schily", uname=b"", gname=b"", tags={})
    e.__dict__.update(kw)
    return e


def gen_comp(rng, n, fancy=True):
    """a path component of exactly n bytes that is neither '.' nor '..'"""
    b = bytearray(rng.choice(LETTERS) for _ in range(n))
    if fancy and n >= 4:
        r = rng.random()
        if r < 0.10:
            i = rng.randrange(1, n - 2)
            b[i:i + 2] = b"\xc3\xa9"
        elif r < 0.17:
            b[rng.randrange(1, n - 1)] = 0x20
        elif r < 0.22:
            b[rng.randrange(1, n - 1)] = 0x22
        elif r < 0.30:
            b[0] = 0x2e
        elif r < 0.34:
            b[rng.randrange(1, n - 1)] = 0xe4          # invalid UTF-8 on purpose
    return bytes(b)


def ustar_ok(dialect, name):
    if len(name) <= 100:
        return True
    if dialect == "tf-ustar":                          # tarfile's own splitting rule
        p = name[:156]
        while p and p[-1:] != b"/":
            p = p[:-1]
        rest = name[len(p):]
        return bool(p[:-1]) and len(rest) <= 100 and len(rest) > 0
    return bool(split_ustar(name, None))


class Plan:
    def __init__(self, rng, dialect, top=b""):
        self.rng, self.dialect, self.cap, self.top = rng, dialect, CAP[dialect], top
        self.dirs = {top: "implicit"}                  # canonical path -> implicit/explicit
        self.used = {top}
        self.nondirs = []                              # (cpath, kind)
        self.entries = []
        self.n = 0

    def join(self, d, c):
        return d + b"/" + c if d else c

    def fresh(self, parent=None, total=None, maxcomp=None, fancy=True):
        """a new unused canonical path; `total` = exact length of the whole path"""
        rng = self.rng
        for _ in range(200):
            if parent is None:
                par = rng.choice(sorted(self.dirs))
            else:
                par = parent
            if total is None:
                comps = [gen_comp(rng, rng.choice([1, 2, 3, 5, 8, 12, 20, 31]), fancy) for _ in range(rng.choice([1, 1, 1, 2, 3]))]
                self.n += 1
                comps[-1] = comps[-1] + b"%d" % self.n
                p = par
                for c in comps:
                    p = self.join(p, c)
            else:
                need = total - (len(par) + 1 if par else 0)
                if need < 1:
                    par = self.top
                    need = total - (len(par) + 1 if par else 0)
                    if need < 1:
                        return None
                mc = maxcomp or rng.choice([30, 60, 99, 100, 150, 255])
                comps = []
                while need > 0:
                    n = min(need, rng.randint(max(1, mc // 2), mc))
                    if need - n == 1:                  # would leave room for a '/' only
                        n = n - 1 if n > 1 else n + 1
                        if n > mc and n > 1:
                            n -= 2
                    if n < 1:
                        n = 1
                    comps.append(gen_comp(rng, n, fancy))
                    need -= n + 1
                if need != -1:
                    continue
                p = par
                for c in comps:
                    p = self.join(p, c)
                if len(p) != total:
                    continue
            if p in self.used:
                continue
            if self.cap["split"] and not ustar_ok(self.dialect, p + b"/"):
                continue
            if len(p) + 1 > self.cap["maxname"] and total is None:
                continue
            # every proper ancestor must be (or become) a directory
            anc, okp, q = [], True, p
            while b"/" in q:
                q = q.rsplit(b"/", 1)[0]
                if q in self.used and q not in self.dirs:
                    okp = False
                anc.append(q)
            if not okp:
                continue
            for a in anc:
                if a not in self.dirs and a != b"":
                    self.dirs[a] = "implicit"
                    self.used.add(a)
            self.used.add(p)
            return p
        return None

    def raw(self, cpath, isdir=False, exact=False):
        """one of the spellings of a canonical path that the code must treat alike"""
        rng = self.rng
        name = cpath
        if not exact:
            r = rng.random()
            if r < 0.15:
                name = b"./" + name
            elif r < 0.25:
                name = b"/" + name
            elif r < 0.30 and b"/" in name:
                i = name.index(b"/")
                name = name[:i] + rng.choice([b"//", b"/./"]) + name[i + 1:]
            if isdir and rng.random() < 0.7:
                name += b"/"
            if len(name) > self.cap["maxname"] or (self.cap["split"] and not ustar_ok(self.dialect, name.rstrip(b"/") + (b"/" if isdir else b""))):
                name = cpath
        return name

    def attrs(self, e, boundary=False):
        rng, cap = self.rng, self.cap
        ids = [i for i in BOUND_IDS if i <= cap["maxid"]]
        pool = [0, 0, 1000, 1000, 65534, 12345] + (ids if boundary or rng.random() < 0.3 else [])
        e.uid, e.gid = min(rng.choice(pool), cap["maxid"]), min(rng.choice(pool), cap["maxid"])
        mts = [m for m in BOUND_MTIMES if cap["mt"][0] <= m <= cap["mt"][1]]
        mp = [1500000000, 1, 1234567890, 2 ** 31 - 1] + (mts if boundary or rng.random() < 0.3 else [])
        e.mtime = rng.choice(mp)
        if self.dialect in ("pax", "tf-pax") and rng.random() < 0.15:
            e.mtime_frac = rng.choice([b".5", b".000000001", b".999999999", b".25"])
        e.mode = rng.choice([0o644, 0o755, 0o600, 0o4755, 0o1777, 0, 0o7777, 0o2750, rng.randrange(0o10000)])
        e.uname, e.gname = rng.choice([(b"", b""), (b"root", b"wheel"), (b"user", b"users")])
        if cap["pax"] and e.kind != "hardlink" and rng.random() < 0.25:
            gen_xattrs(rng, e)
        return e

    def add(self, e, cpath=None):
        self.entries.append(e)
        if cpath is not None and e.kind != "dir":
            self.nondirs.append((cpath, e.kind))
        return e

    def add_dir(self, cpath=None, **kw):
        if cpath is None:
            cpath = self.fresh()
            if cpath is None:
                return None
        self.dirs[cpath] = "explicit"
        return self.add(self.attrs(mk_ent("dir", self.raw(cpath, True), **kw)), cpath)

    def add_file(self, data, cpath=None, exact=False, **kw):
        cpath = cpath or self.fresh()
        if cpath is None:
            return None
        return self.add(self.attrs(mk_ent("file", self.raw(cpath, False, exact), data=data, **kw)), cpath)


def gen_xattrs(rng, e, style=None, force_binary=False):
    e.xattr_style = style or rng.choice(["schily", "schily", "libarchive"])
    keys = [b"user.k1", b"user.mime_type", b"trusted.overlay.opaque", b"security.selinux", b"security.capability",
            b"user.\xc3\xa9", b"system.posix_acl_access", b"user.a.b.c"]
    rng.shuffle(keys)
    if rng.random() < 0.93:                                # non-ASCII keys trip a UBSan report in str_table.c; keep them rare
        keys = [k for k in keys if max(k) < 128]
    e.xattrs = []
    for k in keys[:rng.randint(1, 4)]:
        r = rng.random()
        if force_binary or r < 0.35:
            v = bytes(rng.choice([0x3d, 0x0a, 0, 0xff, 0x80, 0x41, 0x20, 0x25]) for _ in range(rng.randint(1, 40)))
        elif r < 0.45:
            v = b""
        elif r < 0.55:
            v = rng.randbytes(rng.choice([1, 2, 3, 4, 5, 255, 256, 1000]))
        else:
            v = rng.choice([b"text/plain", b"y", b"system_u:object_r:etc_t:s0", b"a=b", b"line1\nline2\n"])
        e.xattrs.append((k, v))


def gen_data(rng, n):
    if n <= 4096:
        return rng.randbytes(n)
    blk = rng.randbytes(1024)
    reps = n // 1024 + 1
    b = bytearray(blk * reps)[:n]
    for _ in range(min(64, n // 4096 + 1)):            # keep it compressible but not periodic
        i = rng.randrange(n)
        b[i] = rng.randrange(256)
    return bytes(b)


def _gen_sparse_map(rng, nsegs, layout=None):
    """(segs, content): data regions in increasing order; holes are zeros"""
    layout = layout or rng.choice(["hole-start", "hole-end", "hole-end-zero-entry", "adjacent", "both", "dense"])
    pos = 0
    if layout in ("hole-start", "both"):
        pos = rng.choice([1, 511, 512, 513, 4096, 10000, 131072])
    segs, parts, cur = [], [], 0
    for i in range(nsegs):
        gap = 0 if (layout == "adjacent" and rng.random() < 0.6) or layout == "dense" else rng.choice([0, 1, 512, 1000, 4096, 5000])
        if i:
            pos += gap
        n = rng.choice([1, 100, 511, 512, 513, 1024, 1500]) if nsegs > 8 else rng.choice([1, 512, 4096, 5000, 9000])
        segs.append((pos, n))
        pos += n
    real = pos
    if layout in ("hole-end", "hole-end-zero-entry", "both"):
        real = pos + rng.choice([1, 512, 4096, 100000])
        if layout != "hole-end" or rng.random() < 0.5:
            segs.append((real, 0))
    buf = bytearray(real)
    for o, n in segs:
        buf[o:o + n] = rng.randbytes(n)
    return segs, bytes(buf), layout


def gen_opts(rng, profile, quick=True):
    o = dict(rb=None, S=False, x=False, k=False, defaults=None, bs=None, comp=None, T=False, j=rng.choice([1, 1, 2, 4]), sde=None)
    r = rng.random
    if r() < 0.15:
        o["x"] = True
    if r() < 0.15:
        o["k"] = True
    if r() < 0.35:
        d = {}
        if r() < 0.6:
            d["uid"] = rng.choice([1000, 0, 2 ** 31 - 1, 4711])
        if r() < 0.6:
            d["gid"] = rng.choice([100, 0, 2 ** 31 - 1])
        if r() < 0.6:
            d["mode"] = rng.choice([0o700, 0o755, 0o1777, 0, 0o7777])
        if r() < 0.6:
            d["mtime"] = rng.choice([0, 1, 1234567890, 2 ** 32 - 1])
        o["defaults"] = d or None
    if r() < 0.5:
        o["bs"] = 4096
    if r() < 0.3:
        o["comp"] = rng.choice(["gzip", "gzip", "xz", "zstd", "lz4"])
    if r() < 0.2:
        o["T"] = True
    if r() < 0.15:
        o["sde"] = rng.choice([0, 1, 1700000000, 2 ** 32 - 1])
    return o


def defaults_of(o):
    d = dict(uid=0, gid=0, mode=0o755, mtime=o["sde"] or 0)
    d.update(o["defaults"] or {})
    return d


def t2s_argv(o):
    a = ["-q", "-f", "-j", str(o["j"])]
    if o["rb"] is not None:
        a += ["-r", o.get("rb_arg", o["rb"])]
    if o["S"]:
        a.append("-S")
    if o["x"]:
        a.append("--no-xattr")
    if o["k"]:
        a.append("--no-keep-time")
    if o["defaults"]:
        a += ["--defaults", ",".join("%s=%s" % (k, ("0%o" % v) if k == "mode" else v) for k, v in o["defaults"].items())]
    if o["bs"]:
        a += ["-b", str(o["bs"])]
    if o["comp"]:
        a += ["-c", o["comp"]]
    if o["T"]:
        a.append("--no-tail-packing")
    return a


SYM_PLAIN = [b"../lib/x", b"usr/bin/foo", b"x", b"a/b.c", b"..", b"../../etc/passwd", b"target with space", b"t\xc3\xa9"]
SYM_MESSY = [b"/usr/bin/foo", b"a//b", b"dir/", b"./x", b"./x/../y", b"/../x", b"x/.", b"/", b"//net//share/", b"/abs/./p"]


def gen_symlink_target(rng, cap, rb=None, cls=None):
    """(target, class) ; class in plain / messy / prefixed"""
    cls = cls or rng.choice(["plain", "plain", "messy", "prefixed" if rb else "plain", "long"])
    if cls == "prefixed" and rb:
        rest = rng.choice([b"x/y", b"bin/sh", b"a", b"lib//z/"])
        return rng.choice([rb + b"/" + rest, b"/" + rb + b"/" + rest, b"./" + rb + b"/" + rest, rb + b"//" + rest]), cls
    if cls == "messy":
        return rng.choice(SYM_MESSY + ([rb + b"/", b"/" + rb, rb + b"foo//x"] if rb else [])), cls
    if cls == "long":
        n = min(rng.choice([99, 100, 101, 255, 256, 257, 1000]), cap["maxlink"])
        t = b"/".join(gen_comp(rng, 19, False) for _ in range(n // 20 + 1))[:n]
        if t.endswith(b"/"):
            t = t[:-1] + b"z"
        return t, "plain"
    return rng.choice(SYM_PLAIN + ([rb, rb + b"foo/x"] if rb else [])), "plain"


def pick_dialect(rng, want=None):
    return rng.choice(want or DIALECTS)


def populate(plan, rng, n, quick, bs, sym_cls=None, rb=None):
    """add n random entries of all kinds to a plan"""
    cap = plan.cap
    kinds = [k for k in ["file"] * 7 + ["dir"] * 4 + ["symlink"] * 3 + ["hardlink"] * 2 + ["chr", "blk", "fifo", "redir"]
             if k in cap["kinds"] or k == "redir"]
    for _ in range(n):
        k = rng.choice(kinds)
        if k == "file":
            sz = rng.choice([0, 1, 5, 100, 511, 512, 513, 2000, bs - 1, bs, bs + 1] + ([2 * bs, 3 * bs + 17] if rng.random() < 0.3 else []))
            plan.add_file(gen_data(rng, sz))
        elif k == "dir":
            plan.add_dir()
        elif k == "redir":                               # explicit entry for a so far implicit directory
            imp = sorted(d for d, s in plan.dirs.items() if s == "implicit" and d != plan.top)
            if imp:
                plan.add_dir(rng.choice(imp))
        elif k == "symlink":
            p = plan.fresh()
            if p:
                t, c = gen_symlink_target(rng, cap, rb, sym_cls and rng.choice(sym_cls))
                plan.add(plan.attrs(mk_ent("symlink", plan.raw(p), link=t, tags={"symcls": c})), p)
        elif k == "hardlink":
            if plan.nondirs:
                tgt, tk = rng.choice(plan.nondirs)
                p = plan.fresh()
                if p:
                    raw_t = rng.choice([tgt, tgt, b"./" + tgt, b"/" + tgt])
                    if len(raw_t) > cap["maxlink"]:
                        raw_t = tgt
                    if len(raw_t) <= cap["maxlink"]:
                        plan.add(plan.attrs(mk_ent("hardlink", plan.raw(p), link=raw_t, tags={"hl": tk})), p)
        elif k in ("chr", "blk"):
            p = plan.fresh()
            if p:
                plan.add(plan.attrs(mk_ent(k, plan.raw(p), major=rng.choice([0, 1, 4, 8, 255, 256, 300, 4095]),
                                           minor=rng.choice([0, 1, 64, 255, 256, 70000, 2 ** 20 - 1]))), p)
        elif k == "fifo":
            p = plan.fresh()
            if p:
                plan.add(plan.attrs(mk_ent("fifo", plan.raw(p))), p)


def shuffle_hardlinks(plan, rng):
    """move some hard link records in front of their target"""
    es = plan.entries
    for e in [x for x in es if x.kind == "hardlink"]:
        if rng.random() < 0.45:
            es.remove(e)
            es.insert(rng.randrange(len(es) + 1), e)


def split_len(rng, need, mc):
    sizes = []
    while need > 0:
        n = need if need <= mc else rng.randint(max(2, mc // 2), mc)
        if need - n == 1:
            n -= 1
        sizes.append(n)
        need -= n
        if need > 0:
            need -= 1
    return sizes


def path_of_len(plan, rng, total, maxcomp=None, fancy=True, isdir=False):
    """fresh canonical path of exactly `total` bytes below plan.top"""
    for _ in range(300):
        par = plan.top
        need = total - (len(par) + 1 if par else 0)
        if need < 1:
            return None
        if plan.cap["split"] and total > 100 and not par:
            # POSIX header: prefix (<=155) '/' name (<=100); build the split point on purpose
            lo, hi = max(1, total - 101 - (1 if isdir else 0)), min(155, total - 2)
            if lo > hi:
                return None
            l1 = rng.randint(lo, hi)
            comps = [gen_comp(rng, n, fancy) for n in split_len(rng, l1, rng.choice([30, 60, 99]))] + [gen_comp(rng, total - l1 - 1, fancy)]
        else:
            comps = [gen_comp(rng, n, fancy) for n in split_len(rng, need, maxcomp or rng.choice([30, 60, 99, 100, 150, 255]))]
        p = par
        for c in comps:
            p = plan.join(p, c)
        assert len(p) == total, (len(p), total)
        if p in plan.used or any(len(c) > 255 for c in comps if not maxcomp):
            continue
        if plan.cap["split"] and not ustar_ok(plan.dialect, p + (b"/" if isdir else b"")):
            continue
        q = p
        bad = False
        while b"/" in q:
            q = q.rsplit(b"/", 1)[0]
            if q in plan.used and q not in plan.dirs:
                bad = True
        if bad:
            continue
        q = p
        while b"/" in q:
            q = q.rsplit(b"/", 1)[0]
            if q not in plan.dirs:
                plan.dirs[q] = "implicit"
                plan.used.add(q)
        plan.used.add(p)
        return p
    return None


RB_CHOICES = [(b"rootfs", "rootfs"), (b"a/b", "a/b"), (b"R", "./R/"), (b"rootfs", "/rootfs//")]


def gen_case(profile, idx, seed, quick=True):
    """deterministic: (profile, idx, seed) -> case (description + archive bytes + tar2sqfs options)"""
    rng = random.Random("%s/%d/%d/%d" % (profile, idx, seed, GEN_VERSION))
    c = NS(profile=profile, idx=idx, seed=seed, quick=quick, hist=collections.Counter(), expect_fail=None, probe=None,
           after=None, dialect=None, entries=[], archive=b"", opts=None, seedfile=None, big_comp=False)
    if profile.startswith("seed:"):
        c.seedfile = profile[5:]
        c.archive = (vlib.REPO / c.seedfile).read_bytes()
        c.dialect = "seed"
        c.opts = gen_opts(rng, profile)
        c.opts["rb"] = None
        c.entries = describe_with_tarfile(c.archive)
        return c
    o = gen_opts(rng, profile)
    bs = o["bs"] or 131072
    if bs == 131072 and rng.random() < 0.6:
        bs = 4096                                       # only used to pick sizes; keeps default-block runs cheap
    g = globals()["gen_" + profile.split(":")[0]]
    g(c, rng, o, bs)
    c.opts = o
    build_archive(c, rng)
    return c


def gen_mixed(c, rng, o, bs):
    c.dialect = pick_dialect(rng)
    top = b""
    if rng.random() < 0.3:
        o["rb"], o["rb_arg"] = rng.choice(RB_CHOICES)
        o["S"] = rng.random() < 0.3
        top = o["rb"]
    plan = Plan(rng, c.dialect, top)
    if rng.random() < 0.35:                             # entry for the (future) root inode
        nm = (top + rng.choice([b"", b"/"])) if top else rng.choice([b"./", b"/", b".", b"//"])
        plan.entries.append(plan.attrs(mk_ent("dir", nm)))
    populate(plan, rng, rng.randint(3, 14), c.quick, bs, rb=o["rb"])
    if top:                                             # entries outside the new root are dropped
        out = Plan(rng, c.dialect, b"")
        out.used |= {top.split(b"/")[0]}
        populate(out, rng, rng.randint(0, 3), c.quick, bs)
        out.add_file(b"x", cpath=top + b"foo") if len(top) < 20 and top + b"foo" not in out.used else None
        for e in out.entries:
            plan.entries.insert(rng.randrange(len(plan.entries) + 1), e)
    shuffle_hardlinks(plan, rng)
    c.entries = plan.entries


def gen_names(c, rng, o, bs):
    """boundary lengths of member names and link targets"""
    which = ["name", "symlink", "hardlink"][c.idx % 3]
    total = BOUND_NAME_LENS[(c.idx // 3) % len(BOUND_NAME_LENS)]
    cands = ["gnu", "pax", "tf-gnu", "tf-pax"]
    if which == "name" and total <= 256:
        cands += ["ustar", "tf-ustar"]
    if total <= 100:
        cands += ["v7", "ustar", "tf-ustar"]
    c.dialect = rng.choice(cands)
    plan = Plan(rng, c.dialect)
    populate(plan, rng, 2, c.quick, bs)
    if which == "name":
        k = rng.choice(["file", "file", "dir", "symlink"])
        p = path_of_len(plan, rng, total, isdir=(k == "dir"))
        if p is None:
            p = plan.fresh()
        if k == "dir":
            plan.dirs[p] = "explicit"
            plan.add(plan.attrs(mk_ent("dir", p)), p)
        elif k == "symlink":
            plan.add(plan.attrs(mk_ent("symlink", p, link=b"x")), p)
        else:
            plan.add(plan.attrs(mk_ent("file", p, data=rng.randbytes(7))), p)
        c.hist["boundary:name:%d" % len(p)] += 1
    elif which == "symlink":
        t = b"/".join(gen_comp(rng, n) for n in split_len(rng, total, rng.choice([30, 99, 255])))
        p = plan.fresh()
        plan.add(plan.attrs(mk_ent("symlink", plan.raw(p), link=t)), p)
        c.hist["boundary:symlink-target:%d" % len(t)] += 1
    else:
        tp = path_of_len(plan, rng, total) or plan.fresh()
        plan.add(plan.attrs(mk_ent("file", tp, data=rng.randbytes(9))), tp)
        p = plan.fresh(parent=b"")
        plan.add(plan.attrs(mk_ent("hardlink", plan.raw(p), link=tp)), p)
        c.hist["boundary:hardlink-target:%d" % len(tp)] += 1
    shuffle_hardlinks(plan, rng)
    c.entries = plan.entries


def gen_comp255(c, rng, o, bs):
    """single components of exactly 255 / 256 bytes"""
    n = [255, 256, 257, 300, 255, 256, 257, 1000][c.idx % 8]
    c.dialect = rng.choice(["gnu", "pax", "tf-gnu", "tf-pax"])
    plan = Plan(rng, c.dialect)
    d = plan.fresh(parent=b"")
    p = plan.join(d, gen_comp(rng, n, False))
    plan.used.add(p)
    plan.dirs.setdefault(d, "implicit")
    plan.add(plan.attrs(mk_ent("file", p, data=b"component-%d" % n)), p)
    plan.add_file(b"after")
    c.big_comp = n > 255
    c.hist["boundary:component:%d" % n] += 1
    c.entries = plan.entries


def gen_nums(c, rng, o, bs):
    """boundary uid/gid/mtime values through every numeric encoding the dialect offers"""
    c.dialect = rng.choice(["gnu", "ustar", "pax", "pax", "tf-gnu", "tf-pax", "v7", "tf-ustar"])
    plan = Plan(rng, c.dialect)
    cap = plan.cap
    ids = [i for i in BOUND_IDS if i <= cap["maxid"]]
    mts = [m for m in BOUND_MTIMES if cap["mt"][0] <= m <= cap["mt"][1]]
    for j in range(rng.randint(3, 6)):
        k = rng.choice(["file", "dir", "symlink" if "symlink" in cap["kinds"] else "file"])
        p = plan.fresh()
        e = mk_ent(k, plan.raw(p, k == "dir"), link=b"tgt" if k == "symlink" else None, data=b"n" * j if k == "file" else b"")
        plan.attrs(e)
        e.uid = ids[(c.idx + j) % len(ids)]
        e.gid = ids[(c.idx * 3 + j + 1) % len(ids)]
        e.mtime = mts[(c.idx + 2 * j) % len(mts)]
        for f, v in (("uid", e.uid), ("gid", e.gid), ("mtime", e.mtime)):
            c.hist["boundary:%s:%d" % (f, v)] += 1
        if k == "dir":
            plan.dirs[p] = "explicit"
        plan.add(e, p)
    c.entries = plan.entries


def gen_sizes(c, rng, o, bs):
    o["bs"] = bs = 4096 if c.idx % 4 else None or 4096
    if c.idx % 4 == 0:
        o["bs"], bs = None, 131072
    sizes = [0, 1, 511, 512, 513, bs - 1, bs, bs + 1, 2 * bs]
    c.dialect = pick_dialect(rng)
    plan = Plan(rng, c.dialect)
    k = c.idx // 4
    for j in range(3):
        sz = sizes[(3 * k + j) % len(sizes)]
        plan.add_file(gen_data(rng, sz))
        c.hist["boundary:size:%s" % ({bs - 1: "bs-1", bs: "bs", bs + 1: "bs+1", 2 * bs: "2bs"}.get(sz, sz))] += 1
        c.hist["boundary:blocksize:%d" % bs] += 1
    populate(plan, rng, 2, c.quick, bs)
    c.entries = plan.entries


def gen_sparse_(c, rng, o, bs, bad=None):
    fmt = ["old", "0.0", "0.1", "1.0"][c.idx % 4]
    c.dialect = "gnu" if fmt == "old" else "pax"
    plan = Plan(rng, c.dialect)
    populate(plan, rng, rng.randint(0, 2), c.quick, bs)
    nseg = [1, 2, 4, 5, 6, 25, 26, 30, 47, 70][(c.idx // 4) % 10] if rng.random() < 0.8 else rng.randint(1, 90)
    segs, content, layout = _gen_sparse_map(rng, nseg)
    p = plan.fresh()
    e = plan.attrs(mk_ent("file", plan.raw(p) if fmt == "old" else p, data=content, sparse=fmt, segs=segs))
    if len(e.name) > 100 and fmt == "old":
        pass
    plan.add(e, p)
    c.hist["sparse-layout:%s" % layout] += 1
    return plan, e


def gen_sparse(c, rng, o, bs):
    plan, e = gen_sparse_(c, rng, o, bs)
    populate(plan, rng, rng.randint(1, 3), c.quick, bs)
    c.entries = plan.entries


def gen_retarget(c, rng, o, bs):
    """--root-becomes with symlinks: prefixed (retargeted), untouched, and (idx%3 != 0) non-canonical unprefixed ones"""
    c.dialect = pick_dialect(rng, ["gnu", "pax", "ustar", "tf-gnu", "tf-pax", "tf-ustar", "v7"])
    o["rb"], o["rb_arg"] = RB_CHOICES[c.idx % len(RB_CHOICES)]
    o["S"] = (c.idx % 5 == 4)
    rb = o["rb"]
    plan = Plan(rng, c.dialect, rb)
    if rng.random() < 0.5:
        plan.entries.append(plan.attrs(mk_ent("dir", rb + rng.choice([b"", b"/"]))))
    classes = ["plain", "prefixed"] if c.idx % 3 == 0 else ["plain", "prefixed", "messy", "messy"]
    for _ in range(rng.randint(3, 7)):
        p = plan.fresh()
        t, cl = gen_symlink_target(rng, plan.cap, rb, rng.choice(classes))
        plan.add(plan.attrs(mk_ent("symlink", plan.raw(p), link=t, tags={"symcls": cl})), p)
        c.hist["retarget-symlink:%s%s" % (cl, "-S" if o["S"] else "")] += 1
    populate(plan, rng, rng.randint(1, 4), c.quick, bs, sym_cls=classes, rb=rb)
    if plan.nondirs and "hardlink" in plan.cap["kinds"]:                # hard link whose target carries the prefix
        tgt, tk = rng.choice(plan.nondirs)
        p = plan.fresh()
        lk = rng.choice([tgt, b"/" + tgt, b"./" + tgt])
        lk = lk if len(lk) <= plan.cap["maxlink"] else tgt
        if p and len(lk) <= plan.cap["maxlink"]:
            plan.add(plan.attrs(mk_ent("hardlink", plan.raw(p), link=lk)), p)
    plan.entries.insert(rng.randrange(len(plan.entries) + 1), mk_ent("file", b"outside/" + rb, data=b"dropped"))
    shuffle_hardlinks(plan, rng)
    c.entries = plan.entries


def gen_xattr(c, rng, o, bs):
    c.dialect = rng.choice(["pax", "pax", "tf-pax"])
    o["x"] = (c.idx % 6 == 5)
    plan = Plan(rng, c.dialect)
    populate(plan, rng, rng.randint(3, 8), c.quick, bs)
    if rng.random() < 0.5:
        plan.entries.insert(0, plan.attrs(mk_ent("dir", b"./")))
    style = ["schily", "libarchive", None][c.idx % 3] if c.dialect == "pax" else "schily"
    for e in plan.entries:
        if e.kind != "hardlink" and rng.random() < 0.7:
            gen_xattrs(rng, e, style, force_binary=(c.idx % 2 == 1 and rng.random() < 0.5))
    c.entries = plan.entries


PROBES = ["id:uid:pax:4294967296", "id:gid:pax:8589934597", "id:uid:b256:4294967296", "id:gid:b256:8589934597",
          "id:uid:pax:4294967297", "dev:major:4096", "dev:minor:1048576", "dev:major:2097151",
          "fail:dup-dir", "fail:dup-file", "fail:dotdot-name", "fail:parent-not-dir", "fail:hardlink-to-dir",
          "fail:hardlink-missing", "fail:hardlink-loop", "fail:root-not-dir", "fail:dir-over-file"]


def gen_probe(c, rng, o, bs):
    pr = PROBES[c.idx % len(PROBES)].split(":")
    o["rb"] = None
    c.dialect = "pax" if "pax" in pr else "gnu"
    plan = Plan(rng, c.dialect)
    populate(plan, rng, rng.randint(1, 3), c.quick, bs)
    if pr[0] == "id":
        p = plan.fresh()
        e = plan.attrs(mk_ent("file", p, data=b"id-probe"))
        e.xattrs = []
        setattr(e, pr[1], int(pr[3]))
        e.tags["force_" + pr[1]] = pr[2]
        plan.add(e, p)
        c.probe = dict(kind="id-truncate", field=pr[1], enc=pr[2], value=int(pr[3]), path=p)
    elif pr[0] == "dev":
        p = plan.fresh()
        e = plan.attrs(mk_ent(rng.choice(["chr", "blk"]), p, major=7, minor=9))
        e.xattrs = []
        setattr(e, pr[1], int(pr[2]))
        plan.add(e, p)
        c.probe = dict(kind="devno-truncate", field=pr[1], enc="octal", value=int(pr[2]), path=p)
    else:
        what = pr[1]
        c.expect_fail = what
        d = plan.fresh(parent=b"")
        f = plan.join(d, b"leaf")
        A = plan.attrs
        if what == "dup-dir":
            plan.entries += [A(mk_ent("dir", d + b"/")), A(mk_ent("dir", d))]
        elif what == "dup-file":
            plan.entries += [A(mk_ent("file", f, data=b"1")), A(mk_ent("file", b"./" + f, data=b"2"))]
        elif what == "dotdot-name":
            plan.entries += [A(mk_ent("file", d + b"/../" + d + b"/x", data=b"1"))]
        elif what == "parent-not-dir":
            plan.entries += [A(mk_ent("file", d, data=b"1")), A(mk_ent("file", f, data=b"2"))]
        elif what == "hardlink-to-dir":
            plan.entries += [A(mk_ent("dir", d)), A(mk_ent("hardlink", f, link=d))]
        elif what == "hardlink-missing":
            plan.entries += [A(mk_ent("hardlink", f, link=d + b"/nothing-here"))]
        elif what == "hardlink-loop":
            plan.entries += [A(mk_ent("hardlink", f, link=d + b"/other")), A(mk_ent("hardlink", d + b"/other", link=f))]
        elif what == "root-not-dir":
            plan.entries += [A(mk_ent("file", b"./", data=b"1"))]
        elif what == "dir-over-file":
            plan.entries += [A(mk_ent("file", f, data=b"1")), A(mk_ent("dir", f + b"/"))]
        for e in plan.entries[-2:]:
            e.xattrs = []
    c.hist["probe:%s" % ":".join(pr[:3])] += 1
    c.entries = plan.entries


MALFORMED = ["data-exceeds-record", "data-exceeds-record", "record-exceeds-data", "offset-beyond-realsize", "overlap"]


def gen_malformed(c, rng, o, bs):
    """sparse files whose map is inconsistent with the record; the entries *after* it must survive (or tar2sqfs fail)"""
    variant = MALFORMED[c.idx % len(MALFORMED)]
    o["rb"] = None
    plan, e = gen_sparse_(c, rng, o, bs)
    total = sum(n for _, n in e.segs)
    if variant == "data-exceeds-record":
        e.bad_size = rng.choice([0, max(0, total - 1), max(0, total - 512), total // 2, max(0, total - 513)])
        if e.bad_size == total:
            e.bad_size = max(0, total - 1)
        if total == 0:
            variant = "none"
    elif variant == "record-exceeds-data":
        e.bad_size = total + rng.choice([1, 511, 512, 513, 5000])
    elif variant == "offset-beyond-realsize":
        e.real_size = max(1, len(e.data) // 2)              # declared size cut: some regions now lie behind the end
    elif variant == "overlap":
        if len(e.segs) >= 2:
            o1, n1 = e.segs[0]
            e.segs[1] = (o1 + max(0, n1 // 2), e.segs[1][1])
    after = []
    for j in range(rng.randint(2, 4)):
        p = plan.fresh()
        d = rng.randbytes(rng.choice([1, 100, 600, 5000]))
        plan.add(plan.attrs(mk_ent("file", p, data=d)), p)
        after.append((p, sha(d)))
    c.after = dict(variant=variant, bad=e, files=after)
    c.hist["malformed:%s:%s" % (variant, e.sparse)] += 1
    c.entries = plan.entries


def build_archive(c, rng):
    if c.dialect.startswith("tf-"):
        c.archive = build_tarfile(c)
        return
    out, n = b"", 0
    for e in c.entries:
        n += 1
        if c.dialect == "pax" and rng.random() < 0.1:
            out += ext_record(b"g", b"GlobalHead/%d" % n, pax_records([(b"comment", b"global header %d" % n)]), MAGIC["pax"])
            c.hist["pax-global-header"] += 1
        out += encode_entry(e, c.dialect, rng, c.hist, n)
    out += b"\0" * 1024
    if rng.random() < 0.3:
        out += b"\0" * (-len(out) % 10240)
    c.archive = out


TF_TYPES = {"file": tarfile.REGTYPE, "dir": tarfile.DIRTYPE, "symlink": tarfile.SYMTYPE, "hardlink": tarfile.LNKTYPE,
            "chr": tarfile.CHRTYPE, "blk": tarfile.BLKTYPE, "fifo": tarfile.FIFOTYPE}
TF_KINDS = {v: k for k, v in TF_TYPES.items()}
TF_KINDS[tarfile.AREGTYPE] = "file"
TF_KINDS[tarfile.GNUTYPE_SPARSE] = "file"


def sdec(b):
    return b.decode("utf-8", "surrogateescape")


def senc(s):
    return s.encode("utf-8", "surrogateescape")


def build_tarfile(c):
    fmt = {"tf-ustar": tarfile.USTAR_FORMAT, "tf-gnu": tarfile.GNU_FORMAT, "tf-pax": tarfile.PAX_FORMAT}[c.dialect]
    buf = io.BytesIO()
    with tarfile.open(fileobj=buf, mode="w", format=fmt, encoding="utf-8", errors="surrogateescape") as tf:
        for e in c.entries:
            c.hist["namelen:%s" % lenclass(len(e.name))] += 1
            if e.kind in ("symlink", "hardlink"):
                c.hist["linklen:%s" % lenclass(len(e.link))] += 1
            ti = tarfile.TarInfo(sdec(e.name))
            ti.type = TF_TYPES[e.kind]
            ti.mode, ti.uid, ti.gid = e.mode, e.uid, e.gid
            if e.mtime_frac and fmt == tarfile.PAX_FORMAT and e.mtime >= 0 and e.mtime_frac in (b".5", b".25"):
                ti.mtime = e.mtime + float(e.mtime_frac)
                c.hist["num:mtime:pax-fraction"] += 1
            else:
                e.mtime_frac = b""
                ti.mtime = e.mtime
            ti.uname, ti.gname = sdec(e.uname), sdec(e.gname)
            if e.link is not None:
                ti.linkname = sdec(e.link)
            if e.kind in ("chr", "blk"):
                ti.devmajor, ti.devminor = e.major, e.minor
            if e.xattrs and fmt == tarfile.PAX_FORMAT:
                e.xattr_style = "schily"
                ti.pax_headers = {"SCHILY.xattr." + sdec(k): sdec(v) for k, v in e.xattrs}
                c.hist["xattr:schily-tarfile"] += len(e.xattrs)
            else:
                e.xattrs = []
            if e.kind == "file":
                ti.size = len(e.data)
                tf.addfile(ti, io.BytesIO(e.data))
            else:
                tf.addfile(ti)
    return buf.getvalue()


def read_with_tarfile(data):
    """independent reader: list of member descriptions (bytes names, expanded contents hashed)"""
    out = []
    with tarfile.open(fileobj=io.BytesIO(data), mode="r:", encoding="utf-8", errors="surrogateescape") as tf:
        for m in tf:
            kind = TF_KINDS.get(m.type)
            d = NS(kind=kind, rawtype=m.type, name=senc(m.name), mode=m.mode & 0o7777, uid=m.uid, gid=m.gid, mtime=m.mtime,
                   link=senc(m.linkname) if kind in ("symlink", "hardlink") else None, major=m.devmajor, minor=m.devminor,
                   size=m.size, sha=None, data=None, xattrs=[], pax=dict(m.pax_headers))
            if kind == "file":
                d.data = tf.extractfile(m).read()
                d.sha = sha(d.data)
            for k, v in m.pax_headers.items():
                if k.startswith("SCHILY.xattr."):
                    d.xattrs.append((senc(k[13:]), senc(v)))
                elif k.startswith("LIBARCHIVE.xattr."):
                    kk = re.sub(rb"%([0-9A-Fa-f]{2})", lambda mm: bytes([int(mm.group(1), 16)]), senc(k[17:]))
                    vv = senc(v)
                    d.xattrs.append((kk, base64.b64decode(vv + b"=" * (-len(vv) % 4))))
            out.append(d)
    return out


def describe_with_tarfile(data):
    """seed archives have no generator description: derive one with python tarfile (independent of the code under test)"""
    ents = []
    for d in read_with_tarfile(data):
        if d.kind is None:
            continue
        mt = d.mtime
        e = mk_ent(d.kind, d.name + (b"/" if d.kind == "dir" else b""), mode=d.mode, uid=d.uid, gid=d.gid,
                   mtime=int(mt // 1), link=d.link, major=d.major, minor=d.minor, data=d.data or b"", xattrs=d.xattrs)
        ents.append(e)
    return ents


def selfcheck(c):
    """generator description vs python tarfile reading the generated bytes; returns list of discrepancies"""
    if c.seedfile or c.after is not None or c.expect_fail:
        return []
    try:
        rd = read_with_tarfile(c.archive)
    except Exception as ex:                               # noqa: BLE001
        return ["tarfile cannot read generated archive: %r" % ex]
    bad = []
    ents = [e for e in c.entries]
    if len(rd) != len(ents):
        return ["member count %d vs described %d" % (len(rd), len(ents))]
    for e, d in zip(ents, rd):
        nm = e.name.rstrip(b"/") if e.kind == "dir" else e.name
        dn = d.name.rstrip(b"/") if e.kind == "dir" else d.name
        chk = [("kind", e.kind, d.kind), ("name", nm, dn), ("mode", e.mode, d.mode), ("uid", e.uid, d.uid), ("gid", e.gid, d.gid)]
        if not ((e.mtime < 0 and e.mtime_frac) or e.mtime_frac.startswith(b".9999")):      # tarfile parses via float
            chk.append(("mtime", e.mtime, int(d.mtime // 1)))
        if e.kind in ("symlink", "hardlink"):
            chk.append(("link", e.link, d.link))
        if e.kind in ("chr", "blk"):
            chk.append(("dev", (e.major, e.minor), (d.major, d.minor)))
        if e.kind == "file":
            chk.append(("content", sha(e.data), d.sha))
        chk.append(("xattrs", sorted(e.xattrs), sorted(d.xattrs)))
        for f, a, b in chk:
            if a != b:
                bad.append("%s of %r: described %r, tarfile reads %r" % (f, e.name[:60], a if f != "content" else "sha " + a[:12],
                                                                        b if f != "content" else "sha " + str(b)[:12]))
    return bad


# =====================================================================================================
# 3. oracle: expected image tree from the generator's description
# =====================================================================================================

def canon_spec(name):
    """specification of path canonicalisation (component level): (ok, canonical)"""
    comps = [x for x in name.split(b"/") if x not in (b"", b".")]
    if b".." in comps:
        return False, None
    return True, b"/".join(comps)


def c_canonicalize_inplace(s):
    """what lib/util/src/canonicalize_name.c leaves in the caller's buffer: (ok, buffer-as-C-string).
    Used only to *recognise* defect D25 (tar2sqfs canonicalises symlink targets in place)."""
    norm = b"/".join(x for x in s.split(b"/") if x)          # normalize_slashes
    out, i, n = bytearray(), 0, len(norm)
    while i < n:
        if norm[i] == 0x2e:
            if i + 1 == n:
                break
            if norm[i + 1] == 0x2f:
                i += 2
                continue
            if norm[i + 1] == 0x2e and (i + 2 == n or norm[i + 2] == 0x2f):
                return False, bytes(out) + norm[len(out):]   # no terminator written: tail of the buffer survives
        j = norm.find(b"/", i)
        if j < 0:
            out += norm[i:]
            i = n
        else:
            out += norm[i:j + 1]
            i = j + 1
    return True, b"/".join(x for x in bytes(out).split(b"/") if x)


def retarget_spec(target, rb):
    """documented behaviour of --root-becomes for a symlink target: (expected target, was it prefixed)"""
    ok, cn = canon_spec(target)
    if ok and cn.startswith(rb + b"/"):
        return cn[len(rb):], True
    return target, False


def d25_clobbered(target, rb):
    """what the current code stores for an unprefixed symlink target under --root-becomes"""
    ok, buf = c_canonicalize_inplace(target)
    if ok and buf.startswith(rb) and buf[len(rb):len(rb) + 1] == b"/":
        return buf[len(rb):]
    return buf


class ExpectFail(Exception):
    pass


def clamp_ts(t):
    return 0 if t < 0 else (U32 if t > U32 else t)


def expected_tree(entries, o):
    """returns ("ok", tree, warnings) or ("fail", reason, None).  tree: canonical path (b"" = root) -> node"""
    dfl = defaults_of(o)
    rb = o["rb"]

    def mknode(kind, perm, uid, gid, mtime, **kw):
        n = NS(kind=kind, perm=perm, uid=uid, gid=gid, mtime=mtime, target=None, dev=None, sha=None, size=None, xattrs=(),
               implicit=False, src=None, group=None, hl_target=None)
        n.__dict__.update(kw)
        return n

    tree = {b"": mknode("dir", dfl["mode"], dfl["uid"], dfl["gid"], dfl["mtime"], implicit=True)}
    warnings = []
    try:
        for e in entries:
            ok, cn = canon_spec(e.name)
            if not ok:
                raise ExpectFail("dotdot-name")
            mt = clamp_ts(e.mtime)
            is_root = False
            if rb is not None:
                if cn == rb:
                    is_root = True
                elif cn.startswith(rb + b"/"):
                    cn = cn[len(rb) + 1:]
                else:
                    continue
            elif cn == b"":
                is_root = True
            if o["k"]:
                mt = dfl["mtime"]
            if e.uid > U32 or e.gid > U32:
                raise ExpectFail("id-overflow")
            xa = ()
            if not o["x"] and e.kind != "hardlink":
                keep = []
                for k, v in e.xattrs:
                    if k.startswith(SUPPORTED_XATTR):
                        keep.append((k, v))
                    else:
                        warnings.append(k)
                xa = tuple(sorted(keep))
            if is_root:
                if e.kind != "dir":
                    raise ExpectFail("root-not-dir")
                r = tree[b""]
                r.perm, r.uid, r.gid, r.mtime, r.src = e.mode, e.uid, e.gid, mt, e
                if not o["x"]:
                    r.xattrs = xa
                r.implicit = False
                continue
            comps = cn.split(b"/")
            par = b""
            for comp in comps[:-1]:
                par = par + b"/" + comp if par else comp
                pn = tree.get(par)
                if pn is None:
                    tree[par] = mknode("dir", dfl["mode"], dfl["uid"], dfl["gid"], dfl["mtime"], implicit=True)
                elif pn.kind != "dir":
                    raise ExpectFail("parent-not-dir")
            old = tree.get(cn)
            if old is not None:
                if not (old.kind == "dir" and e.kind == "dir" and old.implicit):
                    raise ExpectFail("duplicate-entry")
                old.perm, old.uid, old.gid, old.mtime, old.implicit, old.src = e.mode, e.uid, e.gid, mt, False, e
                if not o["x"]:
                    old.xattrs = xa
                continue
            n = mknode(e.kind, e.mode, e.uid, e.gid, mt, src=e, xattrs=xa)
            if e.kind == "file":
                n.sha, n.size = sha(e.data), len(e.data)
            elif e.kind == "symlink":
                n.perm = 0o777
                n.target = e.link
                if rb is not None and not o["S"]:
                    n.target, n.prefixed = retarget_spec(e.link, rb)
            elif e.kind == "hardlink":
                ok, t = canon_spec(e.link)
                if not ok:
                    raise ExpectFail("hardlink-dotdot")
                if rb is not None and t.startswith(rb + b"/"):
                    t = t[len(rb) + 1:]
                n.hl_target = t
            elif e.kind in ("chr", "blk"):
                if e.major > 0xfff or e.minor > 0xfffff:
                    raise ExpectFail("devno-overflow")
                n.dev = (e.major, e.minor)
            tree[cn] = n
        # resolve hard links
        for p, n in list(tree.items()):
            if n.kind != "hardlink":
                continue
            seen, cur = {p}, n
            while cur.kind == "hardlink":
                t = cur.hl_target
                if t in seen:
                    raise ExpectFail("hardlink-loop")
                seen.add(t)
                nxt = tree.get(t)
                if nxt is None:
                    raise ExpectFail("hardlink-missing")
                cur, tp = nxt, t
            if cur.kind == "dir":
                raise ExpectFail("hardlink-to-dir")
            n.resolved = tp
        for p, n in list(tree.items()):
            if n.kind == "hardlink":
                prim = tree[n.resolved]
                prim.group = n.resolved
                cp = NS(**prim.__dict__)
                cp.group = n.resolved
                cp.via_hardlink = n.src
                tree[p] = cp
    except ExpectFail as ex:
        return "fail", str(ex), None
    # SquashFS stores the name length off by one in 8 bits; since /repo dc48b07 the directory writer refuses names longer than 256 bytes
    # (before, they were stored and the image was unreadable), so tar2sqfs must fail: non-zero exit, diagnostic, no output file
    for p in tree:
        if any(len(comp) > 256 for comp in p.split(b"/")):
            return "fail", "component-longer-than-256", None
    return "ok", tree, warnings


def dfs_order(tree):
    """paths (without root) in the order the recursive image iterator yields them: pre-order, children by bytes"""
    kids = collections.defaultdict(list)
    for p in tree:
        if p:
            kids[p.rsplit(b"/", 1)[0] if b"/" in p else b""].append(p)
    out = []

    def rec(d):
        for c in sorted(kids.get(d, []), key=lambda x: x.rsplit(b"/", 1)[-1]):
            out.append(c)
            if tree[c].kind == "dir":
                rec(c)
    sys.setrecursionlimit(max(sys.getrecursionlimit(), 5000))
    rec(b"")
    return out


def trigger(n, field):
    """short, stable description of *why* an entry is special (used in violation keys)"""
    e = n.src
    if e is None:
        return "implicit-dir"
    t = [e.kind]
    if getattr(n, "via_hardlink", None) is not None:
        t.append("hardlinked")
    if field in ("uid", "gid"):
        v = getattr(e, field)
        t.append("id>=2^31" if v >= 2 ** 31 else ("id>2097151" if v > 2097151 else "small-id"))
    elif field == "mtime":
        t.append("neg" if e.mtime < 0 else (">u32" if e.mtime > U32 else (">=2^31" if e.mtime >= 2 ** 31 else "plain")))
        if e.mtime_frac:
            t.append("fraction")
    elif field == "content":
        t.append("sparse-%s" % e.sparse if e.sparse else "size-%s" % ("0" if not e.data else ("<=512" if len(e.data) <= 512 else ">512")))
    elif field == "target":
        t.append("len-%s" % lenclass(len(e.link or b"")))
    elif field == "xattrs":
        t.append(e.xattr_style)
    elif field in ("missing", "name"):
        t.append("namelen-%s" % lenclass(len(e.name)))
    return ",".join(t)


# =====================================================================================================
# 4. running the tools, observing an image
# =====================================================================================================

class Env:
    def __init__(self, ctx):
        self.ctx = ctx
        self.tools = {t: str(ctx.build_tool(t)) for t in ("tar2sqfs", "sqfs2tar", "rdsquashfs", "gensquashfs")}
        e = ctx.san_env({"TZ": "UTC", "LC_ALL": "C"})
        e.pop("SOURCE_DATE_EPOCH", None)
        self.env = e
        self.root = Path(ctx.scratch) / "c04"
        self.root.mkdir(exist_ok=True)
        self.gnutar = shutil.which("tar") or "/usr/bin/tar"

    def workdir(self, name):
        d = self.root / name
        if d.exists():
            shutil.rmtree(d, ignore_errors=True)
        d.mkdir(parents=True)
        return d


def run(env, tool, args, stdin_path=None, stdin_bytes=None, extra_env=None, timeout=TIMEOUT, stdout_path=None):
    """run a tool; never raises: timeouts / signals / sanitizer exits are reported in .crash"""
    argv = [env.tools.get(tool, tool)] + list(args)
    e = env.env if not extra_env else dict(env.env, **extra_env)
    fin = open(stdin_path, "rb") if stdin_path else subprocess.DEVNULL
    fout = open(stdout_path, "wb") if stdout_path else subprocess.PIPE
    r = NS(rc=None, out=b"", err=b"", crash=None, tool=tool, argv=argv)
    # CPU-time limit through the shell's `ulimit -t` (no preexec_fn: that would force a real fork() of this large, multi-threaded
    # process for every tool run instead of vfork/posix_spawn)
    wrapped = ["/bin/sh", "-c", "ulimit -t %d; exec \"$@\"" % int(timeout), "sh"] + [a if isinstance(a, (bytes, str)) else str(a) for a in argv]
    try:
        if stdin_bytes is not None and not stdin_path:
            p = subprocess.run(wrapped, input=stdin_bytes, stdout=fout, stderr=subprocess.PIPE, env=e, timeout=WALL_TIMEOUT)
        else:
            p = subprocess.run(wrapped, stdin=fin, stdout=fout, stderr=subprocess.PIPE, env=e, timeout=WALL_TIMEOUT)
        r.rc, r.out, r.err = p.returncode, p.stdout or b"", p.stderr or b""
        if r.rc in (-24, -9) and b"Sanitizer" not in r.err:          # SIGXCPU (soft limit) / SIGKILL (hard limit): CPU time exhausted
            r.crash = "timeout"
    except subprocess.TimeoutExpired as ex:
        r.rc, r.err, r.crash = -999, (ex.stderr or b""), "timeout"
    finally:
        if stdin_path:
            fin.close()
        if stdout_path:
            fout.close()
    if r.crash is None:
        if r.rc in (98, 99) or b"Sanitizer" in r.err or b"runtime error:" in r.err:
            r.crash = "sanitizer"
        elif r.rc < 0:
            r.crash = "signal-%d" % -r.rc
        elif r.rc not in (0, 1):
            r.crash = "exit-%d" % r.rc
    return r


def crash_key(r):
    err = r.err.decode("latin-1")
    m = re.search(r"SUMMARY: (\w+): (\S+) \S*?([\w.]+):\d+(?::\d+)? in (\w+)", err)
    if m:
        return "crash:%s:%s:%s:%s" % (r.tool, m.group(2), m.group(3), m.group(4))
    m = re.search(r"([\w.]+):\d+:\d+: runtime error: ([^\n]*)", err)
    if m:
        return "crash:%s:ubsan:%s:%s" % (r.tool, m.group(1), re.sub(r"\d+", "#", m.group(2))[:60])
    m = re.search(r"SUMMARY: (\w+): (\S+)", err)
    if m:
        return "crash:%s:%s" % (r.tool, m.group(2))
    return "crash:%s:%s" % (r.tool, r.crash)


def err_sig(err):
    lines = [l for l in err.decode("latin-1").splitlines() if l.strip()]
    if not lines:
        return "no-message"
    segs = lines[-1].split(": ")
    if len(segs) > 1:
        segs = segs[1:]
    return re.sub(r"[^A-Za-z#' -]", "", re.sub(r"\d+", "#", " ".join(segs)))[:60].strip().replace(" ", "-")


def _describe_token(rest, new_format):
    """one possibly quoted token at the start of `rest` -> (token, remainder after the blank that follows it).
    Old format (rdsquashfs 1.2.0): names are quoted when they contain ' ' or '"', only '"' is escaped.
    New format (after the `fix: rdsquashfs --describe` commit): names *and link targets* are quoted when empty or containing
    blank/tab/CR/'"'/'\\', with '"' and '\\' escaped."""
    if rest.startswith(b'"'):
        i, out = 1, bytearray()
        while i < len(rest):
            c = rest[i]
            if c == 0x5C and i + 1 < len(rest) and (rest[i + 1] == 0x22 or (new_format and rest[i + 1] == 0x5C)):
                out.append(rest[i + 1])
                i += 2
                continue
            if c == 0x22:
                break
            out.append(c)
            i += 1
        return bytes(out), rest[i + 2:]
    parts = rest.split(b" ", 1)
    return parts[0], (parts[1] if len(parts) > 1 else b"")


def parse_describe(out):
    """`rdsquashfs -d` output -> {path: NS(type, perm, uid, gid, extra)}; both output formats (see _describe_token).  The new format
    starts with a line for the root ('dir / mode uid gid'), which is skipped here (the root is observed through `-s /`)."""
    res, bad = {}, []
    lines = [l for l in out.split(b"\n") if l]
    new_format = bool(lines) and lines[0].startswith(b"dir / ")
    for n, line in enumerate(lines):
        if new_format and n == 0:
            continue
        try:
            typ, rest = line.split(b" ", 1)
            name, rest = _describe_token(rest, new_format)
            parts = rest.split(b" ", 3)
            extra = parts[3] if len(parts) > 3 else None
            if new_format and typ == b"slink" and extra is not None:
                extra = _describe_token(extra, True)[0]
            d = NS(type=typ.decode(), perm=int(parts[0], 8), uid=int(parts[1]), gid=int(parts[2]), extra=extra)
            if name in res:
                bad.append("path listed twice: %r" % name)
            res[name] = d
        except (ValueError, IndexError):
            bad.append("unparsable describe line %r" % line[:200])
    return res, bad


DESC_KIND = {"dir": "dir", "file": "file", "slink": "symlink", "pipe": "fifo", "sock": "sock"}


def parse_stat(out):
    t = out.decode("latin-1")
    g = lambda rx: (re.search(rx, t) or [None, None])[1]          # noqa: E731
    return NS(perm=int(g(r"Access: 0?([0-7]+)") or "0", 8), uid=int(g(r"UID: (\d+)") or -1), gid=int(g(r"GID: (\d+)") or -1),
              mtime=int(g(r"Last modified: [^\n]*\((\d+)\)") or -1), inode=int(g(r"Inode number: (\d+)") or -1),
              nlink=int(g(r"Hard link count: (\d+)") or -1), type=g(r"Inode type: ([^\n]*)"))


def observe_image(env, img, work, tree_paths_files, big_comp, rnd, stat_paths=(), extra_env=None):
    """everything the working tree's own readers say about an image.  Returns NS(..., problems=[(key, what)])"""
    ob = NS(desc={}, root=None, files={}, tar={}, tar_raw=None, stats={}, problems=[], crashed=False, nproc=0)

    def tool(*a, **kw):
        ob.nproc += 1
        r = run(env, *a, **kw)
        if r.crash:
            ob.problems.append((crash_key(r), "%s %s: %s; stderr: %s" % (r.tool, " ".join(map(str, r.argv[1:])), r.crash, r.err[-600:].decode("latin-1"))))
            ob.crashed = True
        return r

    r = tool("rdsquashfs", ["-d", str(img)])
    if r.rc != 0:
        if not r.crash:
            ob.problems.append(("t2s:image-unreadable:describe:" + err_sig(r.err), "rdsquashfs -d fails on the image: " + r.err[-300:].decode("latin-1")))
        ob.crashed = True
        return ob
    ob.desc, bad = parse_describe(r.out)
    for b in bad:
        ob.problems.append(("t2s:image-listing-broken", b))
    r = tool("rdsquashfs", ["-s", "/", str(img)])
    if r.rc == 0:
        ob.root = parse_stat(r.out)
    for p in stat_paths:
        r = tool("rdsquashfs", ["-s", b"/" + p, str(img)])
        if r.rc == 0:
            ob.stats[p] = parse_stat(r.out)
    # contents
    files = list(tree_paths_files)
    if files and not big_comp:
        ud = work / "unpack"
        r = tool("rdsquashfs", ["-u", "/", "-p", str(ud), "-D", "-S", "-F", "-L", "-q", str(img)])
        if r.rc != 0 and not r.crash:
            ob.problems.append(("t2s:image-unreadable:unpack:" + err_sig(r.err), "rdsquashfs -u fails: " + r.err[-300:].decode("latin-1")))
        for p in files:
            try:
                with open(os.path.join(os.fsencode(str(ud)), p), "rb") as f:
                    h = hashlib.sha256()
                    n = 0
                    while True:
                        b = f.read(1 << 20)
                        if not b:
                            break
                        h.update(b)
                        n += len(b)
                    ob.files[p] = (h.hexdigest(), n)
            except OSError:
                pass
        shutil.rmtree(ud, ignore_errors=True)
        sample = rnd.sample(files, min(2, len(files)))
    else:
        sample = files
    for p in sample:                                       # rdsquashfs -c as second reader of file data
        r = tool("rdsquashfs", ["-c", b"/" + p, str(img)])
        if r.rc == 0:
            got = (sha(r.out), len(r.out))
            if p in ob.files and ob.files[p] != got:
                ob.problems.append(("rd:cat-vs-unpack-differ", "rdsquashfs -c and -u disagree on %r" % p[:80]))
            ob.files[p] = got
    # mtime / xattr / hard link observer
    tp = work / "obs.tar"
    r = tool("sqfs2tar", ["-r", OBSROOT, str(img)], stdout_path=str(tp), extra_env=extra_env)
    if r.rc != 0:
        if not r.crash:
            ob.problems.append(("s2t:unexpected-fail:" + err_sig(r.err), "sqfs2tar -r fails on the image: " + r.err[-300:].decode("latin-1")))
        return ob
    ob.tar_raw = tp.read_bytes()
    try:
        for m in read_with_tarfile(ob.tar_raw):
            nm = m.name
            if nm.rstrip(b"/") == OBSROOT:
                key = b""
            elif nm.startswith(OBSROOT + b"/"):
                key = nm[len(OBSROOT) + 1:].rstrip(b"/") if m.kind == "dir" else nm[len(OBSROOT) + 1:]
            else:
                ob.problems.append(("s2t:root-becomes-prefix-missing", "member %r lacks the --root-becomes prefix" % nm[:80]))
                continue
            lt = None
            if m.kind == "hardlink":
                lt = m.link[len(OBSROOT) + 1:] if m.link.startswith(OBSROOT + b"/") else m.link
            ob.tar[key] = NS(mtime=m.mtime, xattrs=tuple(sorted(m.xattrs)), linkto=lt, m=m)
    except Exception as ex:                                # noqa: BLE001
        ob.problems.append(("s2t:tarfile-cannot-read", "python tarfile fails on sqfs2tar output: %r" % ex))
    return ob


def compare_tree(c, tree, ob, o, sub="t2s"):
    """expected tree vs observation -> list of (key, what); also returns (#entries, #bytes) compared"""
    P = []
    nbytes = 0
    rb = o["rb"]
    for p in sorted(set(ob.desc) - set(tree)):
        P.append(("%s:entry-unexpected:%s" % (sub, ob.desc[p].type), "image contains %r (%s) which the archive does not describe" % (p[:100], ob.desc[p].type)))
    groups_e, groups_o = collections.defaultdict(set), collections.defaultdict(set)
    for p, n in sorted(tree.items()):
        if p == b"":
            r = ob.root
            if r is None:
                P.append((sub + ":root-unreadable", "rdsquashfs -s / failed"))
                continue
            for f, ev, ov in (("perm", n.perm, r.perm), ("uid", n.uid, r.uid), ("gid", n.gid, r.gid), ("mtime", n.mtime, r.mtime)):
                if ev != ov:
                    P.append(("%s:root-%s-changed:%s" % (sub, f, trigger(n, f)), "root inode %s: expected %s, image has %s" % (f, ev, ov)))
            d = None
        else:
            d = ob.desc.get(p)
            if d is None:
                P.append(("%s:entry-missing:%s" % (sub, trigger(n, "missing")), "entry %r (%s) is missing from the image" % (p[:100], n.kind)))
                continue
            okind = DESC_KIND.get(d.type)
            if d.type == "nod":
                okind = "chr" if d.extra[:1] == b"c" else "blk"
            if okind != n.kind:
                P.append(("%s:kind-changed:%s->%s" % (sub, n.kind, okind), "entry %r: expected %s, image has %s" % (p[:100], n.kind, okind)))
                continue
            for f, ev, ov in (("perm", n.perm, d.perm), ("uid", n.uid, d.uid), ("gid", n.gid, d.gid)):
                if ev != ov:
                    P.append(("%s:%s-changed:%s" % (sub, f, trigger(n, f)), "entry %r %s: expected %s (0%o), image has %s (0%o)" % (p[:100], f, ev, ev, ov, ov)))
            if n.kind == "symlink" and d.extra != n.target:
                orig = n.src.link
                if rb is not None and not o["S"] and not getattr(n, "prefixed", False) and d.extra == d25_clobbered(orig, rb) and sub == "t2s":
                    P.append(("D25:retarget-clobbers-unprefixed-symlink", "tar2sqfs --root-becomes %s rewrote symlink target %r (not prefixed by the root) to %r" % (
                        rb.decode(), orig[:100], d.extra[:100])))
                    n.d25_observed = d.extra
                else:
                    P.append(("%s:symlink-target-changed:%s%s" % (sub, trigger(n, "target"), ",root-becomes" if rb is not None else ""),
                              "symlink %r: expected target %r, image has %r" % (p[:100], n.target[:120], (d.extra or b"")[:120])))
            if n.kind in ("chr", "blk"):
                try:
                    od = tuple(int(x) for x in d.extra.split()[1:3])
                except ValueError:
                    od = None
                if od != n.dev:
                    P.append(("%s:devno-changed:%s" % (sub, n.kind), "device %r: expected %s, image has %s" % (p[:100], n.dev, od)))
            if n.kind == "file":
                got = ob.files.get(p)
                if got is None:
                    P.append(("%s:content-unreadable:%s" % (sub, trigger(n, "content")), "file %r cannot be read from the image" % p[:100]))
                else:
                    nbytes += got[1]
                    if got != (n.sha, n.size):
                        P.append(("%s:content-changed:%s" % (sub, trigger(n, "content")), "file %r: expected %d bytes sha %s, image has %d bytes sha %s" % (
                            p[:100], n.size, n.sha[:16], got[1], got[0][:16])))
        t = ob.tar.get(p)
        if ob.tar_raw is not None:
            if t is None:
                P.append(("s2t:entry-missing-in-observer-tar", "sqfs2tar -r does not emit %r" % p[:100]))
            else:
                if t.mtime != n.mtime:
                    P.append(("%s:%smtime-changed:%s" % (sub, "root-" if p == b"" else "", trigger(n, "mtime")), "entry %r mtime: expected %d (archive %s%s), image has %d" % (
                        p[:100], n.mtime, n.src.mtime if n.src else "default", (n.src.mtime_frac.decode() if n.src else ""), t.mtime)))
                src = ob.tar.get(t.linkto) if t.linkto is not None else t
                oxa = src.xattrs if src is not None else ()
                if oxa != n.xattrs:
                    P.append(("%s:xattrs-changed:%s" % (sub, trigger(n, "xattrs")), "entry %r xattrs: expected %r, image has %r" % (p[:100], n.xattrs, oxa)))
                if n.kind != "dir":
                    groups_o[t.linkto if t.linkto is not None else p].add(p)
        if n.kind != "dir" and p:
            groups_e[n.group if n.group is not None else p].add(p)
    if ob.tar_raw is not None:
        se = sorted(sorted(g) for g in groups_e.values() if len(g) > 1)
        so = sorted(sorted(g) for g in groups_o.values() if len(g) > 1)
        if se != so:
            P.append((sub + ":hardlink-groups-changed", "hard link groups: expected %r, image (via sqfs2tar) has %r" % (se[:4], so[:4])))
    for g in groups_e.values():                                # inode numbers straight from rdsquashfs -s
        if len(g) > 1:
            st = [ob.stats.get(p) for p in sorted(g)]
            if all(s is not None for s in st):
                if len({s.inode for s in st}) != 1:
                    P.append((sub + ":hardlink-not-shared-inode", "hard linked names %r have inode numbers %r" % (sorted(g)[:4], [s.inode for s in st])))
                elif any(s.nlink not in (-1, len(g)) for s in st):
                    P.append((sub + ":hardlink-count-wrong", "hard link group %r: link count %r, expected %d" % (sorted(g)[:4], [s.nlink for s in st], len(g))))
    return P, len(tree), nbytes


# =====================================================================================================
# 5. sub-check (A): tar -> image
# =====================================================================================================

def t2s_env(o):
    return {"SOURCE_DATE_EPOCH": str(o["sde"])} if o.get("sde") is not None else None


def run_t2s(env, o, tar_path, img):
    return run(env, "tar2sqfs", t2s_argv(o) + [str(img)], stdin_path=str(tar_path), extra_env=t2s_env(o))


def gnutar_names(env, path):
    r = run(env, env.gnutar, ["-tf", str(path), "--quoting-style=literal"])
    return r.rc, [l for l in r.out.split(b"\n") if l], r.err


def check_A(env, c, work, res):
    """runs tar2sqfs on the case and compares; fills res (problems, counters); returns (img path, tree) or None"""
    P = res.problems
    o = c.opts
    tarp = work / "in.tar"
    tarp.write_bytes(c.archive)
    img = work / "img1.sqfs"
    # generator self-checks (not findings about the code under test)
    sc = selfcheck(c)
    if sc:
        res.selfcheck_bad.append("%s#%d: %s" % (c.profile, c.idx, sc[0]))
        return None
    res.cnt["tarfile_readbacks_of_input"] += 0 if (c.seedfile or c.after is not None) else 1
    if c.after is None and c.probe is None and not c.expect_fail:
        rc, names, err = gnutar_names(env, tarp)
        res.cnt["gnutar_listings_of_input"] += 1
        mine = [e.name for e in c.entries]
        if c.seedfile is not None:
            if rc != 0 or sorted(n.rstrip(b"/") for n in names) != sorted(n.rstrip(b"/") for n in mine):
                res.cnt["seed_archives_skipped_readers_disagree"] += 1     # e.g. python tarfile misreads the GNU atime/ctime tail as a prefix
                return None
        elif rc != 0 or [n.rstrip(b"/") for n in names] != [n.rstrip(b"/") for n in mine]:
            res.selfcheck_bad.append("%s#%d: GNU tar lists %d members (rc %d), description has %d: %s" % (c.profile, c.idx, len(names), rc, len(mine), err[-200:]))
            return None
    r = run_t2s(env, o, tarp, img)
    res.cnt["tool_runs"] += 1
    if r.crash:
        P.append((crash_key(r), "tar2sqfs %s: %s; stderr: %s" % (" ".join(map(str, t2s_argv(o))), r.crash, r.err[-800:].decode("latin-1"))))
        return None
    # ---- malformed stream (D22 family): fail cleanly, or keep every later entry intact
    if c.after is not None:
        res.cnt["malformed_archives"] += 1
        if r.rc != 0:
            res.cnt["malformed_refused"] += 1
            return None
        d = run(env, "rdsquashfs", ["-d", str(img)])
        desc, _ = parse_describe(d.out) if d.rc == 0 else ({}, [])
        lost = []
        for p, h in c.after["files"]:
            cr = run(env, "rdsquashfs", ["-c", b"/" + p, str(img)])
            if p not in desc or cr.rc != 0 or sha(cr.out) != h:
                lost.append(p)
        if lost:
            v = c.after["variant"]
            key = "D22:sparse-data-exceeds-record" if v == "data-exceeds-record" else "t2s:malformed-sparse:%s:later-entries-lost" % v
            P.append((key, "tar2sqfs exits 0 on a %s sparse member whose map is inconsistent (%s: map describes %d data bytes, record holds %s) "
                           "but %d of %d later members are missing or damaged in the image (e.g. %r)" % (
                               c.after["bad"].sparse, v, sum(n for _, n in c.after["bad"].segs), c.after["bad"].bad_size, len(lost), len(c.after["files"]), lost[0][:60])))
        else:
            res.cnt["malformed_accepted_intact"] += 1
        return None
    status, tree, warns = expected_tree(c.entries, o)
    # ---- probes for silent truncation
    if c.probe is not None:
        res.cnt["probes"] += 1
        pr = c.probe
        if r.rc != 0:
            res.cnt["probe_refused"] += 1
            return None
        d = run(env, "rdsquashfs", ["-d", str(img)])
        desc, _ = parse_describe(d.out) if d.rc == 0 else ({}, [])
        e = desc.get(pr["path"])
        if e is None:
            P.append(("t2s:entry-missing:probe-" + pr["kind"], "probe entry %r missing" % pr["path"]))
            return None
        if pr["kind"] == "id-truncate":
            got = getattr(e, pr["field"])
        else:
            try:
                got = int(e.extra.split()[1 if pr["field"] == "major" else 2])
            except (ValueError, IndexError, AttributeError):
                got = None
        if got != pr["value"]:
            P.append(("t2s:%s:%s-%s" % (pr["kind"], pr["field"], pr["enc"]),
                      "tar2sqfs exits 0 and silently stores %s=%s for an archive member whose %s is %d (encoded as %s); SquashFS cannot represent the value, "
                      "so the tool should refuse it" % (pr["field"], got, pr["field"], pr["value"], pr["enc"])))
        return None
    if status == "fail":
        res.cnt["expected_refusals"] += 1
        if r.rc == 0:
            P.append(("t2s:accepted-invalid:" + tree, "tar2sqfs exits 0 on an archive it is expected to refuse (%s)" % tree))
        elif tree == "component-longer-than-256":
            res.cnt["refused_component_over_256"] += 1
            if not r.err.strip():
                P.append(("t2s:refused-without-diagnostic:" + tree, "tar2sqfs refuses a name component longer than 256 bytes without any message"))
            if img.exists():
                P.append(("t2s:refused-but-output-left:" + tree, "tar2sqfs refuses a name component longer than 256 bytes but leaves the output file behind"))
        return None
    if c.expect_fail:
        P.append(("oracle:probe-not-refused-by-oracle:" + c.expect_fail, "internal: oracle accepts a case generated as invalid"))
        return None
    if r.rc != 0:
        P.append(("t2s:unexpected-fail:" + err_sig(r.err), "tar2sqfs %s fails (exit %d) on a supported %s archive: %s" % (
            " ".join(map(str, t2s_argv(o))), r.rc, c.dialect, r.err[-400:].decode("latin-1"))))
        return None
    if warns and not o["x"]:
        res.cnt["xattr_skip_warnings_expected"] += 1
        if b"does not support xattr prefix" not in r.err:
            P.append(("t2s:xattr-skipped-without-warning", "unsupported xattr key %r dropped without the documented warning" % warns[0]))
    files = [p for p, n in tree.items() if n.kind == "file"]
    rnd = random.Random(c.seed ^ 0x5a5a)
    groups = collections.defaultdict(list)
    for p, n in tree.items():
        if n.group is not None and n.kind != "dir":
            groups[n.group].append(p)
    stat_paths = [p for g in list(groups.values())[:3] for p in g[:4]]
    others = [p for p in tree if p and p not in stat_paths]
    stat_extra = rnd.sample(others, min(2, len(others)))
    ob = observe_image(env, img, work, files, c.big_comp, rnd, stat_paths + stat_extra)
    res.cnt["tool_runs"] += ob.nproc
    P.extend(ob.problems)
    if ob.crashed:
        return None
    PP, ne, nb = compare_tree(c, tree, ob, o)
    for p in stat_extra:                                     # rdsquashfs -s as independent reader of mtime
        s = ob.stats.get(p)
        if s is not None:
            res.cnt["stat_crosschecks"] += 1
            if s.mtime != tree[p].mtime and not any(k.endswith("mtime-changed:" + trigger(tree[p], "mtime")) for k, _ in PP):
                PP.append(("t2s:mtime-changed:%s" % trigger(tree[p], "mtime"), "entry %r mtime (rdsquashfs -s): expected %d, image has %d" % (p[:100], tree[p].mtime, s.mtime)))
    P.extend(PP)
    res.cnt["entries_compared"] += ne
    res.cnt["bytes_compared"] += nb
    for n in tree.values():
        res.hist["kind:" + n.kind] += 1
        if getattr(n, "via_hardlink", None) is not None:
            res.hist["kind:hardlink-name"] += 1
        if n.implicit:
            res.hist["kind:implicit-dir"] += 1
    if any(not k.startswith("D25:") for k, _ in PP) or ob.problems:
        return None
    for n in tree.values():                                  # continue (B)/(C) on what the image really contains
        if getattr(n, "d25_observed", None) is not None:
            n.target = n.d25_observed
    return img, tree


# =====================================================================================================
# 6. sub-check (B): image -> tar, read by python tarfile and GNU tar
# =====================================================================================================

def walk_tar(buf):
    """own block walker: well-formedness of a tar stream.  returns (problems, record type counter, number of members)"""
    bad, types, n = [], collections.Counter(), 0
    if len(buf) % 512:
        bad.append("length %d is not a multiple of 512" % len(buf))
    off = 0
    while off + 512 <= len(buf):
        h = buf[off:off + 512]
        if h == b"\0" * 512:
            break
        stored = h[148:156]
        want = sum(h[:148]) + 8 * 32 + sum(h[156:])
        try:
            got = int(stored.split(b"\0")[0].strip() or b"0", 8)
        except ValueError:
            got = -1
        if got != want:
            bad.append("header at offset %d: checksum field %r, computed %o" % (off, stored, want))
        if h[257:265] not in (b"ustar  \0", b"ustar\x0000"):
            bad.append("header at offset %d: magic %r" % (off, h[257:265]))
        sz = h[124:136]
        if sz[0] & 0x80:
            size = int.from_bytes(sz[1:], "big")
        else:
            try:
                size = int(sz.split(b"\0")[0].strip() or b"0", 8)
            except ValueError:
                bad.append("header at offset %d: size field %r" % (off, sz))
                break
        t = h[156:157]
        types[t.decode("latin-1")] += 1
        if t not in b"LKxg":
            n += 1
        if t in b"123456":
            size = 0
        off += 512 + size + (-size % 512)
    rest = buf[off:]
    if len(rest) < 1024 or rest.strip(b"\0"):
        bad.append("archive does not end with two zero blocks at offset %d (%d bytes follow)" % (off, len(rest)))
    return bad, types, n


def s2t_argv(so):
    a = []
    if so.get("rb") is not None:
        a += ["-r", so["rb"]]
    for d in so.get("subdirs", []):
        a += ["-d", d]
    if so.get("keep"):
        a.append("--keep-as-dir")
    if so.get("X"):
        a.append("--no-xattr")
    if so.get("L"):
        a.append("--no-hard-links")
    if so.get("s"):
        a.append("--no-skip")
    return a


def expected_members(tree, so):
    """member list sqfs2tar must produce for an image with this tree"""
    out = []
    rb = so.get("rb")
    subs = [canon_spec(d)[1] for d in so.get("subdirs", [])]
    single = len(subs) == 1 and not so.get("keep")
    pre = (rb + b"/") if rb is not None else b""

    def mem(name, n, hard_to=None):
        m = NS(name=name, kind=n.kind, perm=n.perm, uid=n.uid, gid=n.gid, mtime=n.mtime, size=0, link=None, dev=None, sha=None,
               xattrs=() if so.get("X") else n.xattrs)
        if hard_to is not None:
            m.kind, m.link, m.xattrs = "hardlink", hard_to, ()
        elif n.kind == "file":
            m.size, m.sha = n.size, n.sha
        elif n.kind == "symlink":
            m.link = n.target
        elif n.kind in ("chr", "blk"):
            m.dev = n.dev
        return m

    if rb is not None:
        out.append(mem(rb + b"/", tree[b""]))
    first = {}
    for p in dfs_order(tree):
        n = tree[p]
        if n.kind == "sock":
            continue
        name = p
        if subs:
            keep = False
            for s in subs:
                if len(p) <= len(s):
                    if (len(p) == len(s) or s[len(p):len(p) + 1] == b"/") and s.startswith(p):
                        keep = True
                elif p[len(s):len(s) + 1] == b"/" and p.startswith(s):
                    keep = True
            if not keep:
                continue
            if single:
                if len(p) <= len(subs[0]):
                    continue
                name = p[len(subs[0]) + 1:]
        name = pre + name + (b"/" if n.kind == "dir" else b"")
        gid = n.group if n.group is not None else None
        if gid is not None and n.kind != "dir" and not so.get("L"):
            if gid in first:
                out.append(mem(name, n, hard_to=first[gid]))
                continue
            first[gid] = name
        out.append(mem(name, n))
    return out


GT_LINE = re.compile(rb"^([-dlhcbps])([-rwxsStT]{9})[*+.]? +(\d+)/(\d+) +(\d+,\d+|\d+) (-?\d+)-(\d\d)-(\d\d) (\d\d):(\d\d):(\d\d) (.*)$")
GT_KIND = {b"-": "file", b"d": "dir", b"l": "symlink", b"h": "hardlink", b"c": "chr", b"b": "blk", b"p": "fifo"}


def parse_gnutar_listing(out):
    mem, bad = [], []
    for line in out.split(b"\n"):
        if not line:
            continue
        m = re.match(rb"^  x: +(\d+) (.*)$", line)
        if m and mem:
            mem[-1].xattrs.append((m.group(2), int(m.group(1))))
            continue
        m = GT_LINE.match(line)
        if not m:
            bad.append(line[:200])
            continue
        ps = m.group(2)
        perm = 0
        for i, ch in enumerate(ps):
            bit = 1 << (8 - i)
            if ch in b"rwxst":
                perm |= bit
            if ch in b"sS" and i == 2:
                perm |= 0o4000
            if ch in b"sS" and i == 5:
                perm |= 0o2000
            if ch in b"tT" and i == 8:
                perm |= 0o1000
        kind = GT_KIND[m.group(1)]
        name, link = m.group(12), None
        if kind == "symlink" and b" -> " in name:
            name, link = name.split(b" -> ", 1)
        elif kind == "hardlink" and b" link to " in name:
            name, link = name.split(b" link to ", 1)
        dev, size = None, 0
        if b"," in m.group(5):
            dev = tuple(int(x) for x in m.group(5).split(b","))
        else:
            size = int(m.group(5))
        mt = calendar.timegm((int(m.group(6)), int(m.group(7)), int(m.group(8)), int(m.group(9)), int(m.group(10)), int(m.group(11))))
        mem.append(NS(name=name, kind=kind, perm=perm, uid=int(m.group(3)), gid=int(m.group(4)), size=size, dev=dev, mtime=mt, link=link, xattrs=[]))
    return mem, bad


def s2t_trigger(m):
    t = [m.kind]
    if len(m.name) >= 100:
        t.append("name>=100")
    if m.link is not None and len(m.link) >= 100:
        t.append("link>=100")
    if m.uid > 2097151 or m.gid > 2097151:
        t.append("big-id")
    if m.xattrs:
        t.append("xattr")
    return ",".join(t)


def compare_members(reader, exp, got, tree_has_socket, d27_possible):
    """expected member list vs one reader's view -> [(key, what)]"""
    P = []

    def key(kind, m):
        if d27_possible:
            return "D27:skipped-socket-leaves-extension-records"
        return "s2t:%s:%s:%s" % (reader, kind, s2t_trigger(m))
    if [m.name for m in exp] != [m.name for m in got]:
        en, gn = [m.name for m in exp], [m.name for m in got]
        i = next((i for i, (a, b) in enumerate(zip(en, gn)) if a != b), min(len(en), len(gn)))
        m = exp[i] if i < len(exp) else got[i]
        P.append((key("member-list-differs", m), "%s reads %d members, expected %d; first difference at #%d: expected %r, got %r" % (
            reader, len(gn), len(en), i, en[i][:100] if i < len(en) else None, gn[i][:100] if i < len(gn) else None)))
        return P
    for e, g in zip(exp, got):
        flds = [("kind", e.kind, g.kind), ("uid", e.uid, g.uid), ("gid", e.gid, g.gid), ("mtime", e.mtime, g.mtime), ("link", e.link, g.link)]
        if e.kind != "hardlink":
            flds.append(("perm", e.perm, g.perm))
        if e.kind == "file":
            flds.append(("size", e.size, g.size))
            if g.sha is not None:
                flds.append(("content", e.sha, g.sha))
        if e.kind in ("chr", "blk"):
            flds.append(("dev", e.dev, g.dev))
        if g.xattrs is not None:
            flds.append(("xattrs", tuple(e.xattrs) if reader == "tarfile" else tuple(sorted((k, len(v)) for k, v in e.xattrs)), tuple(sorted(g.xattrs))))
        for f, a, b in flds:
            if a != b:
                P.append((key(f + "-mismatch", e), "%s member %r %s: expected %r, reads %r" % (reader, e.name[:100], f, a if not isinstance(a, bytes) else a[:120],
                                                                                          b if not isinstance(b, bytes) else b[:120])))
    return P


def check_B(env, img, tree, so, work, res, rnd, has_socket=False, long_socket=False, tag=""):
    """sqfs2tar with option set `so` on an image whose tree is known"""
    P = res.problems
    out = work / ("s2t%s.tar" % tag)
    r = run(env, "sqfs2tar", s2t_argv(so) + [str(img)], stdout_path=str(out))
    res.cnt["tool_runs"] += 1
    res.cnt["s2t_runs"] += 1
    res.hist["s2t-opts:" + (" ".join(x if isinstance(x, str) else "<dir>" for x in s2t_argv(so) if not isinstance(x, bytes)) or "none")] += 1
    if r.crash:
        P.append((crash_key(r), "sqfs2tar %s: %s; stderr: %s" % (s2t_argv(so), r.crash, r.err[-800:].decode("latin-1"))))
        return None
    if has_socket:
        if so.get("s"):
            if r.rc == 0:
                P.append(("s2t:no-skip-ignored:socket", "sqfs2tar --no-skip exits 0 although the image contains a socket"))
            else:
                res.cnt["socket_noskip_refused"] += 1
            return None
    if r.rc != 0:
        P.append(("s2t:unexpected-fail:" + err_sig(r.err), "sqfs2tar %s fails (exit %d): %s" % (s2t_argv(so), r.rc, r.err[-300:].decode("latin-1"))))
        return None
    data = out.read_bytes()
    exp = expected_members(tree, so)
    socks_emitted = has_socket and _sockets_selected(tree, so)
    if socks_emitted and b"unsupported file type" not in r.err:
        P.append(("s2t:socket-skipped-without-warning", "image has a socket in the selected tree but sqfs2tar printed no warning"))
    if not socks_emitted and r.err.strip():
        P.append(("s2t:unexpected-stderr:" + err_sig(r.err), "sqfs2tar %s printed: %s" % (s2t_argv(so), r.err[-300:].decode("latin-1"))))
    d27 = bool(socks_emitted) and d27_applies(tree, so)       # a skipped socket with long name / xattrs: defect D27
    bad, types, nmem = walk_tar(data)
    for b in bad:
        P.append(("s2t:malformed-archive:" + re.sub(r"\d+", "#", b)[:50].replace(" ", "-"), "sqfs2tar %s output: %s" % (s2t_argv(so), b)))
    for t, k in types.items():
        res.hist["s2t-record:" + (t if t.strip("\0") else "nul")] += k
    res.cnt["s2t_bytes"] += len(data)
    if not exp:
        if data.strip(b"\0") or len(data) != 1024:
            P.append(("s2t:empty-selection-not-empty", "expected an empty archive, got %d bytes" % len(data)))
        return data
    # reader 1: python tarfile
    try:
        got = read_with_tarfile(data)
        for g in got:
            g.perm, g.dev = g.mode, ((g.major, g.minor) if g.kind in ("chr", "blk") else None)
            g.xattrs = tuple(sorted(g.xattrs))
            if g.kind == "dir" and not g.name.endswith(b"/"):         # tarfile strips the '/', GNU tar (below) shows it
                g.name += b"/"
        res.cnt["tarfile_readbacks"] += 1
        P.extend(compare_members("tarfile", exp, got, has_socket, d27))
        res.cnt["s2t_members_compared"] += len(got)
    except Exception as ex:                                   # noqa: BLE001
        P.append(("D27:skipped-socket-leaves-extension-records" if d27 else "s2t:tarfile-cannot-read", "python tarfile fails on sqfs2tar %s output: %r" % (s2t_argv(so), ex)))
    # reader 2: GNU tar
    lr = run(env, env.gnutar, ["--xattrs", "--xattrs-include=*", "-tvvf", str(out), "--numeric-owner", "--full-time", "--quoting-style=literal"])
    res.cnt["gnutar_readbacks"] += 1
    if lr.rc != 0 or lr.err.strip():
        sig = err_sig(lr.err)
        res.hist["gnutar-stderr:" + sig] += 1
        P.append(("D27:skipped-socket-leaves-extension-records" if d27 else "s2t:gnutar-complains:" + sig, "GNU tar -tvv on sqfs2tar %s output: exit %d, stderr %s" % (
            s2t_argv(so), lr.rc, lr.err[-300:].decode("latin-1"))))
    gl, badl = parse_gnutar_listing(lr.out)
    if badl:
        P.append(("s2t:gnutar:listing-unparsable", "GNU tar listing line not understood: %r" % badl[0]))
    else:
        files = [m for m in exp if m.kind == "file"]
        shas = {}
        for m in rnd.sample(files, min(6, len(files))):
            xr = run(env, env.gnutar, ["-xOf", str(out), "--quoting-style=literal", "--no-wildcards", "--", m.name])
            if xr.rc == 0:
                shas[m.name] = sha(xr.out)
                res.cnt["gnutar_extractions"] += 1
                res.cnt["bytes_compared"] += len(xr.out)
            else:
                shas[m.name] = "extract-failed:" + err_sig(xr.err)
        for g in gl:
            g.sha = shas.get(g.name) if g.kind == "file" else None
            if so.get("X"):
                g.xattrs = []
        P.extend(compare_members("gnutar", exp, gl, has_socket, d27))
    return data


def _sockets_selected(tree, so):
    t2 = {p: (NS(**{**n.__dict__, "kind": "fifo"}) if n.kind == "sock" else n) for p, n in tree.items()}
    with_s = expected_members(t2, so)
    without = expected_members(tree, so)
    return len(with_s) != len(without)


# =====================================================================================================
# 7. sub-check (C): fix-point
# =====================================================================================================

SUPER_FIELDS = [("magic", 0, 4), ("inode_count", 4, 4), ("modification_time", 8, 4), ("block_size", 12, 4), ("fragment_entry_count", 16, 4),
                ("compression_id", 20, 2), ("block_log", 22, 2), ("flags", 24, 2), ("id_count", 26, 2), ("version_major", 28, 2),
                ("version_minor", 30, 2), ("root_inode_ref", 32, 8), ("bytes_used", 40, 8), ("id_table_start", 48, 8),
                ("xattr_id_table_start", 56, 8), ("inode_table_start", 64, 8), ("directory_table_start", 72, 8),
                ("fragment_table_start", 80, 8), ("export_table_start", 88, 8)]


def image_section(img, off):
    if off < 96:
        for n, o, l in SUPER_FIELDS:
            if o <= off < o + l:
                return "superblock field %s" % n
    tabs = []
    for n, o, l in SUPER_FIELDS[13:]:
        v = int.from_bytes(img[o:o + l], "little")
        if v != 0xFFFFFFFFFFFFFFFF:
            tabs.append((v, n.replace("_start", "")))
    tabs.sort()
    used = int.from_bytes(img[40:48], "little")
    if off >= used:
        return "padding after bytes_used"
    prev, nxt = "superblock", None
    for v, n in tabs:
        if off >= v:
            prev = n
        elif nxt is None:
            nxt = n
    # the *_start fields point at a table's index; the table's own blocks lie in front of it
    return "region between %s and %s" % (prev, nxt or "end of image")


def first_diff(a, b):
    n = min(len(a), len(b))
    if a[:n] == b[:n]:
        return n
    lo, hi = 0, n
    while hi - lo > 1:                                         # binary search on prefix equality
        mid = (lo + hi) // 2
        if a[:mid] == b[:mid]:
            lo = mid
        else:
            hi = mid
    return lo


def check_C(env, c, img1, tree, work, res, flavour):
    """tar1/img2/tar2/img3 chain with identical tar2sqfs options"""
    P = res.problems
    o = dict(c.opts)
    if flavour == "rb":
        if o["rb"] is None:
            o["rb"] = b"FIXROOT"
            o["rb_arg"] = "FIXROOT"
        so = {"rb": o["rb"]}
    else:
        if o["rb"] is not None:
            return
        so = {}
    res.cnt["fixpoint_runs"] += 1
    res.hist["fixpoint:" + flavour] += 1
    tars, imgs = [], [img1]
    # expected tree of img2
    dfl = defaults_of(o)
    tree2 = {}
    for p, n in tree.items():
        n2 = NS(**n.__dict__)
        if n.kind == "symlink" and flavour == "rb" and not o["S"]:
            n2.src = NS(**n.src.__dict__)
            n2.src.link = n.target
            n2.target, n2.prefixed = retarget_spec(n.target, o["rb"])
        n2.d25_observed = None
        tree2[p] = n2
    if flavour == "plain":
        r0 = tree2[b""]
        r0.perm, r0.uid, r0.gid, r0.mtime, r0.xattrs = dfl["mode"], dfl["uid"], dfl["gid"], dfl["mtime"], ()
    for k in (1, 2):
        tp = work / ("fix%d.tar" % k)
        r = run(env, "sqfs2tar", s2t_argv(so) + [str(imgs[-1])], stdout_path=str(tp))
        res.cnt["tool_runs"] += 1
        if r.crash or r.rc != 0:
            P.append((crash_key(r) if r.crash else "fix:sqfs2tar-fails:" + err_sig(r.err), "fix-point step tar%d: sqfs2tar %s: %s" % (k, s2t_argv(so), r.err[-300:].decode("latin-1"))))
            return
        tars.append(tp)
        ip = work / ("img%d.sqfs" % (k + 1))
        r = run_t2s(env, o, tp, ip)
        res.cnt["tool_runs"] += 1
        if r.crash or r.rc != 0:
            P.append((crash_key(r) if r.crash else "fix:tar2sqfs-rejects-own-output:" + err_sig(r.err),
                      "fix-point step img%d: tar2sqfs %s on sqfs2tar output: exit %s: %s" % (k + 1, " ".join(map(str, t2s_argv(o))), r.rc, r.err[-300:].decode("latin-1"))))
            return
        imgs.append(ip)
        if k == 1:
            files = [p for p, n in tree2.items() if n.kind == "file"]
            ob = observe_image(env, ip, work, files, c.big_comp, random.Random(c.seed ^ 77), ())
            res.cnt["tool_runs"] += ob.nproc
            P.extend(ob.problems)
            if ob.crashed:
                return
            PP, ne, nb = compare_tree(c, tree2, ob, o, sub="fix")
            fixed = []
            for key, what in PP:
                if key.startswith("fix:symlink-target-changed") and flavour == "rb" and not o["S"]:
                    # same cause as D25, second pass: recognise by the clobber function
                    fixed.append((key, what))
                else:
                    fixed.append((key, what))
            d25 = False
            for p, n2 in tree2.items():
                if n2.kind == "symlink" and flavour == "rb" and not o["S"] and p in ob.desc and ob.desc[p].extra != n2.target \
                        and not n2.prefixed and ob.desc[p].extra == d25_clobbered(n2.src.link, o["rb"]):
                    d25 = True
            if d25:
                fixed = [(("D25:retarget-clobbers-unprefixed-symlink", w) if k_.startswith("fix:symlink-target-changed") else (k_, w)) for k_, w in fixed]
            P.extend(fixed)
            res.cnt["entries_compared"] += ne
            res.cnt["bytes_compared"] += nb
            if fixed:
                res.cnt["fixpoint_stopped_after_tree_mismatch"] += 1
                return
    t1, t2 = tars[0].read_bytes(), tars[1].read_bytes()
    res.cnt["bytes_compared"] += len(t1)
    order_issue = None
    if t1 != t2:
        try:
            m1, m2 = read_with_tarfile(t1), read_with_tarfile(t2)
            flat = lambda ms, srt: [(m.name, m.kind, m.mode, m.uid, m.gid, m.mtime, m.link, m.sha, sorted(m.xattrs) if srt else m.xattrs) for m in ms]   # noqa: E731
            only_order = flat(m1, True) == flat(m2, True) and flat(m1, False) != flat(m2, False)
        except Exception:                                    # noqa: BLE001
            only_order = False
        if only_order:
            ex, ex2 = next((a, b) for a, b in zip(m1, m2) if a.xattrs != b.xattrs)
            order_issue = "member %r: tar1 has keys %r, tar2 has %r" % (ex.name[:80], [k for k, _ in ex.xattrs], [k for k, _ in ex2.xattrs])
            res.cnt["fixpoint_xattr_order_changed"] += 1
    if t1 != t2 and order_issue is None:
        off = first_diff(t1, t2)
        P.append(("fix:tar-differs", "tar1 != tar2 (%s flavour, tar2sqfs %s): lengths %d/%d, first difference at offset %d (block %d)" % (
            flavour, " ".join(map(str, t2s_argv(o))), len(t1), len(t2), off, off // 512)))
    i2, i3 = imgs[1].read_bytes(), imgs[2].read_bytes()
    res.cnt["bytes_compared"] += len(i2)
    if order_issue is not None:
        # xattr order is not semantic, but a byte-exact fix-point needs it to be stable
        if sha(i2) != sha(i3):
            P.append(("fix:xattr-order:no-fixpoint", "no fix-point is ever reached: the order of a member's xattrs changes on every tar2sqfs|sqfs2tar round trip, so "
                      "tar1 != tar2 and img2 != img3 although nothing else differs (%s flavour; %s)" % (flavour, order_issue)))
        else:
            # The property asks for img2 == img3 (the second conversion reproduces the first *image* byte for byte), which holds here.
            # tar1 and tar2 list a member's xattrs in different orders because sqfs2tar emits them in key-table order and img1's key table
            # was filled in archive order, img2's in directory order: not semantic, not a violation; counted only.
            res.cnt["fixpoint_images_identical"] += 1
            res.cnt["fixpoint_tar1_tar2_differ_in_xattr_order_only"] += 1
    elif sha(i2) != sha(i3):
        off = first_diff(i2, i3)
        P.append(("fix:image-differs:" + image_section(i2, off).replace(" ", "-"), "img2 != img3 (%s flavour, tar2sqfs %s): sizes %d/%d, first difference at offset %d in %s" % (
            flavour, " ".join(map(str, t2s_argv(o))), len(i2), len(i3), off, image_section(i2, off))))
    else:
        res.cnt["fixpoint_images_identical"] += 1


# =====================================================================================================
# 8. images with sockets (gensquashfs pack file) for sub-check (B); D27
# =====================================================================================================

def socket_case(env, idx, seed, work):
    """returns (img, tree, has_long) or None"""
    rng = random.Random("sock/%d/%d" % (idx, seed))
    src = work / "src.bin"
    data = rng.randbytes(rng.choice([3, 700, 5000]))
    src.write_bytes(data)
    lines, tree = [], {}

    def node(kind, perm, uid, gid, **kw):
        n = NS(kind=kind, perm=perm, uid=uid, gid=gid, mtime=0, target=None, dev=None, sha=None, size=None, xattrs=(), implicit=False,
               src=None, group=None)
        n.__dict__.update(kw)
        return n
    tree[b""] = node("dir", 0o755, 0, 0)
    tree[b"d"] = node("dir", 0o750, 7, 8)
    lines.append("dir d 0750 7 8")
    variant = idx % 5        # 0 long name; 1 short name with xattr; 2 long + short; 3 long + one in the root; 4 only short names, no xattr
    socks = []
    if variant in (0, 2, 3):
        socks.append("d/" + "s" * ([120, 100, 99, 255][(idx // 5) % 4] - 2))      # whole name 120/100/99/255 bytes
    if variant in (1, 2, 4):
        socks.append("d/short.sock")
    if variant in (3, 4):
        socks.append("rootsock")
    xattr_sock = None
    if variant == 1:
        xattr_sock = "d/short.sock"
    for s in socks:
        lines.append("sock %s 0644 1 2" % s)
        tree[s.encode()] = node("sock", 0o644, 1, 2, xattrs=((b"user.sk", b"v"),) if s == xattr_sock else ())
    lines.append("file d/zfile 0640 3 4 %s" % src)
    tree[b"d/zfile"] = node("file", 0o640, 3, 4, sha=sha(data), size=len(data))
    lines.append("slink d/zlink 0777 0 0 zfile")
    tree[b"d/zlink"] = node("symlink", 0o777, 0, 0, target=b"zfile")
    lines.append("file zz 0600 0 0 %s" % src)
    tree[b"zz"] = node("file", 0o600, 0, 0, sha=sha(data), size=len(data))
    pf = work / "pack.txt"
    pf.write_text("\n".join(lines) + "\n")
    args = ["-q", "-f", "-F", str(pf)]
    if xattr_sock:
        xf = work / "xattr.txt"
        xf.write_text('# file: %s\nuser.sk="v"\n' % xattr_sock)
        args += ["-A", str(xf)]
    img = work / "sock.sqfs"
    r = run(env, "gensquashfs", args + [str(img)])
    if r.rc != 0 or r.crash:
        return None, "gensquashfs failed: " + r.err[-200:].decode("latin-1"), None
    return img, tree, lines


def d27_applies(tree, so):
    """does a skipped socket in this selection leave extension records (long name or xattrs) behind?"""
    t2 = {p: (NS(**{**n.__dict__, "kind": "fifo"}) if n.kind == "sock" else n) for p, n in tree.items()}
    names = {m.name for m in expected_members(tree, so)}
    for m in expected_members(t2, so):
        if m.name not in names and (len(m.name) >= 100 or m.xattrs):
            return True
    return False


# =====================================================================================================
# 9. driver
# =====================================================================================================

def new_res():
    return NS(problems=[], tagged=[], cnt=collections.Counter(), hist=collections.Counter(), selfcheck_bad=[], internal=[], sample=None, wall=0.0)


def so_json(so):
    return {"rb": so["rb"].hex() if so.get("rb") is not None else None, "subdirs": [d.hex() for d in so.get("subdirs", [])],
            "keep": bool(so.get("keep")), "X": bool(so.get("X")), "L": bool(so.get("L")), "s": bool(so.get("s"))}


def so_unjson(j):
    so = {}
    if j.get("rb") is not None:
        so["rb"] = bytes.fromhex(j["rb"])
    if j.get("subdirs"):
        so["subdirs"] = [bytes.fromhex(d) for d in j["subdirs"]]
    for k in ("keep", "X", "L", "s"):
        if j.get(k):
            so[k] = True
    return so


def pick_s2t_opts(rnd, tree, n):
    dirs = sorted(p for p, x in tree.items() if x.kind == "dir" and p)
    nond = sorted(p for p, x in tree.items() if x.kind != "dir")
    cands = [{}, {"rb": rnd.choice([b"X", b"new/root", b"r"])}, {"rb": b"."}, {"X": True}, {"L": True}, {"L": True, "X": True, "rb": b"q"}]

    def spell(d):
        return rnd.choice([d, d, b"./" + d + b"/", b"/" + d])
    if dirs:
        d1 = rnd.choice(dirs)
        cands += [{"subdirs": [spell(d1)]}, {"subdirs": [spell(d1)], "keep": True}, {"subdirs": [spell(d1)], "rb": b"sub"}, {"subdirs": [spell(d1)], "L": True}]
        if len(dirs) > 1:
            cands.append({"subdirs": [spell(x) for x in rnd.sample(dirs, 2)]})
            cands.append({"subdirs": [spell(x) for x in rnd.sample(dirs, min(3, len(dirs)))], "rb": b"multi"})
    if nond and rnd.random() < 0.3:
        cands.append({"subdirs": [rnd.choice(nond)], "keep": True})
    if rnd.random() < 0.2:
        cands.append({"subdirs": [b"does/not/exist"]})
    first = [{}] if rnd.random() < 0.4 else []
    rest = rnd.sample(cands, min(len(cands), n))
    return (first + rest)[:n]


def process_case(env, c, do_b, do_c, name, only=None):
    """whole pipeline for one generated case (runs in a worker thread).  only: None or dict(sub=..., so=..., flavour=...)"""
    res = new_res()
    t0 = time.time()
    work = env.workdir(name)

    def tag(start, sub, **extra):
        for k, w in res.problems[start:]:
            res.tagged.append((k, w, dict(sub=sub, **extra)))
        del res.problems[start:]
    try:
        a = check_A(env, c, work, res)
        tag(0, "A")
        if a is not None:
            img, tree = a
            rnd = random.Random(c.seed ^ 0xB0B)
            sets = pick_s2t_opts(rnd, tree, do_b)
            if only and only.get("sub") == "B":
                sets = [only["so"]]
            elif only:
                sets = []
            for j, so in enumerate(sets):
                check_B(env, img, tree, so, work, res, rnd, tag=str(j))
                tag(0, "B", s2t=so_json(so), s2t_argv=[x if isinstance(x, str) else x.decode("latin-1") for x in s2t_argv(so)])
            fls = do_c if not only else ([only["flavour"]] if only.get("sub") == "C" else [])
            for fl in fls:
                check_C(env, c, img, tree, work, res, fl)
                tag(0, "C", flavour=fl)
            res.sample = dict(profile=c.profile, idx=c.idx, case_seed=c.seed, dialect=c.dialect, tar2sqfs=" ".join(map(str, t2s_argv(c.opts))),
                              archive_bytes=len(c.archive), archive_members=len(c.entries), image_entries=len(tree),
                              sqfs2tar=[" ".join(x if isinstance(x, str) else x.decode("latin-1") for x in s2t_argv(s)) for s in sets], fixpoint=list(fls))
    except Exception:                                          # noqa: BLE001
        import traceback
        res.internal.append("%s#%d: %s" % (c.profile, c.idx, traceback.format_exc()[-1500:]))
    finally:
        shutil.rmtree(work, ignore_errors=True)
    res.wall = time.time() - t0
    return res


def process_socket(env, idx, seed, name, only=None):
    res = new_res()
    work = env.workdir(name)
    try:
        img, tree, lines = socket_case(env, idx, seed, work)
        if img is None:
            res.internal.append("sock#%d: %s" % (idx, tree))
            return res
        res.cnt["socket_images"] += 1
        rnd = random.Random(seed ^ idx)
        sets = [{}, {"rb": b"X"}, {"subdirs": [b"d"]}, {"s": True}, {"L": True, "subdirs": [b"d"], "keep": True}]
        sets = [sets[idx % len(sets)], sets[(idx + 1 + idx // len(sets)) % len(sets)]]
        if only:
            sets = [only["so"]]
        for j, so in enumerate(sets):
            res.hist["socket-variant:%d:%s" % (idx % 5, "long-name" if d27_applies(tree, so) else "plain")] += 1
            check_B(env, img, tree, so, work, res, rnd, has_socket=True, tag=str(j))
            for k, w in res.problems:
                res.tagged.append((k, w, dict(sub="S", s2t=so_json(so), pack_file=lines)))
            res.problems.clear()
    except Exception:                                          # noqa: BLE001
        import traceback
        res.internal.append("sock#%d: %s" % (idx, traceback.format_exc()[-1500:]))
    finally:
        shutil.rmtree(work, ignore_errors=True)
    return res


QUICK_PLAN = [("mixed", 110), ("names", 30), ("comp255", 8), ("nums", 28), ("sizes", 12), ("sparse", 32), ("retarget", 20), ("xattr", 16),
              ("probe", 17), ("malformed", 10)]
SEED_GLOBS = ["lib/tar/test/data/*/*.tar", "bin/tar2sqfs/test/*.tar"]


def seed_files():
    out = []
    for g in SEED_GLOBS:
        for p in sorted(vlib.REPO.glob(g)):
            rel = p.relative_to(vlib.REPO).as_posix()
            if "/file-size/" in rel:                           # truncated multi-GiB members (the repo's own test skips them too)
                continue
            out.append(rel)
    return out


def replay_of(c, key, extra):
    rp = dict(key=key, gen_version=GEN_VERSION, profile=c.profile, idx=c.idx, case_seed=c.seed, quick=c.quick, dialect=c.dialect,
              tar2sqfs_argv=[x if isinstance(x, str) else x.decode("latin-1") for x in t2s_argv(c.opts)], source_date_epoch=c.opts.get("sde"),
              archive_sha256=sha(c.archive), archive_len=len(c.archive))
    if len(c.archive) <= 24576:
        rp["archive_hex"] = c.archive.hex()
    rp.update(extra)
    return rp


def run_tools(ctx):
    t0 = time.time()
    env = Env(ctx)
    mult = 1 if ctx.quick() else 14
    jobs = []
    for prof, n in QUICK_PLAN:
        for i in range(n * mult):
            jobs.append((prof, i))
    for rel in seed_files():
        jobs.append(("seed:" + rel, 0))
    cases = []
    for prof, i in jobs:
        seed = ctx.rng.getrandbits(48)
        do_b = ctx.rng.choice([1, 2, 2]) if not prof.startswith(("probe", "malformed")) else 0
        do_c = ctx.rng.choice([[], [], ["plain"], ["rb"], ["plain", "rb"]])
        if prof.startswith("seed:"):
            do_b, do_c = 2, ["plain", "rb"]
        cases.append((prof, i, seed, do_b, do_c))
    nsock = 10 * (1 if ctx.quick() else 4)
    sock_seed = ctx.rng.getrandbits(32)
    total = new_res()
    per_dialect, optsets, samples, vio_counts = collections.Counter(), collections.Counter(), [], collections.Counter()
    gen_time = [0.0]

    def work(j):
        prof, i, seed, do_b, do_c = cases[j]
        t = time.time()
        try:
            c = gen_case(prof, i, seed, ctx.quick())
        except Exception:                                      # noqa: BLE001  (generator bug: report, keep going)
            import traceback
            r = new_res()
            r.internal.append("generator failed for %s#%d seed %d: %s" % (prof, i, seed, traceback.format_exc()[-1200:]))
            return NS(profile=prof, idx=i, seed=seed, dialect="generator-error", opts=gen_opts(random.Random(0), prof), hist=collections.Counter(),
                      archive=b"", entries=[], quick=ctx.quick()), r
        gen_time[0] += time.time() - t
        return c, process_case(env, c, do_b, do_c, "c%d" % j)

    results = [None] * len(cases)
    with concurrent.futures.ThreadPoolExecutor(max_workers=6) as ex:
        futs = {ex.submit(work, j): j for j in range(len(cases))}
        sfuts = {ex.submit(process_socket, env, k, sock_seed, "s%d" % k): k for k in range(nsock)}
        for f in concurrent.futures.as_completed(list(futs)):
            results[futs[f]] = f.result()
        sres = [None] * nsock
        for f in concurrent.futures.as_completed(list(sfuts)):
            sres[sfuts[f]] = f.result()

    def report(key, what, rp):
        vio_counts[key] += 1
        if vio_counts[key] <= 2:
            ctx.violation(key, what, rp)

    for j, (c, res) in enumerate(results):                     # deterministic order
        per_dialect[c.dialect] += 1
        optsets[" ".join(a for a in map(str, t2s_argv(c.opts)) if a not in ("-q", "-f"))] += 1
        total.cnt.update(res.cnt)
        total.hist.update(res.hist)
        total.hist.update(c.hist)
        total.hist["profile:" + c.profile.split(":")[0]] += 1
        total.selfcheck_bad += res.selfcheck_bad
        total.internal += res.internal
        if res.sample and len(samples) < 5 and j % max(1, len(results) // 5) == 0:
            samples.append(res.sample)
        for key, what, extra in res.tagged:
            report(key, what, replay_of(c, key, extra))
    for k, res in enumerate(sres):
        total.cnt.update(res.cnt)
        total.hist.update(res.hist)
        total.internal += res.internal
        for key, what, extra in res.tagged:
            report(key, what, dict(key=key, profile="sock", idx=k, case_seed=sock_seed, **extra))
    for msg in total.internal[:3]:
        ctx.violation("internal:c04-tools-exception", "the tool-level check itself failed: " + msg, {"trace": msg}, found_input=False)
    for msg in total.selfcheck_bad[:3]:
        ctx.violation("internal:c04-generator-selfcheck", "generator description disagrees with an independent reader (check bug, not a finding): " + msg,
                      {"detail": msg}, found_input=False)
    stats = {
        "archives_total": len(cases), "archives_per_dialect": dict(per_dialect), "socket_images": total.cnt["socket_images"],
        "tar2sqfs_option_combinations": len(optsets), "tar2sqfs_option_combinations_top": dict(optsets.most_common(12)),
        "entries_compared": total.cnt["entries_compared"], "bytes_compared": total.cnt["bytes_compared"],
        "fixpoint_runs": total.cnt["fixpoint_runs"], "fixpoint_images_identical": total.cnt["fixpoint_images_identical"],
        "gnutar_readbacks": total.cnt["gnutar_readbacks"] + total.cnt["gnutar_listings_of_input"], "gnutar_extractions": total.cnt["gnutar_extractions"],
        "tarfile_readbacks": total.cnt["tarfile_readbacks"] + total.cnt["tarfile_readbacks_of_input"],
        "counters": dict(total.cnt), "histograms": {k: total.hist[k] for k in sorted(total.hist)},
        "violation_counts": dict(vio_counts), "generator_selfcheck_mismatches": len(total.selfcheck_bad), "internal_errors": len(total.internal),
        "samples": samples, "generation_cpu_s": round(gen_time[0], 2), "wall_s": round(time.time() - t0, 2),
    }
    # a part that evaluated nothing is a failure of the check infrastructure, never a pass
    nseed = sum(1 for prof, *_ in cases if prof.startswith("seed:"))
    floors = {"entries_compared": stats["entries_compared"], "fixpoint_runs": stats["fixpoint_runs"], "gnutar_readbacks": total.cnt["gnutar_readbacks"],
              "tarfile_readbacks": total.cnt["tarfile_readbacks"], "socket_images": stats["socket_images"], "tool_runs": total.cnt["tool_runs"]}
    empty = [k for k, v in floors.items() if not v]
    if nseed and 2 * total.cnt["seed_archives_skipped_readers_disagree"] > nseed:
        empty.append("seed archives: %d of %d skipped because the independent readers disagree about them" % (
            total.cnt["seed_archives_skipped_readers_disagree"], nseed))
    if empty:
        raise vlib.CheckFailure("C04 tool level: sub-checks that evaluated nothing: %s" % empty)
    return stats


def replay_tools(ctx, rp):
    env = Env(ctx)
    print("replaying key %s (profile %s idx %s seed %s)" % (rp.get("key"), rp.get("profile"), rp.get("idx"), rp.get("case_seed")))
    only = None
    if rp.get("sub") in ("B", "S") and rp.get("s2t") is not None:
        only = dict(sub="B", so=so_unjson(rp["s2t"]))
    elif rp.get("sub") == "C":
        only = dict(sub="C", flavour=rp.get("flavour", "plain"))
    else:
        only = dict(sub="A")
    if rp.get("profile") == "sock":
        res = process_socket(env, rp["idx"], rp["case_seed"], "replay", only=only)
    else:
        c = gen_case(rp["profile"], rp["idx"], rp["case_seed"], rp.get("quick", True))
        if rp.get("archive_sha256") and sha(c.archive) != rp["archive_sha256"]:
            print("WARNING: regenerated archive differs from the recorded one (generator version %s vs %s, or $VERIF_REPO seed file changed)" % (
                GEN_VERSION, rp.get("gen_version")))
        print("archive: %d bytes, %d members, dialect %s; tar2sqfs %s" % (len(c.archive), len(c.entries), c.dialect, " ".join(map(str, t2s_argv(c.opts)))))
        res = process_case(env, c, 0, [], "replay", only=only)
    for m in res.internal + res.selfcheck_bad:
        print("INTERNAL:", m)
    hit = False
    for key, what, extra in res.tagged:
        print("problem [%s] %s" % (key, what))
        hit = hit or key == rp.get("key") or rp.get("key") is None
    if not res.tagged:
        print("no problem found: the recorded violation does not reproduce")
    elif not hit:
        print("other problems found, but not the recorded key")
    return 1 if hit else 0


if __name__ == "__main__":
    tier = sys.argv[1] if len(sys.argv) > 1 else "quick"
    _ctx = vlib.Ctx("C04", tier)
    if tier == "replay":
        body = json.loads(open(sys.argv[2]).read())
        sys.exit(replay_tools(_ctx, body.get("replay", body)))
    _st = run_tools(_ctx)
    print(json.dumps(_st, indent=1, default=str))
    print("violations: %d, known findings hit: %d" % (len(_ctx.violations), len(_ctx.known_hits)))
    for _v in _ctx.violations:
        print("  ", _v["key"], "|", _v["what"][:300])
    if not os.environ.get("C04_KEEP_REPLAYS"):                # standalone debugging run: do not litter replays/
        for _v in _ctx.violations:
            try:
                os.unlink(_v["replay"])
            except OSError:
                pass
