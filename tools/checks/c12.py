"""
C12 — results do not depend on how the OS splits reads and writes.

Proof: lean/Sqfs/Props/C12.lean over the models lean/Sqfs/Model/{IoLoops,XfrmStream,C12TarStream}.lean (retry loops of
file.c / ostream.c / unix.c, the buffered file istream, sqfs_istream_read/skip/splice, istream_get_line,
record_to_memory, the transforming streams of lib/xfrm, the member stream of the tar iterator and the head of it_next),
for every OS script of short counts / EINTR / hard errors.

Tie (a), in process: harness/h_c12.c links the real sources of the working tree; read/write/pread/pwrite/lseek/
ftruncate/fsync are redirected at link time (--wrap) to functions that answer from the scenario's OS script and
serve the data from memory.  The same scenario lines go to `sqfsmodel c12`; outputs (status, bytes, private
stream state, number of script events consumed, the call-by-call trace) are diffed as strings.  The buffer sizes are
read from the code (`bufsz`/`xbufsz` ops); additional builds of the *same* istream.c / xfrm istream.c / xfrm ostream.c
with only the BUFSZ constants changed (1, 7, 64) make every buffer boundary reachable with byte-sized chunks — the
check fails (CheckFailure) when such a build cannot be made or does not have the wanted sizes.  The harness processes
hand the streams descriptors of different kinds (FDTYPES), since no data flows through them anyway.
The property itself is evaluated on the implementation: the run under a script of short counts/EINTRs must
equal the implementation's own run under the empty script, the ideal-stream specification (`sqfsmodel c12 spec`)
and, for line readers, the byte-at-a-time scanner (`lines`); under hard errors "status 0 ⇒ complete transfer" is
checked by independent monitors; for tar members an independent monitor recomputes the expanded member content.

Tie (b), tool level: harness/shim_io.c (LD_PRELOAD: seeded short counts and EINTR on read/write/pread/pwrite)
on un-sanitized builds of gensquashfs, tar2sqfs, sqfs2tar, rdsquashfs plus a pipe/socket feeder that delivers stdin in
chunks down to one byte and drains stdout slowly; sha256 of the image / archive / unpacked tree and the exit
status must equal the unperturbed run's.

Every part has a floor: a part that evaluated nothing (or too little) raises CheckFailure, which tools/check reports as
a violation — never a pass.
"""
import hashlib, io, json, os, re, subprocess, tarfile, threading, time
import vlib
import c12_tools
import c12_census

LEVEL = "proof"
MODULE = "Sqfs.Props.C12"
REQUIRED = ["Sqfs.C12.read_at_spec", "Sqfs.C12.read_at_never_short", "Sqfs.C12.write_at_spec",
            "Sqfs.C12.write_at_never_short", "Sqfs.C12.write_all_spec", "Sqfs.C12.write_all_never_short",
            "Sqfs.C12.istream_bytes", "Sqfs.C12.client_history_script_independent", "Sqfs.C12.read_skip_splice_spec",
            "Sqfs.C12.get_line_chunking_independent", "Sqfs.C12.record_to_memory_spec",
            "Sqfs.C12.xfrm_istream_chunking_independent", "Sqfs.C12.xfrm_ostream_script_independent",
            "Sqfs.C12.tar_member_stream_chunking_independent", "Sqfs.C12.tar_member_run_chunking_independent",
            "Sqfs.C12.tar_member_run_decompressed_chunking_independent",
            "Sqfs.C12.drain_compressed_stream_chunking_independent"]
WRAP = ["read", "write", "pread", "pwrite", "pread64", "pwrite64", "lseek", "lseek64", "ftruncate", "ftruncate64", "fsync",
        # tar_open_stream asks these two for the decompressor behind a magic: the harness answers with its toy decompressor,
        # so that the real tar_open_stream takes its `compressed = true` branch (xtarstrm)
        "xfrm_compressor_id_from_magic", "decompressor_stream_create"]
ISTREAM_C = "lib/sqfs/src/io/istream.c"
OSTREAM_C = "lib/sqfs/src/io/ostream.c"
XISTREAM_C = "lib/xfrm/src/istream.c"
XOSTREAM_C = "lib/xfrm/src/ostream.c"
TARITER_C = "lib/tar/src/iterator.c"
SMALL_B = [1, 7, 64]
# buffer sizes of the xfrm istream / ostream in the small-buffer builds (same source text, BUFSZ replaced)
SMALL_BX = {1: (4, 2), 7: (16, 16), 64: (23, 9)}
HARNESS_SRC = ["h_c12.c", "h_c12_peek_istream.c", "h_c12_peek_ostream.c", "h_c12_peek_xistream.c", "h_c12_peek_xostream.c",
               "h_c12_peek_tar.c"]
# every place where the tree calls read/write/pread/pwrite/…/sendfile/copy_file_range (census from the clang AST on every
# run) and the model function that describes its retry loop; a site that is not listed here has no model
SYSCALL_SITES = {
    "lib/sqfs/src/io/file.c:stdio_read_at:pread": "readAtLoop",
    "lib/sqfs/src/io/file.c:stdio_write_at:pwrite": "writeAtLoop",
    "lib/sqfs/src/io/ostream.c:write_all:write": "writeAllLoop",
    "lib/sqfs/src/io/istream.c:precache:read": "precacheLoop",
}
FDTYPES = "npsft"        # what the stream descriptors of a harness process are: /dev/null, pipe, socket, regular file, pty
LONG_BURSTS = [65, 66, 100, 130, 300, 1500]   # EINTR runs longer than any plausible retry cap (64, 100, 128, 256, 1000, 1024)
def _const(name, default):
    """value of a generated constant (lean/Sqfs/Generated/Consts.lean is rewritten from the headers on every run)"""
    try:
        m = re.search(r"def %s : Nat := (\d+)" % name, (vlib.LEAN / "Sqfs/Generated/Consts.lean").read_text())
        return int(m.group(1)) if m else default
    except OSError:
        return default


ERR_COMPRESSOR = _const("errCompressor", 3)   # to recognise codec errors of the toy codec in a monitor
STREAMK = ("istream", "xistream", "xostream", "tarstrm", "xtarstrm")
HARNESS_TIMEOUT = 600     # seconds per harness process; an idle machine needs < 5 s (quick) / < 60 s (thorough)


# ------------------------------------------------------------------------------------------------ tokens
def fnv64(b):
    h = 0xcbf29ce484222325
    for x in b:
        h = ((h ^ x) * 0x100000001b3) & 0xFFFFFFFFFFFFFFFF
    return h


def dtok(b):
    if len(b) == 0:
        return "-"
    if len(b) <= 48:
        return b.hex()
    return "#%d:%016x" % (len(b), fnv64(b))


A1 = [97, 98, 99, 32, 9, 13, 10, 10]
A3 = [97, 32, 10, 0, 13, 200, 9, 10, 98, 32]


def gen_data(seed, n, mode):
    x, out = seed, bytearray()
    for _ in range(n):
        x = (x * 6364136223846793005 + 1442695040888963407) & 0xFFFFFFFFFFFFFFFF
        v = x >> 33
        if mode == 0:
            out.append(v % 256)
        elif mode == 1:
            out.append(A1[v % 8])
        elif mode == 2:
            out.append(10 if v % 1000 == 0 else 97 + v % 26)
        else:
            out.append(A3[v % 10])
    return bytes(out)


def parse_data(t):
    if "+" in t:
        return b"".join(parse_data(x) for x in t.split("+"))
    if t == "-":
        return b""
    if t.startswith("g"):
        s, n, m = t[1:].split(":")
        return gen_data(int(s), int(n), int(m))
    return bytes.fromhex(t)


def hexdata(b):
    return b.hex() if b else "-"


def is_hard(script):
    return any(e in ("e", "z") for e in script)


def script_tok(script):
    return ",".join(script) if script else "-"


# ------------------------------------------------------------------------------------------------ generators
def gen_script(rng, nmax, kbig, hard):
    n = rng.choice([0, 1, 2, 3, 5, 8, nmax]) if rng.random() < 0.5 else rng.randint(0, nmax)
    sc = []
    while len(sc) < n:
        r = rng.random()
        if r < 0.55:
            k = rng.choice([0, 0, 0, 1, 2, 3, 7, rng.randint(0, kbig), kbig])
            sc.append("p%d" % k)
        else:
            sc.extend(["i"] * rng.choice([1, 1, 2, 5]))
    if rng.random() < 0.04:
        # an EINTR run longer than any plausible retry cap; at the very first call in a third of the cases
        pos = 0 if rng.random() < 0.35 else rng.randint(0, len(sc))
        sc[pos:pos] = ["i"] * rng.choice(LONG_BURSTS)
    if hard and (sc or rng.random() < 0.5):
        pos = rng.randint(0, len(sc))
        sc.insert(pos, rng.choice(["e", "z"]))
    return sc


def small_data(rng, maxlen=40):
    n = rng.choice([0, 1, 2, 3, rng.randint(0, maxlen), maxlen])
    mode = rng.random()
    if mode < 0.5:
        return bytes(rng.choice(A3 + [0xEE]) for _ in range(n))
    return bytes(rng.randint(0, 255) for _ in range(n))


def around(rng, v, lo=0):
    return max(lo, v + rng.choice([-2, -1, 0, 0, 1, 2]))


def gen_readat(rng, big):
    if big:
        n = rng.choice([4096, 65536, 200000])
        d = "g%d:%d:0" % (rng.randint(0, 999), n)
        kbig = n
    else:
        data = small_data(rng)
        n, d, kbig = len(data), hexdata(data), 12
    off = rng.choice([0, 0, around(rng, n), rng.randint(0, n + 2)])
    size = rng.choice([0, 1, around(rng, max(0, n - off)), rng.randint(0, n + 3)])
    hard = rng.random() < 0.25
    sc = gen_script(rng, 24 if not big else 60, kbig, hard)
    return {"kind": "readat", "B": 0, "script": sc,
            "line": "readat %s %d %d %s" % (d, off, size, script_tok(sc)),
            "full": "readat %s %d %d -" % (d, off, size), "args": (d, off, size)}


def gen_writeat(rng, big):
    f = small_data(rng, 24)
    if big:
        n = rng.choice([5000, 70000])
        d = "g%d:%d:0" % (rng.randint(0, 999), n)
        kbig = n
    else:
        data = small_data(rng, 24)
        n, d, kbig = len(data), hexdata(data), 12
    off = rng.choice([0, around(rng, len(f)), rng.randint(0, len(f) + 6)])
    hard = rng.random() < 0.25
    sc = gen_script(rng, 20 if not big else 50, kbig, hard)
    return {"kind": "writeat", "B": 0, "script": sc,
            "line": "writeat %s %d %s %s" % (hexdata(f), off, d, script_tok(sc)),
            "full": "writeat %s %d %s -" % (hexdata(f), off, d), "args": (hexdata(f), off, d)}


def gen_ostream(rng, big):
    ops = []
    for _ in range(rng.randint(0, 7)):
        r = rng.random()
        if r < 0.5:
            if big and rng.random() < 0.3:
                ops.append("dg%d:%d:0" % (rng.randint(0, 99), rng.choice([1500, 70000])))
            else:
                ops.append("d" + hexdata(small_data(rng, 12)))
        elif r < 0.85:
            ops.append("h%d" % rng.choice([0, 1, 5, 1023, 1024, 1025, 2047, 2048, 2049, 3000, rng.randint(0, 5000)]))
        else:
            ops.append("f")
    if rng.random() < 0.7:
        ops.append("f")
    fl = rng.choice("sn")
    hard = rng.random() < 0.25
    if not big and rng.random() < 0.12:
        # a client that keeps calling after a failure (compares the state a failed call leaves behind, e.g. the
        # descriptor position after a failed ftruncate); always with a hard event
        fl, hard = fl.upper(), True
        ops += [rng.choice(["f", "h%d" % rng.randint(0, 9), "d" + hexdata(small_data(rng, 4))]) for _ in range(rng.randint(1, 3))]
    sc = gen_script(rng, 30, 1100 if not big else 70000, hard)
    if fl in "SN" and not is_hard(sc):
        sc.insert(rng.randint(0, len(sc)), "e")
    o = ",".join(ops) if ops else "-"
    return {"kind": "ostream", "B": 0, "script": sc, "line": "ostream %s %s %s" % (fl, o, script_tok(sc)),
            "full": "ostream %s %s -" % (fl, o), "args": (fl, ops)}


def gen_istream(rng, B, big):
    if big:
        n = rng.choice([B - 1, B, B + 1, 2 * B - 1, 2 * B, 2 * B + 1, 3 * B + 17, rng.randint(0, 3 * B)])
        mode = rng.choice([0, 1, 2, 2, 3])
        d = "g%d:%d:%d" % (rng.randint(0, 999), n, mode)
    else:
        n = rng.choice([0, 1, B - 1, B, B + 1, 2 * B, 2 * B + 1, rng.randint(0, 4 * B + 8), rng.randint(0, 40)])
        n = max(0, n)
        if rng.random() < 0.5:
            d = hexdata(bytes(rng.choice(A3) for _ in range(n)))
        else:
            d = hexdata(bytes(rng.choice([10, 13, 32, 97, rng.randint(0, 255)]) for _ in range(n)))
    ops = []
    style = rng.random()
    nops = rng.randint(1, 10)
    if not big and style >= 0.85:             # tar-like client: records with padding, reads and skips over ≥ 512-byte content
        n = rng.choice([511, 512, 513, 1023, 1024, 1025, rng.randint(500, 2100)])
        d = "g%d:%d:%d" % (rng.randint(0, 999), n, rng.choice([0, 3]))
    for _ in range(nops):
        r = rng.random()
        if not big and style >= 0.85:
            sz = rng.choice([1, 5, 17, 100, 511, 512, 513, rng.randint(1, 700)])
            ops.append(rng.choice(["M%d", "M%d", "R%d", "S%d", "P%d"]) % sz)
        elif style < 0.3:                     # line reader
            ops.append("L%d" % rng.randint(0, 7))
        elif style < 0.5:                     # raw window client
            w = rng.choice([0, 1, around(rng, B), rng.randint(0, 2 * B + 2)])
            ops.append("g%d" % w)
            ops.append("a%d" % rng.choice([0, 1, around(rng, min(w, B)), rng.randint(0, B + 2)]))
        else:
            sz = rng.choice([0, 1, 3, 511, 512, 513, around(rng, B), rng.randint(0, 3 * B + 3), rng.randint(0, n + 3)])
            if not big:
                sz = min(sz, 4 * B + 600)
            if r < 0.15:
                ops.append("g%d" % rng.choice([0, 1, around(rng, B), sz]))
            elif r < 0.3:
                ops.append("a%d" % rng.randint(0, B + 2))
            elif r < 0.5:
                ops.append("R%d" % sz)
            elif r < 0.6:
                # sqfs_istream_skip takes a 64-bit count, splice a 32-bit one that is clamped to 0x7FFFFFFF
                ops.append("S%d" % (sz if rng.random() < 0.9 else rng.choice([0x7FFFFFFF, 0x80000000, 0xFFFFFFFF, 1 << 40])))
            elif r < 0.75:
                ops.append("P%d" % (sz if rng.random() < 0.9 else rng.choice([0x7FFFFFFF, 0x80000000, 0xFFFFFFFF])))
            elif r < 0.9:
                ops.append("L%d" % rng.randint(0, 7))
            else:
                ops.append("M%d" % rng.choice([1, 5, 511, 512, 513, min(sz, 2000)]))
    fl = rng.choice("sn")
    hard = rng.random() < 0.2
    sc = gen_script(rng, 40 if not big else 120, (B if B > 8 else 8) if not big else B, hard)
    o = ",".join(ops)
    r = {"kind": "istream", "B": B, "script": sc,
         "line": "istream %d %s %s %s %s" % (B, fl, d, o, script_tok(sc)),
         "full": "istream %d %s %s %s -" % (B, fl, d, o), "spec": "spec %d %s %s" % (B, d, o), "args": (d, ops)}
    if all(x[0] == "L" for x in ops):
        # a pure line reader: also against the byte-at-a-time scanner Spec.nextLine (no stream, no buffer size)
        r["lines"] = "lines %s %s" % (",".join(x[1:] for x in ops), d)
    return r


def expand_member(record, filesize, sparse):
    """the content tar2sqfs must see for a member: data regions from the record back to back, zeros elsewhere"""
    if not sparse:
        return record[:filesize]
    out = bytearray(filesize)
    pos = 0
    for off, cnt in sparse:
        chunk = record[pos:pos + cnt]
        pos += cnt
        if off < filesize:
            out[off:off + len(chunk)] = chunk[:max(0, filesize - off)]
    return bytes(out)


Z_MAGIC = 0xC1


def z_decode(z):
    """what the toy decompressor (harness z_process / model zProc) makes of a stream: (decoded bytes up to the first error,
    damaged?) — damaged = wrong magic, length byte 0xFF, or the input ends anywhere but behind the end mark"""
    if not z or z[0] != Z_MAGIC:
        return b"", True
    out, i = bytearray(), 1
    while True:
        if i >= len(z):
            return bytes(out), True                  # truncated: no end mark
        ln = z[i]
        if ln == 0:
            return bytes(out), False                 # end mark; what follows is ignored
        if ln == 255:
            return bytes(out), True
        out += z[i + 1:i + 1 + ln]
        if i + 1 + ln > len(z):
            return bytes(out), True                  # truncated inside a block
        i += 1 + ln


def z_encode(rng, arch, marker_end, big):
    """a stream of the toy compressor for `arch`, possibly truncated / damaged behind the first header block.
    marker_end: offset in `arch` behind the end-of-archive marker (None when the archive has none).
    Returns (stream, mode)."""
    blocks, pos = [], 0                              # (archive offset, length)
    while pos < len(arch):
        ln = 254 if big and rng.random() < 0.95 else rng.choice([1, 2, 5, 100, 253, 254, rng.randint(1, 254)])
        ln = min(ln, len(arch) - pos)
        blocks.append((pos, ln))
        pos += ln
    def emit(upto=None, badlen_at=None):
        out = bytearray([Z_MAGIC])
        for k, (p, ln) in enumerate(blocks):
            if upto is not None and k >= upto:
                return out, False
            if badlen_at == k:
                out.append(255)
                out += arch[p:p + min(ln, 3)]
                return out, False
            out.append(ln)
            out += arch[p:p + ln]
        if badlen_at == len(blocks):
            out.append(255)
            return out, False
        return out, True
    r = rng.random()
    later = [k for k, (p, ln) in enumerate(blocks) if p >= 512]
    behind = [k for k, (p, ln) in enumerate(blocks) if marker_end is not None and p >= marker_end] + \
             ([len(blocks)] if marker_end is not None else [])
    if r < 0.35 or not later:
        out, _ = emit()
        out.append(0)
        if rng.random() < 0.3:
            out += bytes(rng.randint(0, 255) for _ in range(rng.choice([1, 5, 6, 70, 600])))
            return bytes(out), "ok+garbage"
        return bytes(out), "ok"
    if r < 0.55:
        out, _ = emit()                               # everything but the end mark
        return bytes(out), "no-end-mark"
    if r < 0.7:
        out, _ = emit()
        lo = next(i for i in range(len(out) + 1) if len(z_decode(bytes(out[:i]))[0]) >= 512 or i == len(out))
        cut = rng.randint(lo, len(out)) if rng.random() < 0.6 or not behind else \
            rng.randint(min(len(out), lo + (marker_end - 512)), len(out))
        return bytes(out[:max(cut, 1)]), "truncated"
    k = rng.choice(behind) if behind and rng.random() < 0.6 else rng.choice(later + [len(blocks)])
    out, _ = emit(badlen_at=k)
    return bytes(out), "bad-length"


def gen_tarstrm(rng, B, big, BX=None):
    """one archive member (plain or old-GNU sparse) read through the real tar iterator's member stream; with BX the
    input is a stream of the toy compressor (intact, with trailing garbage, without its end mark, truncated, or with a bad
    length byte behind the first header block): the real tar_open_stream finds the magic, wraps the file istream into the
    transforming istream around the toy decompressor and sets `compressed`, so that it_next drains the rest of the stream
    at the end of the archive and reports the decompressor's error"""
    sparse = []
    if rng.random() < 0.6:
        # sorted, non-overlapping data regions; holes around the 4096-byte zero window of the member stream
        nreg = rng.randint(1, 4)
        pos = 0
        for _ in range(nreg):
            pos += rng.choice([0, 1, 7, 511, 512, 4095, 4096, 4097, rng.randint(0, 9000)] if not big else [0, 5000, B - 1, B + 1])
            cnt = rng.choice([0, 1, 5, 511, 512, 513, rng.randint(0, 1500)] if not big else [1, 4096, B // 2, B + 3])
            sparse.append((pos, cnt))
            pos += cnt
        filesize = pos + rng.choice([0, 0, 1, 4096, 5000, rng.randint(0, 9000)])
        recsize = sum(c for _, c in sparse) + rng.choice([0, 0, 0, 1, 600])
    else:
        recsize = rng.choice([0, 1, 5, 511, 512, 513, 1000, rng.randint(0, 3000)] if not big else [B - 1, B, B + 1, 2 * B + 17])
        filesize = recsize
    hdr = c12_tools.tar_header(b"m%d" % rng.randint(0, 99), recsize, sparse, filesize)
    pad = (512 - recsize % 512) % 512
    cut = rng.random()
    if cut < 0.12 and recsize > 0:
        body_len, tail = rng.randint(0, recsize - 1), b""         # the record ends early: SQFS_ERROR_CORRUPTED
        pad = 0
    else:
        body_len = recsize
        tail = rng.choice([b"", b"\0" * 1024, b"\0" * 100, b"\0" * 512, bytes([0, 0, 7, 0]) * 25, b"\0" * 1030])
        if BX is not None and rng.random() < 0.5:
            tail = b"\0" * 1024                                    # compressed input: mostly a complete end-of-archive marker
        if cut < 0.2 and not (BX is not None and rng.random() < 0.6):
            pad, tail = rng.randint(0, pad), b""                  # the padding ends early
    marker_end = None
    if BX is not None and body_len == recsize and len(tail) >= 1024 and not tail[:1024].strip(b"\0"):
        # what follows the end-of-archive marker is only ever read by drain_compressed_stream
        marker_end = 512 + recsize + pad + 1024
        tail = tail[:1024] + rng.choice([b"", b"", b"\0" * 6, bytes(rng.randint(0, 255) for _ in range(rng.choice([1, 30, 700]))),
                                         b"\0" * 9216, bytes([1, 2, 3]) * rng.choice([100, 1500])])
    if body_len <= 64:
        body = hexdata(bytes(rng.randint(0, 255) for _ in range(body_len)))
    else:
        body = "g%d:%d:%d" % (rng.randint(0, 999), body_len, rng.choice([0, 0, 3]))
    d = "+".join([hdr.hex(), body, hexdata(b"\0" * pad + tail)])
    ops, left = [], filesize
    for _ in range(rng.randint(1, 8)):
        sz = rng.choice([1, 3, 511, 512, 513, 4095, 4096, 4097, around(rng, max(1, left), 1), rng.randint(1, filesize + 5)])
        if not big:
            sz = min(sz, 12000)
        ops.append(rng.choice(["R%d", "R%d", "S%d", "P%d", "g%d"]) % sz)
        left = max(0, left - sz)
    if rng.random() < 0.5:
        ops.append("R%d" % (filesize + 1))                         # drain to the end of the member
    fl = rng.choice("sn")
    hard = rng.random() < 0.2
    sc = gen_script(rng, 40 if not big else 100, max(B, 8) if not big else B, hard)
    sp = ",".join("%d:%d" % x for x in sparse) if sparse else "-"
    o = ",".join(ops)
    if BX is not None:
        first = next((i for i, e in enumerate(sc) if e[0] != "i"), None)
        if first is not None and sc[first][0] in "ez" and rng.random() < 0.85:
            # a probe that fails sends tar_open_stream down the uncompressed path (outside the model): mostly let it succeed
            sc = sc[:first] + ["p0"] + sc[first:]
        z, zmode = z_encode(rng, parse_data(d), marker_end, big)
        d = z.hex()
        return {"kind": "xtarstrm", "B": B, "script": sc, "zmode": zmode,
                "line": "xtarstrm %d %d %s %s %d %d %s %s %s" % (B, BX, fl, d, recsize, filesize, sp, o, script_tok(sc)),
                "full": "xtarstrm %d %d %s %s %d %d %s %s -" % (B, BX, fl, d, recsize, filesize, sp, o),
                "spec": "xtarspec %d %d %s %d %d %s %s" % (B, BX, d, recsize, filesize, sp, o),
                "args": (d, recsize, filesize, sparse, ops)}
    return {"kind": "tarstrm", "B": B, "script": sc,
            "line": "tarstrm %d %s %s %d %d %s %s %s" % (B, fl, d, recsize, filesize, sp, o, script_tok(sc)),
            "full": "tarstrm %d %s %s %d %d %s %s -" % (B, fl, d, recsize, filesize, sp, o),
            "spec": "tarspec %d %s %d %d %s %s" % (B, d, recsize, filesize, sp, o),
            "args": (d, recsize, filesize, sparse, ops)}


def fixed_scenarios(B, small):
    """scenarios that do not depend on the seed: an EINTR run of 200 at the first call of each of the five retry loops
    (pread, pwrite, write, ftruncate, read), so that a retry cap is met on every run"""
    i200 = ",".join(["i"] * 200)
    lines = ["readat 0102030405 1 3 %s" % i200,
             "writeat 0102 1 aabbcc %s" % i200,
             "ostream n d0102,h5,f %s" % i200,
             "ostream s h5,f %s" % i200,
             "ostream s d01,h2000,d02,f p0,%s" % i200,
             "istream %d s 61620a63 L0,R2 %s" % (B, i200)]
    for b in small:
        lines.append("istream %d n 61620a630a6465 g0,L7,R1,L0 %s,p0,%s" % (b, i200, i200))
    # one configuration (the build with the real buffer size) with runs of 1500: beyond a cap of 1000 / 1024 as well
    i1500 = ",".join(["i"] * 1500)
    lines += ["readat 0102030405 1 3 %s" % i1500,
              "writeat 0102 1 aabbcc %s,p0,%s" % (i1500, i1500),
              "ostream n d0102,h5,f %s" % i1500,
              "ostream s d01,h2000,d02,f p0,%s" % i1500,
              "istream %d s 61620a63 L0,R2 %s" % (B, i1500)]
    return lines


def gen_xistream(rng, B, BX, big):
    """client of the decompressing istream (toy codec) on top of the file istream"""
    if big:
        n = rng.choice([BX // 2 - 1, BX // 2, BX // 2 + 1, B, B + 1, rng.randint(0, 2 * B)])
        d = "g%d:%d:%d" % (rng.randint(0, 999), n, rng.choice([1, 2, 3]))
    else:
        n = rng.choice([0, 1, BX // 2, BX // 2 + 1, BX, B, B + 1, rng.randint(0, 3 * max(B, BX) + 8), rng.randint(0, 60)])
        pool = A3 + ([255] if rng.random() < 0.15 else [])        # 0xFF at the head of a window = codec error
        d = hexdata(bytes(rng.choice(pool) for _ in range(n)))
    ops = []
    for _ in range(rng.randint(1, 8)):
        sz = rng.choice([0, 1, 3, around(rng, BX), around(rng, 2 * n), rng.randint(0, 2 * n + 4), 511, 512, 513])
        if not big:
            sz = min(sz, 8 * (B + BX) + 600)
        ops.append(rng.choice(["g%d", "R%d", "R%d", "S%d", "P%d", "M%d", "L%d"]) % (sz if True else 0))
        if ops[-1][0] == "L":
            ops[-1] = "L%d" % rng.randint(0, 7)
        if ops[-1][0] == "M":
            ops[-1] = "M%d" % rng.choice([1, 5, 17, 511, 512, 513, max(1, min(sz, 1500))])
    fl = rng.choice("sn")
    hard = rng.random() < 0.2
    sc = gen_script(rng, 40 if not big else 100, max(B, 8), hard)
    o = ",".join(ops)
    return {"kind": "xistream", "B": B, "script": sc,
            "line": "xistream %d %d %s %s %s %s" % (B, BX, fl, d, o, script_tok(sc)),
            "full": "xistream %d %d %s %s %s -" % (B, BX, fl, d, o), "spec": "xspec %d %d %s %s" % (B, BX, d, o), "args": (d, ops)}


def gen_xostream(rng, B, BX, big):
    ops = []
    for _ in range(rng.randint(0, 7)):
        r = rng.random()
        if r < 0.55:
            if big and rng.random() < 0.5:
                ops.append("dg%d:%d:0" % (rng.randint(0, 99), rng.choice([BX - 1, BX, BX + 1, 2 * BX + 7])))
            else:
                ops.append("d" + hexdata(small_data(rng, rng.choice([3, 12, 3 * BX + 2]) if not big else 12)))
        elif r < 0.85:
            ops.append("h%d" % (rng.choice([0, 1, BX - 1, BX, BX + 1, 2 * BX + 1, rng.randint(0, 3 * BX)]) if not big else rng.choice([0, 5, BX + 1])))
        else:
            ops.append("f")
    if rng.random() < 0.7:
        ops.append("f")
    fl = rng.choice("sn")
    hard = rng.random() < 0.25
    sc = gen_script(rng, 40, 3 * BX if not big else BX, hard)
    o = ",".join(ops) if ops else "-"
    return {"kind": "xostream", "B": B, "script": sc, "line": "xostream %d %s %s %s" % (BX, fl, o, script_tok(sc)),
            "full": "xostream %d %s %s -" % (BX, fl, o), "args": (fl, ops)}


# ------------------------------------------------------------------------------------------------ monitors
TAIL = re.compile(r" left=(\d+) trace=(\S+)$")


def observable(kind, out):
    """what a caller can see: everything except the number of script events left, the syscall trace and (for the
    istream) the private buffer indices"""
    o = TAIL.sub("", out)
    if kind in ("istream", "xistream", "tarstrm", "xtarstrm"):
        o = re.sub(r"x?st=\S+ ", "", o)
        o = re.sub(r"z=1 ", "", o)               # tar->compressed: private (shown for the correspondence only)
        o = re.sub(r" size=\d+ sparse=\d+ pos=\d+", "", o)
    if kind in ("ostream", "xostream"):
        o = re.sub(r" size=\d+", "", o)          # `file->size` is write-only bookkeeping (double counts under NO_SPARSE)
        o = re.sub(r" pos=\d+", "", o)           # descriptor position: private (shown for the correspondence only)
    return o


def never_short(sc):
    """independent monitor for arbitrary scripts: status 0 ⇒ the complete transfer happened. Returns list of failures."""
    out, bad = sc["impl"], []
    kv = dict(p.split("=", 1) for p in TAIL.sub("", out).split(" ") if "=" in p)
    if sc["kind"] == "readat":
        d, off, size = sc["args"]
        data = parse_data(d)
        want_ok = size == 0 or off + size <= len(data)
        if kv.get("rc") == "0" and (not want_ok or kv.get("buf") != dtok(data[off:off + size])):
            bad.append("read_at returned 0 without the complete range")
        if not is_hard(sc["script"]) and (kv.get("rc") == "0") != want_ok:
            bad.append("read_at status differs from 'range inside file'")
    elif sc["kind"] == "writeat":
        f, off, d = sc["args"]
        f, data = parse_data(f), parse_data(d)
        if kv.get("rc") == "0":
            if data:
                exp = (f + b"\0" * max(0, off - len(f)))[:off] + data + f[off + len(data):]
            else:
                exp = f
            esz = off + len(data) if off + len(data) >= len(f) else len(f)
            if kv.get("file") != dtok(exp) or kv.get("size") != str(esz):
                bad.append("write_at returned 0 without the complete write / size update")
        elif not is_hard(sc["script"]):
            bad.append("write_at failed without a hard error")
    elif sc["kind"] == "ostream" and sc["args"][0] in "SN":
        pass          # continue-after-failure client: correspondence only (no tool calls a stream again after a failure)
    elif sc["kind"] in ("tarstrm", "xtarstrm"):
        bad += tar_monitor(sc, out)
    elif sc["kind"] == "ostream":
        fl, ops = sc["args"]
        if kv.get("rc") == "0@%d" % len(ops):
            exp = b"".join(parse_data(o[1:]) if o[0] == "d" else (b"\0" * int(o[1:]) if o[0] == "h" else b"") for o in ops)
            if ops and ops[-1] == "f":
                if kv.get("out") != dtok(exp):
                    bad.append("ostream reported success but the file differs from what was appended")
            else:
                pend = int(kv.get("sparse", "0"))
                # bytes in the file + pending hole = everything appended
                if pend > len(exp) or kv.get("out") != dtok(exp[:len(exp) - pend]) or exp[len(exp) - pend:] != b"\0" * pend:
                    bad.append("ostream reported success but file+pending hole differ from what was appended")
        elif not is_hard(sc["script"]):
            bad.append("ostream call failed without a hard error")
    elif sc["kind"] == "xostream":
        fl, ops = sc["args"]
        if kv.get("rc") == "0@%d" % len(ops) and ops and ops[-1] == "f":
            raw = b"".join(parse_data(o[1:]) if o[0] == "d" else (b"\0" * int(o[1:]) if o[0] == "h" else b"") for o in ops)
            exp = bytearray()
            for i, b in enumerate(raw):          # the toy codec: b ↦ [b, b xor (number of bytes before it mod 256)]
                exp += bytes([b, b ^ (i % 256)])
            if kv.get("out") != dtok(bytes(exp)):
                bad.append("transforming ostream reported success but the file is not the encoding of what was appended")
        elif not is_hard(sc["script"]) and kv.get("rc", "").split("@")[0] not in ("0", "-%d" % ERR_COMPRESSOR):
            bad.append("transforming ostream call failed without a hard error")
    return bad


def tar_monitor(sc, out):
    """independent re-computation for the member stream: as long as the client only reads (R), the bytes it gets are
    the expanded member content in order (data regions from the record, zeros in the holes), for every script; a
    read may fail or come up short only under a hard script or when the record is cut short"""
    d, recsize, filesize, sparse, ops = sc["args"]
    data, damaged = parse_data(d), False
    hard = is_hard(sc["script"])
    if sc["kind"] == "xtarstrm":
        if out.startswith("z=0"):
            return []                            # probe failed: tar_open_stream reads the raw stream (outside the model)
        # the archive as far as the toy decompressor delivers it; the transforming istream decodes ahead, so that with a
        # damaged stream any call may already fail with SQFS_ERROR_COMPRESSOR — but what is delivered must be right
        data, damaged = z_decode(data)
    toks = TAIL.sub("", out).split(" ")
    if damaged and not hard and ("n1=1" in toks[:1] or "n2=1" in toks):
        # independent re-computation of what drain_compressed_stream is for (/repo d69b61b): the end of the archive is
        # never reported for a compressed input that is truncated or damaged, whatever the chunking
        return ["end of archive reported although the compressed stream is truncated/damaged behind it"]
    hard = hard or damaged
    if not toks or toks[0] != "n1=0":
        if not hard and len(data) >= 512:
            return ["it_next did not deliver the member header although no hard error was scripted: %s" % toks[:1]]
        return []
    record = data[512:512 + recsize]
    content = expand_member(record + b"\0" * (recsize - len(record)), filesize, sparse)
    # bytes of the expanded content that are backed by record bytes which really exist in the input
    avail_rec = len(record)
    bad, pos, rec_used = [], 0, 0
    for op, tok in zip(ops, toks[1:]):
        if op[0] != "R":
            break
        size = int(op[1:])
        m = re.match(r"R(-?\d+)(?::(\S+))?$", tok)
        if not m:
            bad.append("unparsable observation %r" % tok)
            break
        n = int(m.group(1))
        if n < 0:
            if not hard and avail_rec >= recsize:
                bad.append("member read failed (%d) although the record is complete and no hard error was scripted" % n)
            break
        exp = content[pos:pos + min(size, 0x7FFFFFFF)]
        if m.group(2) != dtok(content[pos:pos + n]) or (n != len(exp) and not hard and avail_rec >= recsize):
            bad.append("member read %s at offset %d returned %s, expected %d bytes %s" % (op, pos, tok, len(exp), dtok(exp)))
            break
        pos += n
    return bad


# ------------------------------------------------------------------------------------------------ builds
BUFSZ_DEF = re.compile(r"^([ \t]*#[ \t]*define[ \t]+BUFSZ)\b.*$", re.M)
LAST_INCLUDE = re.compile(r"^[ \t]*#[ \t]*include\b.*$", re.M)


def with_bufsz(text, val):
    """the same source text with BUFSZ = val: every `#define BUFSZ ...` in the file is replaced; when the file no longer
    defines it itself (moved to a header), `#undef`/`#define` lines are placed after its last #include.  Whether the
    result really has the wanted buffer size is checked afterwards by asking the built harness (bufsz/xbufsz)."""
    if BUFSZ_DEF.search(text):
        return BUFSZ_DEF.sub(lambda m: "%s (%d)" % (m.group(1), val), text)
    incs = list(LAST_INCLUDE.finditer(text))
    at = incs[-1].end() if incs else 0
    return text[:at] + "\n#undef BUFSZ\n#define BUFSZ (%d)\n" % val + text[at:]


def build_harnesses(ctx):
    """→ ({B: harness path}, B of the working tree, small Bs, {B: (BX istream, BX ostream)})"""
    lib = ctx.build_lib(tag="c12", exclude=(ISTREAM_C, OSTREAM_C, XISTREAM_C, XOSTREAM_C, TARITER_C))
    wrap = ["-Wl," + ",".join("--wrap=" + w for w in WRAP)]
    hs, bx = {}, {}

    def sizes(h, what):
        r = vlib.sh([str(h)], input="bufsz\nxbufsz\n", env=ctx.san_env(), timeout=HARNESS_TIMEOUT)
        try:
            l = r.stdout.split()
            return int(l[0]), int(l[1]), int(l[2])
        except (ValueError, IndexError):
            raise vlib.CheckFailure("%s did not report BUFSZ: rc=%s %r %r" % (what, r.returncode, r.stdout, r.stderr[-500:]))
    real = ctx.cc("h_c12", HARNESS_SRC, flags=wrap, libs=[str(lib)] + vlib.CODEC_LIBS)
    B, bx_i, bx_o = sizes(real, "harness")
    hs[B] = real
    bx[B] = (bx_i, bx_o)
    srcs = {n: (vlib.REPO / n).read_text() for n in (ISTREAM_C, XISTREAM_C, XOSTREAM_C)}
    small = []
    for b in SMALL_B:
        flags = list(wrap)
        for name, macro, val in ((ISTREAM_C, "C12_ISTREAM_SRC", b), (XISTREAM_C, "C12_XISTREAM_SRC", SMALL_BX[b][0]),
                                 (XOSTREAM_C, "C12_XOSTREAM_SRC", SMALL_BX[b][1])):
            p = ctx.scratch / ("%s_B%d.c" % (name.replace("/", "_")[:-2], b))
            p.write_text(with_bufsz(srcs[name], val))
            flags += ['-D%s="%s"' % (macro, p), "-I%s" % (vlib.REPO / name).parent]
        hs[b] = ctx.cc("h_c12_B%d" % b, HARNESS_SRC, flags=flags, libs=[str(lib)] + vlib.CODEC_LIBS)
        got = sizes(hs[b], "small-buffer harness B=%d" % b)
        if got != (b, SMALL_BX[b][0], SMALL_BX[b][1]):
            # never continue without the small-buffer builds: they are what reaches every buffer boundary
            raise vlib.CheckFailure("small-buffer build wanted BUFSZ %s but the code has %s: the stream sources no longer take "
                                    "their buffer size from a BUFSZ macro; tools/checks/c12.py (with_bufsz) must follow the change"
                                    % ((b,) + SMALL_BX[b], got))
        bx[b] = SMALL_BX[b]
        small.append(b)
    return hs, B, small, bx


def run_harness(ctx, h, lines, fdtype="n"):
    """→ (outputs, crash) ; a sanitizer abort / signal / timeout is a result, located by the number of lines answered"""
    text = "\n".join(lines) + "\n"
    try:
        r = vlib.sh([str(h)], input=text, env=ctx.san_env({"C12_FDTYPE": fdtype}), timeout=HARNESS_TIMEOUT)
    except subprocess.TimeoutExpired as e:
        out = (e.stdout or b"")
        out = out.decode() if isinstance(out, bytes) else out
        return out.splitlines(), ("timeout", len(out.splitlines()), "")
    out = r.stdout.splitlines()
    if r.returncode != 0 or len(out) != len(lines):
        return out, ("rc=%d" % r.returncode, len(out), r.stderr[-3000:])
    return out, None


def run_parallel(ctx, h, lines, jobs, fdrot=0):
    """split the scenario lines over harness processes (scenarios are independent); each process hands the streams a
    different kind of descriptor (FDTYPES), at most `jobs` run at a time"""
    if not lines:
        return [], None
    nproc = max(1, min(len(FDTYPES), len(lines) // 50 or 1))
    chunks = [lines[i::nproc] for i in range(nproc)]
    res = [None] * nproc
    sem = threading.Semaphore(jobs)

    def work(i):
        with sem:
            res[i] = run_harness(ctx, h, chunks[i], FDTYPES[(i + fdrot) % len(FDTYPES)])
    jobs = nproc
    ts = [threading.Thread(target=work, args=(i,)) for i in range(jobs)]
    [t.start() for t in ts]
    [t.join() for t in ts]
    out = [None] * len(lines)
    for i in range(jobs):
        o, crash = res[i]
        fd = FDTYPES[(i + fdrot) % len(FDTYPES)]
        if crash:
            k = crash[1]
            return None, (crash[0] + " fd=" + fd, chunks[i][min(k, len(chunks[i]) - 1)], crash[2])
        for j, l in enumerate(o):
            out[i + j * jobs] = (l, fd)
    return out, None


def run_model(ctx, lines, jobs):
    if not lines:
        return []
    jobs = max(1, min(jobs, len(lines) // 50 or 1))
    chunks = [lines[i::jobs] for i in range(jobs)]
    res = [None] * jobs
    err = []

    def work(i):
        try:
            res[i] = ctx.driver(["c12"], "\n".join(chunks[i]) + "\n", timeout=1500)
        except Exception as e:
            err.append(e)
    ts = [threading.Thread(target=work, args=(i,)) for i in range(jobs)]
    [t.start() for t in ts]
    [t.join() for t in ts]
    if err:
        raise vlib.CheckFailure("model driver failed: %s" % err[0])
    out = [None] * len(lines)
    for i in range(jobs):
        if len(res[i]) != len(chunks[i]):
            raise vlib.CheckFailure("model driver answered %d of %d lines" % (len(res[i]), len(chunks[i])))
        for j, l in enumerate(res[i]):
            out[i + j * jobs] = l
    return out


# ------------------------------------------------------------------------------------------------ in-process part
OPS_FIELD = {"ostream": 2, "istream": 4, "xistream": 5, "xostream": 3, "tarstrm": 7, "xtarstrm": 8}


def parse_line(l, B, small, bx):
    """scenario record for a protocol line (corpus entries, shrunk candidates); None when it does not apply to this tree"""
    l = l.strip()
    if not l or l.startswith("#"):
        return None
    w = l.split(" ")
    kind = w[0]
    script = [] if w[-1] == "-" else w[-1].split(",")
    try:
        b = int(w[1]) if kind in ("istream", "xistream", "tarstrm", "xtarstrm") else 0
        sc = {"kind": kind, "B": b, "script": script, "line": l, "full": " ".join(w[:-1] + ["-"]), "args": None}
        if kind == "readat":
            sc["args"] = (w[1], int(w[2]), int(w[3]))
        elif kind == "writeat":
            sc["args"] = (w[1], int(w[2]), w[3])
        elif kind == "ostream":
            sc["args"] = (w[1], [] if w[2] == "-" else w[2].split(","))
        elif kind == "istream":
            sc["spec"] = "spec %s %s %s" % (w[1], w[3], w[4])
            if b != B and b not in small:
                return None
            ops = [] if w[4] == "-" else w[4].split(",")
            if ops and all(x[0] == "L" for x in ops):
                sc["lines"] = "lines %s %s" % (",".join(x[1:] for x in ops), w[3])
        elif kind == "tarstrm":
            if b != B and b not in small:
                return None
            sc["spec"] = "tarspec %s %s %s %s %s %s" % (w[1], w[3], w[4], w[5], w[6], w[7])
            sparse = [] if w[6] == "-" else [tuple(int(v) for v in e.split(":")) for e in w[6].split(",")]
            sc["args"] = (w[3], int(w[4]), int(w[5]), sparse, [] if w[7] == "-" else w[7].split(","))
        elif kind == "xtarstrm":
            if b not in bx or bx[b][0] != int(w[2]):
                return None
            sparse = [] if w[7] == "-" else [tuple(int(v) for v in e.split(":")) for e in w[7].split(",")]
            sc["args"] = (w[4], int(w[5]), int(w[6]), sparse, [] if w[8] == "-" else w[8].split(","))
            sc["spec"] = "xtarspec %s %s %s %s %s %s %s" % (w[1], w[2], w[4], w[5], w[6], w[7], w[8])
        elif kind == "xistream":
            sc["spec"] = "xspec %s %s %s %s" % (w[1], w[2], w[4], w[5])
            if b not in bx or bx[b][0] != int(w[2]):
                return None
        elif kind == "xostream":
            cand = [k for k, v in bx.items() if v[1] == int(w[1])]
            if not cand:
                return None
            sc["B"] = cand[0]
            sc["args"] = (w[2], [] if w[3] == "-" else w[3].split(","))
        else:
            return None
    except (ValueError, IndexError):
        return None
    return sc


def judge(sc):
    """(property failures, correspondence broken?) for a scenario that has impl / implfull / model / specout"""
    kind, hard = sc["kind"], is_hard(sc["script"])
    if sc["impl"] in ("overrun", "bad-op", "bad-B") or "bad-hdr" in sc["impl"] or "bad-open" in sc["impl"]:
        return ["harness answered %r" % sc["impl"][:200]], False
    failures = never_short(sc)
    if not hard and sc.get("implfull") is not None and observable(kind, sc["impl"]) != observable(kind, sc["implfull"]):
        failures.append("result under short counts/EINTR differs from the implementation's own result when every call completes in full")
    if not hard and sc.get("specout") is not None and observable(kind, sc["impl"]) != sc["specout"]:
        if kind == "istream":
            # ideal-stream specification (no OS, no buffer) evaluated against what the implementation let the client observe
            failures.append("client observations differ from the ideal-stream specification: spec=%s" % sc["specout"][:300])
        elif observable(kind, sc["model"]) != sc["specout"]:
            # xistream / tarstrm: the "spec" line is the *model* of the adapter over the ideal stream, so it says nothing
            # about the code beyond impl ≠ model (reported as a correspondence failure below); but the model under the
            # script must equal it — that is the theorem
            failures.append("the model under the script differs from the model over the ideal stream, which the theorems exclude "
                            "(driver or check infrastructure broken): spec=%s" % sc["specout"][:300])
    if not hard and sc.get("linesout") is not None:
        # the byte-at-a-time scanner (Spec.nextLine: no stream, no buffer size) against the lines the implementation returned
        want = sc["linesout"].split(" ") if sc["linesout"] else []
        got = TAIL.sub("", sc["impl"]).split(" ")[:len(want)]
        if got != want:
            failures.append("lines differ from the byte-at-a-time scanner: scanner=%s" % sc["linesout"][:300])
    return failures, (not failures and sc["impl"] != sc["model"])


def evaluate(ctx, hs, B, scs, fd="n"):
    """fill impl / implfull / model / specout for a few scenarios (sequentially); returns False on a crash"""
    groups = {}
    for sc in scs:
        groups.setdefault(sc["B"] if sc["kind"] in STREAMK else B, []).append(sc)
    for key, g in groups.items():
        lines = [sc["line"] for sc in g] + [sc["full"] for sc in g if not is_hard(sc["script"])]
        out, crash = run_harness(ctx, hs[key], lines, fd)
        if crash:
            return False
        it = iter(out[len(g):])           # run_harness has checked len(out) == len(lines)
        for sc, o in zip(g, out):
            sc["impl"], sc["implfull"] = o, (next(it) if not is_hard(sc["script"]) else None)
    extra = [(sc, k) for k in ("spec", "lines") for sc in scs if sc.get(k) and not is_hard(sc["script"])]
    mlines = [sc["line"] for sc in scs] + [sc[k] for sc, k in extra]
    mout = ctx.driver(["c12"], "\n".join(mlines) + "\n", timeout=1500)
    if len(mout) != len(mlines):
        raise vlib.CheckFailure("model driver answered %d of %d lines" % (len(mout), len(mlines)))
    for sc, o in zip(scs, mout):
        sc["model"] = o
    for (sc, k), o in zip(extra, mout[len(scs):]):
        sc[k + "out"] = o
    return True


def shrink(ctx, hs, B, small, bx, sc, rounds=8):
    """greedy minimisation of a disagreeing scenario: drop script events and client operations while the same
    kind of disagreement (property failure / correspondence only) remains"""
    want_prop = bool(judge(sc)[0])
    cur = sc
    for _ in range(rounds):
        w = cur["line"].split(" ")
        cands = []
        script = [] if w[-1] == "-" else w[-1].split(",")
        for i in range(len(script)):
            t = script[:i] + script[i + 1:]
            cands.append(" ".join(w[:-1] + [",".join(t) if t else "-"]))
        f = OPS_FIELD.get(cur["kind"])
        if f is not None and w[f] != "-":
            ops = w[f].split(",")
            for i in range(len(ops)):
                t = ops[:i] + ops[i + 1:]
                cands.append(" ".join(w[:f] + [",".join(t) if t else "-"] + w[f + 1:]))
        cands = cands[:120]
        scs = [x for x in (parse_line(c, B, small, bx) for c in cands) if x is not None]
        if not scs or not evaluate(ctx, hs, B, scs, sc.get("fd") or "n"):
            break
        nxt = None
        for x in scs:
            fl, corr = judge(x)
            if (want_prop and fl) or (not want_prop and corr):
                nxt = x
                break
        if nxt is None:
            break
        cur = nxt
    return cur


def classify(ctx, sc, stats, env=None):
    """sc has impl, model, implfull (or None), specout (or None). Reports violations; returns True if something was wrong."""
    kind = sc["kind"]
    failures, corr = judge(sc)
    if not failures and not corr:
        return False
    which = "property_failures" if failures else "corr_failures"
    stats[which] += 1
    if stats[which] > 5:
        return True
    orig, orig_fd = sc["line"], sc.get("fd") or "n"
    try:
        sc = shrink(ctx, *env, sc) if env else sc
        failures, corr = judge(sc)
    except Exception as e:                       # shrinking is best effort
        ctx.log("shrink failed:", e)
    rp = {"line": sc["line"], "full": sc["full"], "spec": sc.get("spec"), "B": sc["B"], "impl": sc["impl"],
          "implfull": sc.get("implfull"), "model": sc["model"], "original_line": orig, "fd": orig_fd}
    if failures:
        rp["failures"] = failures
        ctx.violation("split:%s:%s" % (kind, vlib.sha(sc["line"])[:12]),
                      "%s: %s | scenario: %s | impl: %s | impl(full): %s | model: %s" % (
                          kind, "; ".join(failures), sc["line"][:400], sc["impl"][:400], (sc.get("implfull") or "")[:300], sc["model"][:400]), rp)
    else:
        rp["correspondence"] = "harness/h_c12.c vs lean/Driver/C12.lean"
        ctx.violation("corr:%s:%s" % (kind, vlib.sha(sc["line"])[:12]),
                      "model and code disagree (the property's monitors do not fail on this scenario): %s | impl: %s | model: %s" % (
                          sc["line"][:400], sc["impl"][:400], sc["model"][:400]), rp, found_input=False)
    return True


def inprocess(ctx, hs, B, small, bx):
    rng = ctx.rng
    quick = ctx.quick()
    scen = []
    cdir = vlib.CORPUS / "C12"
    ncorpus = 0
    if cdir.exists():
        for p in sorted(cdir.glob("*.txt")):
            for l in p.read_text().splitlines():
                sc = parse_line(l, B, small, bx)
                if sc is not None:
                    scen.append(sc)
                    ncorpus += 1
    nfixed = 0
    for l in fixed_scenarios(B, small):
        sc = parse_line(l, B, small, bx)
        if sc is None:
            raise vlib.CheckFailure("fixed scenario does not parse: %s" % l[:200])
        scen.append(sc)
        nfixed += 1
    n_small = 2500 if quick else 60000
    n_big = 30 if quick else 700
    for k in range(n_small):
        scen.append(gen_readat(rng, False))
        scen.append(gen_writeat(rng, False))
        scen.append(gen_ostream(rng, False))
        for b in small:
            scen.append(gen_istream(rng, b, False))
        b = rng.choice(small)
        scen.append(gen_xistream(rng, b, bx[b][0], False))
        scen.append(gen_xostream(rng, b, bx[b][1], False))
        if k % 2 == 0:
            scen.append(gen_tarstrm(rng, rng.choice(small + [B]), False))
        if k % 8 == 1:
            b = rng.choice(small + [B])
            scen.append(gen_tarstrm(rng, b, False, bx[b][0]))
    for k in range(n_big):
        if k % 2 == 0:
            scen.append(gen_xistream(rng, B, bx[B][0], True))
            scen.append(gen_xostream(rng, B, bx[B][1], True))
        scen.append(gen_readat(rng, True))
        scen.append(gen_writeat(rng, True))
        scen.append(gen_ostream(rng, True))
        scen.append(gen_istream(rng, B, True))
        scen.append(gen_istream(rng, B, True))
        scen.append(gen_tarstrm(rng, B, True))
    jobs = 3 if quick else 4          # scenarios are independent; kept moderate (other checks run concurrently)
    # group by harness binary
    groups = {}
    for sc in scen:
        key = sc["B"] if sc["kind"] in STREAMK else B
        groups.setdefault(key, []).append(sc)
    stats = {"property_failures": 0, "corr_failures": 0}
    crashed = False
    for key, g in groups.items():
        h = hs[key]
        lines = [sc["line"] for sc in g]
        fulls = [sc["full"] for sc in g if not is_hard(sc["script"])]
        out, crash = run_parallel(ctx, h, lines + fulls, jobs, fdrot=ctx.seed + len(groups))
        if crash:
            what, line, err = crash
            ctx.violation("crash:%s" % vlib.sha(line)[:12], "real code aborted (%s) on scenario: %s :: %s" % (what, line[:300], err[-600:]),
                          {"line": line, "B": key, "stderr": err, "fd": what.rsplit("fd=", 1)[-1] if "fd=" in what else "n"})
            crashed = True
            continue
        if len(out) != len(lines) + len(fulls) or any(o is None for o in out):
            raise vlib.CheckFailure("harness B=%s answered %d of %d lines" % (key, len([o for o in out if o is not None]), len(lines) + len(fulls)))
        it = iter(out[len(lines):])
        for sc, (o, fd) in zip(g, out):
            sc["impl"], sc["fd"] = o, fd          # fd: the kind of descriptor the streams of this scenario were given
            sc["implfull"], sc["fdfull"] = next(it) if not is_hard(sc["script"]) else (None, None)
    if crashed:
        return scen, stats, ncorpus, nfixed
    extra = [(sc, k) for k in ("spec", "lines") for sc in scen if sc.get(k) and not is_hard(sc["script"])]
    mlines = [sc["line"] for sc in scen]
    mout = run_model(ctx, mlines + [sc[k] for sc, k in extra], jobs)       # run_model checks the line count
    if len(mout) != len(mlines) + len(extra):
        raise vlib.CheckFailure("model driver answered %d of %d lines" % (len(mout), len(mlines) + len(extra)))
    for sc, o in zip(scen, mout):
        sc["model"] = o
    for (sc, k), o in zip(extra, mout[len(mlines):]):
        sc[k + "out"] = o
    for sc in scen:
        classify(ctx, sc, stats, (hs, B, small, bx))
    return scen, stats, ncorpus, nfixed


def run(ctx):
    ok, problems = vlib.proof_gate(ctx, MODULE, REQUIRED)
    if not ok:
        ctx.violation("proof:C12", "proof obligations of C12 no longer check: " + " | ".join(problems)[:1500],
                      {"broken": problems, "theorems_file": "lean/Sqfs/Props/C12.lean"}, found_input=False)
    # the premise "four read/write call sites, one modelled loop each": checked against the tree, not assumed
    sites, nsrc, cand = c12_census.census(ctx)
    unknown, gone = sorted(set(sites) - set(SYSCALL_SITES)), sorted(set(SYSCALL_SITES) - set(sites))
    ctx.log("census of read/write/pread/pwrite/readv/…/sendfile/copy_file_range/splice call sites: %d C sources, %d mention a name, sites %s" % (
        nsrc, len(cand), sites))
    if unknown or gone:
        raise vlib.CheckFailure("the read/write call sites of the tree are not the ones the C12 model describes: without a model %s; "
                                "modelled but no longer in the tree %s (census from the clang AST over %d sources)" % (unknown, gone, nsrc))
    ctx.cov["syscall_sites"] = {s: SYSCALL_SITES[s] for s in sites}
    ctx.cov["syscall_census_sources"] = nsrc
    hs, B, small, bx = build_harnesses(ctx)
    ctx.log("istream BUFSZ of the working tree = %d; small-buffer variants %s" % (B, small))
    t0 = time.time()
    # what the descriptors handed to the streams really are in this environment (fstat / isatty of the harness)
    fdkinds = {}
    for t in FDTYPES:
        out, crash = run_harness(ctx, hs[B], ["fdtype"], t)
        if crash or len(out) != 1:
            raise vlib.CheckFailure("harness cannot create a stream descriptor of type %r: %s" % (t, crash))
        fdkinds[t] = out[0]
    if len({v.split(" ", 1)[1] for v in fdkinds.values()}) < 4:
        raise vlib.CheckFailure("the harness offers fewer than 4 distinct kinds of stream descriptors: %s" % fdkinds)
    scen, stats, ncorpus, nfixed = inprocess(ctx, hs, B, small, bx)
    t_in = time.time() - t0
    done = [sc for sc in scen if "impl" in sc and "model" in sc]
    consumed = 0
    nontrivial = set()
    kinds, evhist = {}, {"p": 0, "i": 0, "e": 0, "z": 0}
    for sc in done:
        m = TAIL.search(sc["impl"])
        used = len(sc["script"]) - int(m.group(1)) if m else 0
        consumed += used
        for e in sc["script"][:used]:
            evhist[e[0]] += 1
        if used > 0:
            nontrivial.add(sc["line"])
        kk = sc["kind"] + (":B=%d" % sc["B"] if sc["kind"] in STREAMK else "")
        kinds[kk] = kinds.get(kk, 0) + 1
    longest = 0
    for sc in done:
        m = TAIL.search(sc["impl"])
        used = len(sc["script"]) - int(m.group(1)) if m else 0
        run = 0
        for e in sc["script"][:used]:
            run = run + 1 if e == "i" else 0
            longest = max(longest, run)
    # the compressed branch of tar_open_stream / drain_compressed_stream: what the xtarstrm scenarios really reached
    zst = {"modes": {}, "compressed_set": 0, "unmodelled_probe_failed": 0, "end_of_archive_after_drain": 0,
           "drain_reported_error": 0, "drain_reported_error_soft_script": 0}
    for sc in done:
        if sc["kind"] != "xtarstrm":
            continue
        zst["modes"][sc.get("zmode", "corpus")] = zst["modes"].get(sc.get("zmode", "corpus"), 0) + 1
        if sc["impl"].startswith("z=0"):
            zst["unmodelled_probe_failed"] += 1
            continue
        toks = TAIL.sub("", sc["impl"]).split(" ")
        if "z=1" in toks:
            zst["compressed_set"] += 1
        if "n2=1" in toks or toks[0] == "n1=1":
            zst["end_of_archive_after_drain"] += 1
        arch, damaged = z_decode(parse_data(sc["args"][0]))
        rs = sc["args"][1]
        mend = 512 + rs + (512 - rs % 512) % 512 + 1024
        # the decompressor delivered the whole archive incl. a complete end-of-archive marker, the stream is damaged behind
        # it, and it_next answered with the decompressor's error: that error can only come from the drain
        if damaged and len(arch) >= mend and not arch[mend - 1024:mend].strip(b"\0") and "n2=-%d" % ERR_COMPRESSOR in toks:
            zst["drain_reported_error"] += 1
            if not is_hard(sc["script"]):
                zst["drain_reported_error_soft_script"] += 1
    nspec = sum(1 for sc in done if sc.get("specout") is not None)
    nlines = sum(1 for sc in done if sc.get("linesout") is not None)
    nfull = sum(1 for sc in done if sc.get("implfull") is not None)
    ctx.log("in-process: %d scenarios, %d with ≥1 scripted event consumed, %d events fired %s, longest EINTR run consumed %d, "
            "%d vs own unperturbed run, %d vs ideal-stream spec, %d vs line scanner, compressed tar branch %s, %.1fs" % (
                len(done), len(nontrivial), consumed, evhist, longest, nfull, nspec, nlines, zst, t_in))
    if not any(v["key"].startswith("crash:") for v in ctx.violations):
        # floors: a part of the check that evaluated nothing is a failure of the check, not a pass
        need = ["readat", "writeat", "ostream", "istream:B=%d" % B, "xistream:B=%d" % B, "xostream:B=%d" % B, "tarstrm:B=%d" % B,
                "xtarstrm:B=%d" % B]
        need += ["istream:B=%d" % b for b in small] + ["tarstrm:B=%d" % b for b in small] + ["xtarstrm:B=%d" % b for b in small]
        lack = [k for k in need if kinds.get(k, 0) < (10 if ctx.quick() else 100)]
        lack += ["xistream (small buffers)"] if sum(kinds.get("xistream:B=%d" % b, 0) for b in small) < 200 else []
        lack += ["xostream (small buffers)"] if sum(kinds.get("xostream:B=%d" % b, 0) for b in small) < 200 else []
        if zst["compressed_set"] < (150 if ctx.quick() else 1500) or zst["drain_reported_error_soft_script"] < (8 if ctx.quick() else 100) \
                or zst["end_of_archive_after_drain"] < (15 if ctx.quick() else 150):
            lack.append("compressed branch of tar_open_stream / drain with an error: %s" % zst)
        if lack or len(done) != len(scen) or min(evhist.values()) == 0 or longest < 1500 or nspec < 500 or nlines < 50 \
                or nfull < 1000 or len(nontrivial) < len(done) // 2 or (ncorpus == 0 and (vlib.CORPUS / "C12").exists()):
            raise vlib.CheckFailure("in-process part evaluated too little: missing/too few %s; %d of %d scenarios evaluated; events %s; "
                                    "longest EINTR run %d; spec %d; lines %d; full %d; non-trivial %d; corpus %d" % (
                                        lack, len(done), len(scen), evhist, longest, nspec, nlines, nfull, len(nontrivial), ncorpus))
    # ---- tool level
    t1 = time.time()
    tres, tagg, tskipped = [], {}, []
    for k in range(1 if ctx.quick() else 3):
        r, agg, sk = c12_tools.run(ctx, seed=ctx.seed + 1000 * k)
        tres += r
        tskipped += sk
        for op, d in agg.items():
            for kk, v in d.items():
                tagg.setdefault(op, {}).setdefault(kk, 0)
                tagg[op][kk] += v
    t_tools = time.time() - t1
    tbad = 0
    for r in tres:
        if not r["ok"]:
            tbad += 1
            if tbad <= 5:
                cfg = ",".join("%s=%s" % kv for kv in sorted(r["config"].items()))
                ctx.violation("tool:%s:%s" % (r["scenario"], cfg),
                              "%s under %s (feed %s, drain %s, %s, shim seed %s): exit/sha256 %s differ from the unperturbed run's %s; stderr: %s" % (
                                  r["scenario"], cfg, r["feed"], r["drain"], "socket" if r["sock"] else "pipe", r["shim_seed"], r["pert"], r["base"], r["stderr"][-300:]),
                              {k: r[k] for k in ("scenario", "config", "feed", "drain", "shim_seed", "seed", "sock", "base", "pert")})
    ctx.log("tool level: %d perturbed runs (%d with ≥1 short count/EINTR fired; %d on damaged inputs: exit status + diagnostics; %d with "
            "regular-file stdin/stdout), %d differ, %d scenarios skipped, shim fired %s, %.1fs" % (
        len(tres), sum(1 for r in tres if r["fired"] > 0), sum(1 for r in tres if r["fails"]),
        sum(1 for r in tres if r["stdio"] and r["feed"] == 0 and r["drain"] == 0), tbad, len(tskipped),
        {op: {k: v for k, v in d.items() if k in ("short", "eintr")} for op, d in tagg.items()}, t_tools))
    ctx.cov.update({
        "tool_runs": len(tres),
        "tool_runs_with_perturbation_fired": sum(1 for r in tres if r["fired"] > 0),
        "tool_runs_differing": tbad,
        "tool_runs_on_damaged_inputs": sum(1 for r in tres if r["fails"]),
        "tool_runs_regular_file_stdio_perturbed": sum(1 for r in tres if r["stdio"] and r["feed"] == 0 and r["drain"] == 0 and r["fired"] > 0),
        "tool_scenarios": sorted({r["scenario"] for r in tres}),
        "tool_scenarios_skipped": tskipped,
        "shim_counters": tagg,
        "tool_samples": [{k: r[k] for k in ("scenario", "config", "feed", "drain", "fired", "base", "pert")} for r in tres[::7][:8]],
        "tool_wall_s": round(t_tools, 1),
    })
    ctx.cov.update({
        "evaluations": len(done) + len(tres),
        "distinct_nontrivial": len(nontrivial),
        "rule": "seeded scenarios (readat / writeat / ostream op sequences / istream client-op sequences incl. read, skip, splice, get_line, "
                "record_to_memory), each run through the real code (ASan+UBSan, syscalls wrapped) and the Lean model under the same OS script, "
                "plus the implementation under the empty script and the ideal-stream spec; chunk sizes down to 1 byte, EINTR bursts, "
                "hard errors in ~25%%, sizes around BUFSZ (=%d, and BUFSZ∈%s builds of the same istream.c) and around 512/1024; "
                "non-trivial = distinct scenario in which at least one scripted short count/EINTR/error was actually consumed by a system call" % (B, small),
        "scenario_kinds": kinds,
        "compressed_tar_branch": zst,
        "script_events_fired": evhist,
        "script_events_consumed": consumed,
        "corpus_scenarios": ncorpus,
        "fixed_scenarios": nfixed,
        "longest_eintr_run_consumed": longest,
        "compared_with_own_unperturbed_run": nfull,
        "compared_with_ideal_stream_spec": nspec,
        "compared_with_line_scanner": nlines,
        "stream_descriptor_kinds": fdkinds,
        "istream_bufsz": B,
        "samples": [{"scenario": sc["line"][:300], "impl": sc["impl"][:300], "model": sc["model"][:300]} for sc in done[ncorpus + nfixed:ncorpus + nfixed + 4000:797]],
        "disagreements_checked": stats["property_failures"] + stats["corr_failures"] + tbad,
        "inprocess_scenarios_per_s": round(len(done) / max(t_in, 1e-3), 1),
    })
    return ctx.finish(LEVEL, trusted_extra=[
        "the OS is modelled as a finite script of per-call outcomes (short count ≥ 1 byte, EINTR, EIO, return 0) on read / write / pread / pwrite / "
        "ftruncate, followed by calls that complete in full; lseek, fsync, calloc are not scripted (never fail); sizes are unbounded naturals "
        "(the harness stays below 2^31 except skip/splice counts up to 2^40, whose clamp is modelled)",
        "modelled by hand and compared with the code on every run, not verified directly: lib/sqfs/src/io/{file.c (POSIX branch), ostream.c, istream.c, "
        "unix.c (seek/truncate), stream_api.c}, lib/util/src/get_line.c, lib/tar/src/record_to_memory.c, lib/xfrm/src/{istream.c, ostream.c} "
        "(codec abstract, precache loop with explicit fuel), lib/tar/src/iterator.c (member stream, head and fail-exit of it_next incl. "
        "drain_compressed_stream, the wrapping done by tar_open_stream) and the end-of-archive part of read_header.c",
        "not modelled: decoding of tar header blocks (geometry is an input, the harness checks that read_header decodes it), which branch "
        "tar_open_stream takes (tar_probe / xfrm_compressor_id_from_magic: answered by the harness via --wrap, branch taken is compared), "
        "the real codecs, the layers above sqfs_file_t, stdio inside the tools and libc: exercised only by the tool-level runs",
        "the list of read/write/pread/pwrite/readv/…/sendfile/copy_file_range/splice call sites is taken from the clang AST of the tree on every run "
        "and must be exactly the four modelled loops (tools/c12_census.py)",
        "harness/h_c12*.c, harness/shim_io.c, the generators and monitors in tools/checks/c12.py, tools/c12_tools.py"],
        assumptions=["EINTR occurs only finitely often (structure of the script)",
                     "a regular output file is only appended to, so the descriptor position is the end of the file"])


def replay(ctx, path):
    body = json.loads(open(path).read())
    rp = body.get("replay", {})
    if "scenario" in rp:
        res, _, sk = c12_tools.run(ctx, seed=rp.get("seed", 0), only=rp)
        for r in res:
            print("scenario %s config %s: base %s perturbed %s → %s" % (r["scenario"], r["config"], r["base"], r["pert"],
                                                                        "same" if r["ok"] else "DIFFERENT"))
        if sk:
            print("skipped:", sk)
        return 1 if any(not r["ok"] for r in res) else 0
    if "line" not in rp:
        print("replay file names a broken obligation, no input to replay:", json.dumps(rp)[:800])
        return 1
    ctx.lean_build(["sqfsmodel"])
    hs, B, small, bx = build_harnesses(ctx)
    key = rp.get("B") or B
    if key not in hs:
        key = B
    lines = [rp["line"]] + ([rp["full"]] if rp.get("full") else [])
    out, crash = run_harness(ctx, hs[key], lines, rp.get("fd") or "n")
    model = ctx.driver(["c12"], "\n".join(lines + ([rp["spec"]] if rp.get("spec") else [])) + "\n")
    print("scenario:", rp["line"][:1000])
    print("impl    :", out, "crash:", crash)
    print("model   :", model)
    if crash or len(out) < 1:
        return 1
    kind = rp["line"].split(" ")[0]
    script = rp["line"].split(" ")[-1]
    hard = any(e in ("e", "z") for e in script.split(","))
    bad = out[0] != model[0]
    if not hard and len(out) > 1 and observable(kind, out[0]) != observable(kind, out[1]):
        print("property violated: result under the script differs from the result under the empty script")
        bad = True
    print("reproduces" if bad else "does not reproduce")
    return 1 if bad else 0
