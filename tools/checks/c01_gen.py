"""
C01 (tool level) -- case descriptions, input emitters and the *oracle*.

A case is a JSON-able dict (it is what a replay file stores):

  mode     "packfile" | "packdir" | "glob"
  fs       list of nodes of a real directory  (pack dir root / source of `file` locations / glob source)
           {"p": relative path, "t": dir|file|slink|fifo|sock|cdev|bdev|link, "m","u","g","mt", "c": content,
            "tg": symlink target, "maj","min", "to": relative path of the first name (hard link), "x": [[key, hex]]}
  lines    pack file directives (packfile / glob mode)
           {"t": dir|file|slink|link|nod|pipe|sock|glob, "p": image path, "m","u","g", "loc", "tg", "dt","maj","min",
            "to", "opts": [...], "src": glob location}     ("raw": literal line for malformed input)
  xa       entries of the --xattr-file: [[path, [[key, hex, encoding]]]]
  opts     command line options (see argv_of)

All byte strings (paths, targets) are latin-1 `str` inside the case.  The oracle (`expected`) computes, from the
case alone and from the documented semantics of gensquashfs(1), what the image must read back as, or that the
input has to be refused.  It never looks at the code under verification or at its output.
"""
import base64, hashlib, os, stat

L1 = "latin-1"
U32 = 0xFFFFFFFF


def b(s):
    return s.encode(L1)


def s(bs):
    return bs.decode(L1)


# ----------------------------------------------------------------------------------------------------------------
# file contents: a list of segments, streamed (so that > 4 GiB sparse files never live in memory)
#   ["r", n, seed]   n pseudo random bytes         ["t", n, seed]  n bytes of compressible text
#   ["z", n]         n zero bytes, written out     ["h", n]        n zero bytes as a hole (seek) in the input file
#   ["p", n, byte]   n times one byte

CHUNK = 1 << 20
_ZERO = bytes(CHUNK)
WORDS = [b"squashfs ", b"block ", b"fragment ", b"inode ", b"\n", b"0123456789", b"xattr=", b"lorem ipsum dolor "]


def seg_chunks(seg):
    import random
    k, n = seg[0], seg[1]
    if k in ("z", "h"):
        while n > 0:
            m = min(n, CHUNK)
            yield _ZERO[:m]
            n -= m
    elif k == "p":
        blk = bytes([seg[2]]) * min(n, CHUNK)
        while n > 0:
            m = min(n, CHUNK)
            yield blk[:m]
            n -= m
    elif k == "r":
        rng = random.Random(seg[2])
        while n > 0:
            m = min(n, CHUNK)
            yield rng.randbytes(m)
            n -= m
    elif k == "t":
        rng = random.Random(seg[2])
        while n > 0:
            m = min(n, CHUNK)
            out = bytearray()
            while len(out) < m:
                out += rng.choice(WORDS)
            yield bytes(out[:m])
            n -= m
    else:
        raise ValueError("content segment %r" % (seg,))


def content_chunks(c):
    for seg in c or []:
        for ch in seg_chunks(seg):
            yield ch


def content_size(c):
    return sum(seg[1] for seg in (c or []))


_HASHES = {}


def content_hash(c):
    key = repr(c)
    if key not in _HASHES:
        h = hashlib.sha1()
        for ch in content_chunks(c):
            h.update(ch)
        _HASHES[key] = h.hexdigest()
    return _HASHES[key]


def content_bytes(c):
    return b"".join(content_chunks(c))


def write_content(path, c):
    with open(path, "wb") as f:
        for seg in c or []:
            if seg[0] == "h":
                f.seek(seg[1], os.SEEK_CUR)
            else:
                for ch in seg_chunks(seg):
                    f.write(ch)
        f.truncate(content_size(c))


# ----------------------------------------------------------------------------------------------------------------
# device numbers (Linux encoding; SquashFS stores the 32 bit form)

def makedev32(ma, mi):
    return ((ma & 0xfff) << 8) | (mi & 0xff) | ((mi & 0xfff00) << 12)


def dev_representable(ma, mi):
    return 0 <= ma <= 0xfff and 0 <= mi <= 0xfffff


def major32(d):
    return (d >> 8) & 0xfff


def minor32(d):
    return (d & 0xff) | ((d >> 12) & 0xfff00)


# ----------------------------------------------------------------------------------------------------------------
# pack file / xattr file text

SIMPLE = set(b"abcdefghijklmnopqrstuvwxyzABCDEFGHIJKLMNOPQRSTUVWXYZ0123456789_./-+,:=@%^~")


def quote_token(bs, force=False):
    """gensquashfs(1): a path 'can be put in quotes if some components contain spaces'; inside quotes `\\"` and `\\\\`"""
    if bs and not force and all(c in SIMPLE for c in bs) and not bs.startswith(b"#"):
        return bs
    return b'"' + bs.replace(b"\\", b"\\\\").replace(b'"', b'\\"') + b'"'


def line_text(l, rngbit=0):
    if "raw" in l:
        return b(l["raw"])
    t = l["t"]
    head = [b(t), quote_token(b(l["p"]), force=bool(rngbit & 1) and t != "glob")]
    if t == "glob":
        head += [b"*" if l.get("m") is None else b"%04o" % l["m"], b"*" if l.get("u") is None else b"%d" % l["u"],
                 b"*" if l.get("g") is None else b"%d" % l["g"]]
        for o in l.get("opts", []):
            head.append(quote_token(b(o)) if (" " in o or '"' in o) else b(o))
        if l.get("src") is not None:
            if l["src"].startswith("-"):
                head.append(b"--")
            head.append(quote_token(b(l["src"])))
        return b" ".join(head)
    head += [b"%04o" % l["m"] if not l.get("mtxt") else b(l["mtxt"]), b"%d" % l["u"], b"%d" % l["g"]]
    if t == "file":
        if l.get("loc") is not None:
            head.append(quote_token(b(l["loc"])))
    elif t == "slink":
        head.append(quote_token(b(l["tg"])))
    elif t == "link":
        head.append(quote_token(b(l["to"])))
    elif t == "nod":
        head += [b(l["dt"]), b"%d" % l["maj"], b"%d" % l["min"]]
    return (b"\t" if rngbit & 2 else b" ").join(head)


def packfile_text(case):
    out = [b"# generated by the C01 check"]
    for i, l in enumerate(case.get("lines", [])):
        out.append(line_text(l, (case.get("fmtseed", 0) >> (i % 16)) & 3 if l["t"] != "glob" else 0))
        if i % 7 == 3:
            out.append(b"")
        if i % 11 == 5:
            out.append(b"# comment " + b"%d" % i)
    return b"\n".join(out) + b"\n"


def enc_value(v, how):
    """gensquashfs(1) XATTR FILE FORMAT: text in quotation marks with \\" \\\\ \\0<octal>, or 0x<hex>, or 0s<base64>"""
    if how == "hex":
        return b"0x" + v.hex().encode()
    if how == "HEX":
        return b"0X" + v.hex().upper().encode()
    if how == "b64":
        return b"0s" + base64.b64encode(v)
    out = bytearray(b'"')
    for c in v:
        if c in (0x22, 0x5c):
            out += b"\\" + bytes([c])
        elif c < 0x20 or c == 0x7f:
            out += b"\\0%02o" % c
        else:
            out.append(c)
    return bytes(out) + b'"'


def text_encodable(v):
    # bytes >= 0100 cannot be written as \0<octal>; a digit directly after an escape would be swallowed by it
    for i, c in enumerate(v):
        if (c < 0x20 or c == 0x7f):
            if c >= 0o100:
                return False
    return True


def xattrfile_text(case):
    out = []
    for path, kvs in case.get("xa", []):
        out.append(b"# file: " + b(path))
        for k, hv, how in kvs:
            v = bytes.fromhex(hv)
            if how == "text" and not text_encodable(v):
                how = "hex"
            out.append(b(k) + b"=" + enc_value(v, how))
        out.append(b"")
    return b"\n".join(out) + b"\n"


# ----------------------------------------------------------------------------------------------------------------
# real directories

def makedev_os(ma, mi):
    return os.makedev(ma, mi)


def build_fs(root, nodes, caps=None):
    """create the nodes below `root` (bytes path).  Directories get their attributes last (post-order)."""
    os.makedirs(root, exist_ok=True)
    later = []
    for n in nodes:
        p = os.path.join(root, b(n["p"])) if n["p"] else root
        t = n["t"]
        if t == "dir":
            if n["p"]:
                os.makedirs(p, exist_ok=True)
            later.append((p, n))
            continue
        par = os.path.dirname(p)
        if not os.path.isdir(par):
            os.makedirs(par)
        if t == "file":
            write_content(p, n.get("c"))
        elif t == "slink":
            os.symlink(b(n["tg"]), p)
        elif t == "fifo":
            os.mkfifo(p)
        elif t == "sock":
            os.mknod(p, stat.S_IFSOCK | 0o600)
        elif t in ("cdev", "bdev"):
            os.mknod(p, (stat.S_IFCHR if t == "cdev" else stat.S_IFBLK) | 0o600, os.makedev(n["maj"], n["min"]))
        elif t == "link":
            os.link(os.path.join(root, b(n["to"])), p, follow_symlinks=False)
            continue
        else:
            raise ValueError(t)
        set_attrs(p, n)
    for p, n in reversed(later):
        set_attrs(p, n)


def set_attrs(p, n):
    for k, hv in n.get("x", []):
        os.setxattr(p, b(k), bytes.fromhex(hv), follow_symlinks=False)
    if "u" in n or "g" in n:
        os.lchown(p, n.get("u", 0), n.get("g", 0))
    if n["t"] != "slink" and "m" in n:
        os.chmod(p, n["m"])
    if "mt" in n:
        os.utime(p, (n["mt"], n["mt"]), follow_symlinks=False)


# ----------------------------------------------------------------------------------------------------------------
# options -> argv / environment

def argv_of(opts):
    a = []
    if opts.get("comp"):
        a += ["-c", opts["comp"]]
    if opts.get("X"):
        a += ["-X", opts["X"]]
    if opts.get("bs"):
        a += ["-b", str(opts["bs"])] if not opts.get("bs_txt") else ["-b", opts["bs_txt"]]
    if opts.get("B"):
        a += ["-B", str(opts["B"])]
    for flag, key in (("-T", "T"), ("-e", "e"), ("-k", "k"), ("-x", "x"), ("-H", "H"), ("-o", "o")):
        if opts.get(key):
            a.append(flag if not (opts.get("long") and key in LONG) else LONG[key])
    if opts.get("j") is not None:
        a += ["-j", str(opts["j"])]
    if opts.get("Q") is not None:
        a += ["-Q", str(opts["Q"])]
    if opts.get("d"):
        a += ["-d" if not opts.get("long") else "--defaults", ",".join("%s=%s" % (k, ("0%o" % v) if k == "mode" else str(v)) for k, v in opts["d"].items())]
    if opts.get("allroot"):
        a.append("--all-root")
    if opts.get("u") is not None:
        a += ["--set-uid" if opts.get("long") else "-u", str(opts["u"])]
    if opts.get("g") is not None:
        a += ["--set-gid" if opts.get("long") else "-g", str(opts["g"])]
    return a


LONG = {"T": "--no-tail-packing", "e": "--exportable", "k": "--keep-time", "x": "--keep-xattr", "H": "--no-hard-links",
        "o": "--one-file-system"}


def default_mtime(opts):
    """gensquashfs(1) --defaults / ENVIRONMENT: mtime=<value>, else $SOURCE_DATE_EPOCH if set and a number that fits,
    else 0"""
    d = opts.get("d") or {}
    if "mtime" in d:
        return d["mtime"]
    sde = opts.get("sde")
    if sde is not None and sde.isdigit() and int(sde) <= U32:
        return int(sde)
    return 0


def forced_ids(opts):
    u = 0 if opts.get("allroot") else None
    g = 0 if opts.get("allroot") else None
    if opts.get("u") is not None:
        u = opts["u"]
    if opts.get("g") is not None:
        g = opts["g"]
    return u, g


# ----------------------------------------------------------------------------------------------------------------
# the oracle

class Refuse(Exception):
    def __init__(self, kind, what=""):
        Exception.__init__(self, "%s %s" % (kind, what))
        self.kind = kind


class Exp:
    __slots__ = ("path", "type", "mode", "uid", "gid", "mtime", "target", "dev", "content", "xattrs", "grp", "tags", "implicit")

    def __init__(self, path, type, mode, uid, gid, mtime, **kw):
        self.path, self.type, self.mode, self.uid, self.gid, self.mtime = path, type, mode, uid, gid, mtime
        self.target = kw.get("target")
        self.dev = kw.get("dev")
        self.content = kw.get("content")
        self.xattrs = {}
        self.grp = path
        self.tags = set(kw.get("tags", ()))
        self.implicit = kw.get("implicit", False)

    def size(self):
        return content_size(self.content)


def clamp_mtime(t):
    """timestamps are 32 bit unsigned in SquashFS: values outside are clamped"""
    return 0 if t < 0 else U32 if t > U32 else int(t)


def canon(path):
    """image paths: absolute, components separated by single slashes; `.` components dropped; `..` is an error"""
    comps = [c for c in b(path).split(b"/") if c not in (b"", b".")]
    if b".." in comps:
        raise Refuse("dotdot", path)
    return comps


MAX_NAME = 256
MAX_NESTING = 4096         # SQFS_MAX_DIR_NESTING (include/sqfs/dir.h): directories nested deeper are refused by the packers


class Oracle:
    def __init__(self, case):
        self.case = case
        self.opts = case.get("opts", {})
        d = self.opts.get("d") or {}
        self.dm = default_mtime(self.opts)
        self.fu, self.fg = forced_ids(self.opts)
        self.du, self.dg, self.dmode = d.get("uid", 0), d.get("gid", 0), d.get("mode", 0o755)
        self.nodes = {}
        self.fsidx = {n["p"]: n for n in case.get("fs", [])}
        # --set-uid/--set-gid: "Force the owners user ID for ALL inodes": the root and implicit directories included
        root = Exp(b"/", "dir", self.dmode, self.uid(self.du), self.gid(self.dg), self.dm, implicit=True, tags=["root", "implicit"])
        self.nodes[b"/"] = root
        self.links = []          # (Exp placeholder path, target comps, tag)

    # -- helpers
    def uid(self, u):
        return u if self.fu is None else self.fu

    def gid(self, g):
        return g if self.fg is None else self.fg

    @staticmethod
    def pjoin(comps):
        return b"/" + b"/".join(comps)

    def ensure_parents(self, comps):
        for i in range(1, len(comps)):
            p = self.pjoin(comps[:i])
            n = self.nodes.get(p)
            if n is None:
                self.check_name(comps[i - 1])
                if i > MAX_NESTING:
                    raise Refuse("nesting-too-deep", "%d levels" % i)
                self.nodes[p] = Exp(p, "dir", self.dmode, self.uid(self.du), self.gid(self.dg), self.dm, implicit=True, tags=["implicit"])
            elif n.type != "dir":
                raise Refuse("parent-not-dir", s(p))

    @staticmethod
    def check_name(name):
        if len(name) > MAX_NAME:
            raise Refuse("name-too-long", "%d bytes" % len(name))
        if len(name) == 0:
            raise Refuse("empty-name")

    def add(self, comps, node):
        if not comps:
            # the root: only a `dir` may name it
            if node.type != "dir":
                raise Refuse("root-not-dir")
            old = self.nodes[b"/"]
            if not old.implicit:
                raise Refuse("duplicate", "/")
            node.path = b"/"
            node.grp = b"/"
            node.tags.add("root")
            self.nodes[b"/"] = node
            return node
        self.ensure_parents(comps)
        self.check_name(comps[-1])
        if node.type == "dir" and len(comps) > MAX_NESTING:
            raise Refuse("nesting-too-deep", "%d levels" % len(comps))
        p = self.pjoin(comps)
        old = self.nodes.get(p)
        if old is not None:
            if not (old.type == "dir" and node.type == "dir" and old.implicit):
                raise Refuse("duplicate", s(p))
        node.path = p
        node.grp = p
        self.nodes[p] = node
        return node

    def attach_fs_xattrs(self, node, fsn):
        if self.opts.get("x") and self.case["mode"] == "packdir":
            for k, hv in fsn.get("x", []):
                node.xattrs[k] = bytes.fromhex(hv)
                if hv == "":
                    node.tags.add("empty-xattr-from-fs")

    # -- pack dir
    def from_fs_node(self, fsn, keep_mode=True, keep_uid=True, keep_gid=True, keep_time=False, mode=None, uid=None, gid=None):
        t = fsn["t"]
        m = fsn.get("m", 0o777) if keep_mode else mode
        u = self.uid(fsn.get("u", 0) if keep_uid else uid)
        g = self.gid(fsn.get("g", 0) if keep_gid else gid)
        mt = clamp_mtime(fsn["mt"]) if (keep_time and "mt" in fsn) else self.dm
        if t == "slink":
            return Exp(None, "slink", 0o777, u, g, mt, target=b(fsn["tg"]))
        if t in ("cdev", "bdev"):
            return Exp(None, t, m & 0o7777, u, g, mt, dev=makedev32(fsn["maj"], fsn["min"]))
        if t == "file":
            return Exp(None, "file", m & 0o7777, u, g, mt, content=fsn.get("c") or [])
        return Exp(None, t, m & 0o7777, u, g, mt)

    def scan_packdir(self):
        keep_time = bool(self.opts.get("k"))
        hl = not self.opts.get("H")
        for fsn in self.case.get("fs", []):
            if fsn["p"] == "":
                continue          # attributes of the pack directory itself are not taken over (root = defaults)
            comps = canon(fsn["p"])
            if fsn["t"] == "link":
                first = self.fsidx[fsn["to"]]
                if hl:
                    node = self.add(comps, Exp(None, "hardlink", 0, 0, 0, 0))
                    self.links.append((node.path, canon(fsn["to"]), "fs"))
                else:
                    node = self.add(comps, self.from_fs_node(first, keep_time=keep_time))
                    self.attach_fs_xattrs(node, first)
                continue
            node = self.add(comps, self.from_fs_node(fsn, keep_time=keep_time))
            self.attach_fs_xattrs(node, fsn)
        rootfs = self.fsidx.get("")
        if rootfs is not None:
            self.attach_fs_xattrs(self.nodes[b"/"], rootfs)

    # -- pack file
    def do_line(self, l):
        t = l["t"]
        if "raw" in l:
            raise Refuse(l.get("why", "malformed-line"))
        comps = canon(l["p"])
        if t == "glob":
            return self.do_glob(l, comps)
        if l["m"] > 0o7777 or l.get("mtxt"):
            raise Refuse("bad-mode")
        if not (0 <= l["u"] <= U32 and 0 <= l["g"] <= U32):
            raise Refuse("id-range")
        u, g = self.uid(l["u"]), self.gid(l["g"])
        if t == "dir":
            self.add(comps, Exp(None, "dir", l["m"], u, g, self.dm))
            return
        if not comps:
            raise Refuse("root-not-dir")
        if t == "file":
            loc = l.get("loc")
            key = loc if loc is not None else s(b"/".join(comps))
            src = self.fsidx.get(os.path.normpath(key)) if key else None
            if src is None or src["t"] != "file":
                raise Refuse("missing-input-file", key)
            self.add(comps, Exp(None, "file", l["m"], u, g, self.dm, content=src.get("c") or []))
        elif t == "slink":
            self.add(comps, Exp(None, "slink", 0o777, u, g, self.dm, target=b(l["tg"])))
        elif t == "link":
            node = self.add(comps, Exp(None, "hardlink", 0, 0, 0, 0, tags=["linkdir"]))
            self.links.append((node.path, canon(l["to"]), "linkdir"))
        elif t == "nod":
            if l["dt"] not in ("c", "b", "C", "B"):
                raise Refuse("bad-dev-type")
            if not dev_representable(l["maj"], l["min"]):
                raise Refuse("devno-range")
            self.add(comps, Exp(None, "cdev" if l["dt"] in "cC" else "bdev", l["m"], u, g, self.dm, dev=makedev32(l["maj"], l["min"])))
        elif t == "pipe":
            self.add(comps, Exp(None, "fifo", l["m"], u, g, self.dm))
        elif t == "sock":
            self.add(comps, Exp(None, "sock", l["m"], u, g, self.dm))
        else:
            raise Refuse("unknown-keyword", t)

    def do_glob(self, l, comps):
        # target directory: created implicitly when missing
        if comps:
            self.ensure_parents(comps + [b"x"])
        base = self.nodes[self.pjoin(comps)] if comps else self.nodes[b"/"]
        if base.type != "dir":
            raise Refuse("glob-target-not-dir")
        opts = list(l.get("opts", []))
        types, first = set("bcdpfls"), True
        keeptime = nohl = nonrec = False
        name_pat = path_pat = None
        i = 0
        while i < len(opts):
            o = opts[i]
            if o == "-type":
                if i + 1 >= len(opts) or opts[i + 1] not in list("bcdpfls"):
                    raise Refuse("glob-bad-type")
                if first:
                    types, first = set(), False
                types.add(opts[i + 1])
                i += 2
            elif o in ("-xdev", "-mount"):
                i += 1
            elif o == "-keeptime":
                keeptime = True; i += 1
            elif o == "-nohardlinks":
                nohl = True; i += 1
            elif o == "-nonrecursive":
                nonrec = True; i += 1
            elif o == "-name":
                name_pat = b(opts[i + 1]); i += 2
            elif o == "-path":
                path_pat = b(opts[i + 1]); i += 2
            else:
                raise Refuse("glob-unknown-option", o)
        src = os.path.normpath(l["src"]) if l.get("src") not in (None, "") else ""
        if src == ".":
            src = ""
        srcn = self.fsidx.get(src)
        if src and (srcn is None or srcn["t"] != "dir"):
            raise Refuse("glob-source-missing", src)
        prefix = src + "/" if src else ""
        TCH = {"dir": "d", "file": "f", "slink": "l", "fifo": "p", "sock": "s", "cdev": "c", "bdev": "b"}
        ents = sorted((n for n in self.case.get("fs", []) if n["p"].startswith(prefix) and n["p"] != src and n["p"] != ""),
                      key=lambda n: b(n["p"]).split(b"/"))
        skipped = []       # directory prefixes (relative) whose subtree is not visited
        seen = {}          # first included name of a hard link group -> image comps
        for n in ents:
            rel = n["p"][len(prefix):]
            rc = b(rel).split(b"/")
            if any(rel.startswith(sk + "/") for sk in skipped):
                continue
            if nonrec and len(rc) > 1:
                continue
            real = self.fsidx[n["to"]] if n["t"] == "link" else n
            tch = TCH[real["t"]]
            icomps = comps + rc
            ipath = self.pjoin(icomps)
            ok = tch in types
            if ok and name_pat is not None:
                ok = fnmatch(name_pat, rc[-1], False)
            if ok and path_pat is not None:
                ok = fnmatch(path_pat, b"/".join(icomps), True)
            parent = self.nodes.get(self.pjoin(icomps[:-1]))
            if parent is None or parent.type != "dir":
                ok = False
            if not ok:
                if tch == "d":
                    ex = self.nodes.get(ipath)
                    if ex is None or ex.type != "dir" or parent is None:
                        skipped.append(rel)
                continue
            first_name = n["to"] if n["t"] == "link" else n["p"]
            if not nohl and tch != "d" and first_name in seen:
                node = self.add(icomps, Exp(None, "hardlink", 0, 0, 0, 0, tags=["globhl"]))
                self.links.append((node.path, seen[first_name], "globhl"))
                continue
            node = self.from_fs_node(real, keep_mode=l.get("m") is None, keep_uid=l.get("u") is None, keep_gid=l.get("g") is None,
                                     keep_time=keeptime, mode=l.get("m"), uid=l.get("u"), gid=l.get("g"))
            node.tags.add("glob")
            self.add(icomps, node)
            if tch != "d":
                seen.setdefault(first_name, icomps)

    # -- xattr file
    def apply_xattr_file(self):
        for path, kvs in self.case.get("xa", []):
            try:
                p = self.pjoin(canon(path.strip(" \t")))
            except Refuse:
                raise Refuse("xattr-file-bad-path")
            node = self.nodes.get(p)
            for k, hv, how in kvs:
                if not k.startswith(("user.", "trusted.", "security.")):
                    if node is not None:
                        raise Refuse("xattr-prefix", k)
                    continue
                if node is not None:
                    node.xattrs[k] = bytes.fromhex(hv)

    # -- hard links
    def resolve_links(self):
        # a link names a path of the image; chains of links end at a non-directory
        for path, tcomps, tag in self.links:
            seen = set()
            cur = self.pjoin(tcomps)
            while True:
                if cur in seen or cur == path:
                    raise Refuse("link-cycle", s(path))
                seen.add(cur)
                n = self.nodes.get(cur)
                if n is None:
                    raise Refuse("link-target-missing", s(cur))
                if n.type == "hardlink":
                    nxt = [t for (p2, t, _) in self.links if p2 == cur]
                    cur = self.pjoin(nxt[0])
                    continue
                break
            if n.type == "dir":
                raise Refuse("link-to-dir", s(cur))
            me = self.nodes[path]
            tags = me.tags
            for f in ("type", "mode", "uid", "gid", "mtime", "target", "dev", "content", "xattrs"):
                setattr(me, f, getattr(n, f))
            me.grp = n.grp
            me.tags = set(tags) | {"hl-member"} | (n.tags & {"empty-xattr-from-fs"})
            n.tags.add("hl-member")
            if tag == "linkdir":
                n.tags.add("linkdir-target")
            if tag == "globhl":
                n.tags.add("globhl")

    def run(self):
        mode = self.case["mode"]
        if mode == "packdir":
            self.scan_packdir()
        else:
            for l in self.case.get("lines", []):
                self.do_line(l)
        self.resolve_links()
        if self.case.get("xa"):
            self.apply_xattr_file()
            # members of a hard link group share one inode: the attributes of the inode are those of ... every name
            for n in self.nodes.values():
                if n.grp != n.path:
                    n.xattrs = self.nodes[n.grp].xattrs
        ids = set()
        for n in self.nodes.values():
            ids.add(n.uid); ids.add(n.gid)
            if not (0 <= n.uid <= U32 and 0 <= n.gid <= U32):
                raise Refuse("id-range")
            if n.type == "slink" and len(n.target) == 0:
                raise Refuse("empty-symlink-target")
        if len(ids) > 0xFFFF:
            raise Refuse("too-many-ids", "%d" % len(ids))
        bs = self.opts.get("bs") or 131072
        if bs < 4096 or bs > (1 << 20) or bs & (bs - 1) or self.opts.get("bs_txt"):
            if not self.opts.get("bs_ok"):
                raise Refuse("block-size")
        return self.nodes


def expected(case):
    """('ok', {path: Exp}) or ('refuse', kind)"""
    try:
        return "ok", Oracle(case).run()
    except Refuse as e:
        return "refuse", e.kind


def group_sizes(nodes):
    g = {}
    for n in nodes.values():
        g[n.grp] = g.get(n.grp, 0) + 1
    return g


# ----------------------------------------------------------------------------------------------------------------
# shell patterns of the glob options (only the subset the generator uses: literal bytes, `*`, `?`, `[...]`)

def fnmatch(pat, name, pathname):
    def m(pi, ni):
        while pi < len(pat):
            c = pat[pi]
            if c == 0x2a:      # *
                while pi < len(pat) and pat[pi] == 0x2a:
                    pi += 1
                k = ni
                while True:
                    if m(pi, k):
                        return True
                    if k >= len(name) or (pathname and name[k] == 0x2f):
                        return False
                    k += 1
            if ni >= len(name):
                return False
            if c == 0x3f:      # ?
                if pathname and name[ni] == 0x2f:
                    return False
            elif c == 0x5b:    # [
                j = pat.find(b"]", pi + 2)
                if j < 0:
                    if name[ni] != c:
                        return False
                else:
                    body = pat[pi + 1:j]
                    neg = body[:1] in (b"!", b"^")
                    if neg:
                        body = body[1:]
                    hit, k = False, 0
                    while k < len(body):
                        if k + 2 < len(body) and body[k + 1] == 0x2d:
                            hit |= body[k] <= name[ni] <= body[k + 2]; k += 3
                        else:
                            hit |= body[k] == name[ni]; k += 1
                    if hit == neg or (pathname and name[ni] == 0x2f):
                        return False
                    pi = j
            elif c != name[ni]:
                return False
            pi += 1; ni += 1
        return ni == len(name)
    return m(0, 0)
