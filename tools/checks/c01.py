"""
C01 -- packing fidelity, tool-level end-to-end half.

Generated trees (pack file / real directory / glob lines; boundary matrix of the property's quantifier + seeded random
trees) are packed with the real gensquashfs built from the working tree (ASan+UBSan) under seeded option combinations,
and every image is read back five independent ways; each view is compared with what an oracle, written from
gensquashfs(1)/rdsquashfs(1), says the input must read back as (or that the input must be refused).
See docs/design/C01.md.  Helpers: c01_gen.py (case format, emitters, oracle), c01_cases.py (generators),
c01_read.py (pack + read-back paths a-e).
"""
import concurrent.futures as cf
import copy, json, os, shutil, socket, stat, time, traceback

import vlib
from checks import c01_gen as G
from checks import c01_cases as C
from checks import c01_read as R

LEVEL = "proof"
MODULE = "Sqfs.Props.C01"
UNITS_OPTIONAL = False         # the Lean/unit half (c01_units.py) is merged: its absence is a broken obligation

WORKERS_QUICK, WORKERS_THOROUGH = 6, 12
MAX_REPORTS = 10               # distinct VIOLATION lines per run (each with a shrunk replay); the rest is counted
# /repo's default configuration (pool allocator: lib/util/src/mempool.c compiled, NO_CUSTOM_ALLOC not defined; the xattr writer's
# kv_block_tree, the dir reader cache and the visited sets of the tree readers are rbtrees on it): every POOL_EVERY-th generated
# case (by index: no rng draw) is packed and read back by the gensquashfs/rdsquashfs of that configuration instead of the
# plain-malloc one, and the cases with >= 511 xattr sets run a second time against it; same oracle, same five read-back paths
POOL_EVERY, POOL_PHASE = 5, 3
POOL_FLOOR_QUICK, POOL_FLOOR_THOROUGH = 45, 110          # cases evaluated against the pool configuration
POOL_XATTR_FLOOR = 4                                     # ... of them `xattr-sets-<n>` with n >= 511 that packed and read back

# known findings of /repo this check can run into (keys are what ctx.violation receives)
K_D9 = "C01e:D9:xattr-sets-multiple-of-512-overflow-write_id_table"
K_D10 = "C01e:D10:link-directive-packs-a-symlink"
K_GLOBHL = "C01e:glob-hard-links-resolved-without-prefix"
K_GLOBTYPE = "C01e:glob-type-filter-sees-hard-links-as-symlinks"
K_EMPTYX = "C01e:keep-xattr-drops-empty-values"
K_XNUL = "C01e:rdsquashfs-x-truncates-value-at-nul"
K_FORCEID = "C01e:set-uid-gid-skips-root-and-implicit-directories"
K_DICTPCT = "C01e:comp-extra-dictsize-percent-always-refused"
K_QSORT = "C01e:rdsquashfs-unpack-without-regular-files-qsort-null"
KNOWN_WHAT = {
    K_D9: "gensquashfs writes past the end of the xattr id table's location array when the number of distinct xattr sets is a multiple of 512 "
          "(heap-buffer-overflow in lib/sqfs/src/xattr/xattr_writer_flush.c write_id_table)",
    K_D10: "the `link` keyword of a pack file packs a symbolic link instead of a hard link (fstree_from_file.c never hands cb->flags to the entry)",
    K_GLOBHL: "a `glob` line whose target is not / records hard-link targets without the target prefix: the run fails on any multiply-linked "
              "file, or links the name to an unrelated file of that path at the root (exit 0, other file's contents)",
    K_GLOBTYPE: "glob -type filters run after hard-link detection: further names of a regular file look like symlinks, so `-type f` drops them and "
                "`-type l` picks them up",
    K_EMPTYX: "gensquashfs --keep-xattr drops extended attributes whose value is empty (apply_xattr.c: `if (vallen > 0)`)",
    K_XNUL: "rdsquashfs -x prints a value that contains a NUL byte (and no other control byte) with %s: everything from the NUL on is lost",
    K_DICTPCT: "-X dictsize=<n>% (documented by `-X help` for xz/lzma) is always refused: parse_size() does not step over the '%' "
               "(lib/common/src/parse_size.c) and reports 'unknown suffix'",
    K_QSORT: "rdsquashfs -u on an image without any regular file calls qsort(NULL, 0, ...) (fill_files.c:199; undefined behaviour, reported by UBSan)",
    K_FORCEID: "--set-uid/--set-gid/--all-root are not applied to the root inode and to implicitly created directories (gensquashfs(1): 'for ALL inodes')",
}


# ----------------------------------------------------------------------------------------------------------------
# capabilities of the sandbox (probed once; recorded in the evidence)

def probe_caps(ctx):
    d = ctx.scratch / "caps"
    d.mkdir(exist_ok=True)
    caps = {}
    def attempt(name, fn):
        try:
            fn(); caps[name] = True
        except Exception as e:
            caps[name] = False
            caps[name + "_error"] = str(e)[:80]
    f = str(d / "f")
    open(f, "w").write("x")
    os.symlink("t", str(d / "sl"))
    attempt("mknod_dev", lambda: os.mknod(str(d / "c"), stat.S_IFCHR | 0o600, os.makedev(4095, 0xfffff)))
    attempt("mkfifo", lambda: os.mkfifo(str(d / "p")))
    attempt("mknod_sock", lambda: os.mknod(str(d / "s"), stat.S_IFSOCK | 0o600))
    attempt("chown", lambda: os.chown(f, 0xFFFFFFFE, 0xFFFFFFFE))
    attempt("xattr_user", lambda: os.setxattr(f, "user.c01", b"v"))
    attempt("xattr_trusted", lambda: os.setxattr(str(d / "sl"), "trusted.c01", b"v", follow_symlinks=False))
    attempt("xattr_security", lambda: os.setxattr(str(d / "sl"), "security.c01", b"v", follow_symlinks=False))
    attempt("xattr_empty_value", lambda: os.setxattr(f, "user.empty", b""))
    attempt("mtime_u32_max", lambda: (os.utime(f, (0, 0xFFFFFFFF)), None if int(os.lstat(f).st_mtime) == 0xFFFFFFFF else 1 / 0))
    attempt("mtime_beyond_u32", lambda: (os.utime(f, (0, 2 ** 33)), None if int(os.lstat(f).st_mtime) == 2 ** 33 else 1 / 0))
    attempt("mtime_negative", lambda: (os.utime(f, (0, -5)), None if int(os.lstat(f).st_mtime) == -5 else 1 / 0))
    attempt("hardlink", lambda: os.link(f, str(d / "f2")))
    def holes():
        with open(str(d / "h"), "wb") as fh:
            fh.truncate(1 << 32)
        if os.lstat(str(d / "h")).st_blocks > 16:
            raise OSError("no holes")
    attempt("sparse_files", holes)
    attempt("name_255_bytes", lambda: open(str(d / ("n" * 255)), "w").close())
    attempt("name_invalid_utf8", lambda: open(os.path.join(os.fsencode(str(d)), b"\xff\xfe"), "w").close())
    shutil.rmtree(d, ignore_errors=True)
    return caps


def case_feasible(case, caps):
    """can this sandbox build the case's input?  (reason or None)"""
    for n in case.get("fs", []):
        t = n["t"]
        if t in ("cdev", "bdev") and not caps.get("mknod_dev"):
            return "no mknod for devices"
        if t == "sock" and not caps.get("mknod_sock"):
            return "no sockets"
        if t == "link" and not caps.get("hardlink"):
            return "no hard links"
        if ("u" in n or "g" in n) and (n.get("u") or n.get("g")) and not caps.get("chown"):
            return "no chown"
        for k, hv in n.get("x", []):
            pre = k.split(".")[0]
            if not caps.get("xattr_" + pre):
                return "no %s xattrs" % pre
        mt = n.get("mt")
        if mt is not None and ((mt > 0xFFFFFFFF and not caps.get("mtime_beyond_u32")) or (mt < 0 and not caps.get("mtime_negative"))):
            return "mtime range"
    return None


# ----------------------------------------------------------------------------------------------------------------
# the plan

def plan(ctx):
    rng, q = ctx.rng, ctx.quick()
    cases = []
    add = cases.append
    comps = C.COMPS
    # (1) boundary matrix: directory sizes (256-entry headers, 8 KiB metadata blocks, 64 KiB listing -> extended inode + index)
    dsz = [0, 1, 2, 255, 256, 257, 258, 511, 512, 513]
    for n in ([256, 257] + rng.sample([0, 1, 2, 255, 258, 511, 512, 513], 5) if q else dsz + [1024, 3000]):
        add(C.dir_case(rng, n, opts={"comp": rng.choice(comps), "bs": 4096, "e": rng.random() < 0.5}, ftype=rng.choice(["pipe", "file", "mix"])))
    edge = [(255, 24), (256, 24), (257, 24), (30, 250), (31, 255), (32, 256), (247, 256), (248, 256), (249, 256), (250, 256), (254, 256), (260, 256), (700, 100)]
    for n, nl in (rng.sample(edge, 6) if q else edge):
        add(C.dir_case(rng, n, namelen=nl, opts={"comp": rng.choice(comps), "bs": 4096, "e": rng.random() < 0.5}))
    # (2) file sizes around k*B for every B, all compressors; contents
    bss = [4096, 8192, 65536, 131072, 1048576]
    if q:
        pick = [(4096, rng.choice(comps)), (rng.choice(bss[1:4]), rng.choice(comps)), (1048576, rng.choice(["lz4", "zstd", "gzip"]))]
        for bs, comp in pick:
            add(C.filesize_case(rng, bs, comp, T=rng.random() < 0.4, packdir=rng.random() < 0.4))
        for comp in rng.sample(comps, 2):
            add(C.content_case(rng, rng.choice([4096, 8192, 32768]), comp, rng.choice([{}, {"T": True}, {"j": 4, "Q": 2}])))
    else:
        for bs in bss:
            for comp in comps:
                add(C.filesize_case(rng, bs, comp, T=rng.random() < 0.4, packdir=rng.random() < 0.4))
        for comp in comps:
            for bs in (4096, 16384, 131072):
                add(C.content_case(rng, bs, comp, rng.choice([{}, {"T": True}, {"j": 4, "Q": 2}, {"e": True}])))
    # (3) ids
    for n in ([1, 255, 256] if q else [1, 2, 255, 256, 257, 4096, 4097]):
        add(C.ids_case(rng, n, comp=rng.choice(comps), base=rng.choice([0, 0, 100000]), split_gid=rng.random() < 0.5))
    # (4) xattr sets around multiples of 512, shared long values, empty values, every prefix, binary
    # (1025 sets = 3 descriptor blocks, 2049 = 5: locations[3], locations[4] are used; 4097 = 9 blocks)
    for n in ([0, 1, 511, 512, 513, 1025, 2049] if q else [0, 1, 2, 511, 512, 513, 1023, 1024, 1025, 1537, 2048, 2049, 4097]):
        add(C.xattrsets_case(rng, n, comp=rng.choice(comps), shared=(n != 512 or rng.random() < 0.5)))
    # (5) every inode type, names, hard links
    for comp in (rng.sample(comps, 2) if q else comps):
        add(C.types_case(rng, comp, rng.choice([4096, 131072])))
    add(C.names_case(rng, "packfile", rng.choice(comps)))
    add(C.names_case(rng, "packdir", rng.choice(comps)))
    add(C.names_case(rng, "packdir-nl", rng.choice(comps)))
    add(C.deep_case(rng, rng.choice(comps)))
    add(C.hardlink_case(rng, "packdir", rng.choice(comps)))
    add(C.hardlink_case(rng, "packdir", rng.choice(comps), nohl=True))
    add(C.hardlink_case(rng, "packfile", rng.choice(comps)))
    add(C.hardlink_case(rng, "packfile-first", rng.choice(comps)))
    # (6) glob
    gv = ["all", "attrs", "types", "name", "path", "nonrec", "mixed"]
    for v in (gv if q else gv * 4):
        add(C.glob_case(rng, rng.choice(comps), rng.choice([4096, 16384]), v))
    for v in ["prefix", "prefix-decoy", "root", "nohardlinks", "types", "name-first-filtered", "keeptime-attrs"]:
        add(C.glob_hardlink_case(rng, rng.choice(comps), v))
    # (7) options whose effect on the tree is documented
    for i in range(36 if q else 96):
        add(C.options_case(rng, i))
    # (8) seeded random trees in the three input modes
    nrand = 150 if q else 500
    for i in range(nrand):
        mode = ["packfile", "packdir", "packfile", "packdir", "glob"][i % 5]
        o = C.rnd_opts(rng, mode)
        n = rng.choice([5, 12, 25, 40]) if q else rng.choice([5, 12, 25, 40, 80, 150])
        if o["bs"] >= 262144:
            n = min(n, 12)
        if mode == "packfile":
            body = C.mixed_packfile(rng, n, o["bs"], links=rng.random() < 0.35)
        elif mode == "packdir":
            body = {"mode": "packdir", "fs": C.mixed_fs(rng, n, o["bs"]), "xa": []}
            if rng.random() < 0.25:
                body["xa"] = C.xa_for_fs(rng, body["fs"])
        else:
            c = C.glob_case(rng, o["comp"], o["bs"], rng.choice(gv), links=rng.random() < 0.4)
            body = {k: c[k] for k in ("mode", "fs", "lines", "xa")}
        add(C.case("random", "random-%d-%s" % (i, mode), body, o))
    # (9) refusals
    cases += C.refusal_cases(rng, not q)
    # (10) sizes beyond 4 GiB: quick one hole-made file (size and last block offset > 2^32, nothing stored);
    #      thorough only: 5 GiB files on all paths, a data area of > 4 GiB stored bytes, inode number deltas beyond s16
    add(C.sparse4g_case(rng, rng.choice(["lz4", "zstd", "gzip"])))
    if not q:
        free = shutil.disk_usage(str(ctx.scratch)).free
        if free >= 16 << 30:
            add(C.bigdata_case(rng))
        else:
            ctx.cov["bigdata_skipped"] = "only %.1f GiB free in the scratch file system; the > 4 GiB data area case needs 16 (input + image + unpacked copy)" % (free / 2 ** 30)
            ctx.log("SKIPPED: data-area-4GiB case, " + ctx.cov["bigdata_skipped"])
        add(C.bigsparse_case(rng, "zstd", 1048576))
        add(C.bigsparse_case(rng, "gzip", 131072))
        add(C.bigdelta_case(rng, "gzip"))
    for i, c in enumerate(cases):
        c["idx"] = i
    return cases


# ----------------------------------------------------------------------------------------------------------------
# one case

def pick_paths(case, exp, limit, seed, only=None):
    import random
    rng = random.Random(seed)
    ps = sorted(exp)
    if only is not None:
        ps = [p for p in ps if only(exp[p])]
    if len(ps) <= limit:
        return ps
    return sorted(rng.sample(ps, limit))


def run_case(env, case, wd, paths="abcde", limits=None):
    """pack + read back; returns dict(status, expect, mism=[(rpath, class, path, detail)], stats, cmd)"""
    t0 = time.time()
    st = {}
    res = {"name": case.get("name"), "idx": case.get("idx"), "mism": [], "stats": st, "cmd": "", "rc": None}
    if case.get("configuration") == "pool":
        if getattr(env, "pool_env", None) is None:
            raise vlib.CheckFailure("case %s asks for the pool configuration, which was not built" % case.get("name"))
        env = env.pool_env                       # gensquashfs/rdsquashfs of /repo's default configuration; everything else as below
        res["configuration"] = "pool"
    status, exp = G.expected(case)
    res["expect"] = status if status == "ok" else "refuse:" + exp
    wdb = os.fsencode(str(wd))
    shutil.rmtree(wdb, ignore_errors=True)
    os.makedirs(wdb)
    try:
        pk = R.pack(env, case, wdb, timeout=R.TIMEOUT * (6 if case.get("kind") in ("refusal", "bigsparse", "bigdelta", "bigdata") else 1))
        res["rc"] = pk["rc"]
        res["cmd"] = R.show_cmd(pk["cmd"], wdb)
        if case.get("opts", {}).get("sde") is not None:
            res["cmd"] = "SOURCE_DATE_EPOCH='%s' %s" % (case["opts"]["sde"], res["cmd"])
        res["t_pack"] = round(pk["t"], 2)
        err = pk["stderr"]
        img = pk["img"]
        if R.crashed(pk["rc"], err):
            res["mism"].append(("pack", "crash", "", "gensquashfs rc=%s: %s" % (pk["rc"], sanitizer_summary(err))))
        elif status == "refuse":
            if pk["rc"] == 0:
                res["mism"].append(("pack", "accepted-unrepresentable", "", "input that has to be refused (%s) packed with exit 0" % exp))
            else:
                st["refused"] = exp
                if not err.strip():
                    res["mism"].append(("pack", "no-diagnostic", "", "exit %d without a diagnostic (%s)" % (pk["rc"], exp)))
                if os.path.exists(img):
                    rc2, out2, err2 = R.run([env.rd, "-d", img], env.san)
                    if rc2 == 0:
                        res["mism"].append(("pack", "image-left-behind", "", "exit %d but a readable image was left behind (%s)" % (pk["rc"], exp)))
        elif pk["rc"] != 0:
            res["mism"].append(("pack", "refused-representable", "", "exit %d: %s" % (pk["rc"], err[-300:].decode("latin-1"))))
        else:
            want = case.get("paths")
            res["mism"] += read_back(env, case, img, exp, wdb, st, paths if not want else "".join(c for c in paths if c in want), limits)
        res["exp_nodes"] = exp if status == "ok" else None
    except Exception as e:
        res["mism"].append(("infra", "exception", "", "%s: %s" % (type(e).__name__, traceback.format_exc()[-600:])))
    finally:
        shutil.rmtree(wdb, ignore_errors=True)
    res["t"] = round(time.time() - t0, 2)
    return res


def sanitizer_summary(err):
    return R.san_summary(err)


def strata_pick(exp, limit, seed, key, only=None, always=None):
    """sample of paths that holds at least one member of every stratum `key(e)` (so that e.g. every inode type, with and
    without xattrs, linked or not, is looked at in every image), every path `always` selects, then random ones up to `limit`"""
    import random
    rng = random.Random(seed)
    ps = [p for p in sorted(exp) if only is None or only(exp[p])]
    if len(ps) <= limit:
        return ps
    chosen = [p for p in ps if always is not None and always(exp[p])][:max(limit, 40)]
    seen = {key(exp[p]) for p in chosen}
    for p in rng.sample(ps, len(ps)):
        k = key(exp[p])
        if k not in seen:
            seen.add(k); chosen.append(p)
    rest = [p for p in ps if p not in set(chosen)]
    if len(chosen) < limit:
        chosen += rng.sample(rest, min(len(rest), limit - len(chosen)))
    return sorted(set(chosen))


def read_back(env, case, img, exp, wdb, st, paths, limits):
    """runs the read-back paths; `plan` holds, per counter, how many comparisons a path must have made when it reports no
    mismatch -- a path that compared less than it planned is itself a mismatch (class `coverage`)"""
    thorough = env.thorough
    lim = limits or ({"s": 16, "l": 6, "x": 10, "c": 16} if not thorough else {"s": 60, "l": 20, "x": 40, "c": 60})
    mism, got_a, plan = [], {}, {}
    seed = case.get("idx", 0)
    bs = case.get("opts", {}).get("bs") or 131072
    gsz = G.group_sizes(exp)
    files = {e.grp for e in exp.values() if e.type == "file"}
    if "a" in paths:
        m, got_a = R.read_a(env, case, img, exp, st)
        mism += m
        plan["a_nodes"], plan["a_files"] = len(exp), len(files)
        plan["a_link_names"] = sum(1 for e in exp.values() if e.type != "dir" and gsz[e.grp] > 1)
    if "b" in paths:
        mism += R.read_b(env, case, img, exp, st)
        if "b_skipped" not in st:
            plan["b_nodes"] = sum(1 for p in exp if b"\n" not in p)
    if "c" in paths:
        dirs = strata_pick(exp, lim["l"], seed, lambda e: True, lambda e: e.type == "dir")
        nond = pick_paths(case, exp, 2, seed + 1, lambda e: e.type != "dir")
        n_list = 0
        for d in dirs + nond:
            kids = len(children_count(exp, d)) if exp[d].type == "dir" else 1
            if kids > 5000:
                st["l_skipped"] = st.get("l_skipped", 0) + 1
                continue
            n_list += kids
            mism += R.read_c_list(env, img, exp, got_a, d, st)
        plan["c_list_entries"] = n_list
        skey = lambda e: (e.type, bool(e.xattrs), gsz[e.grp] > 1, e.implicit, e.type == "file" and e.size() >= 1 << 32)
        stat_paths = strata_pick(exp, lim["s"], seed + 2, skey, always=lambda e: gsz[e.grp] > 1 or "root" in e.tags)
        for p in stat_paths:
            mism += R.read_c_stat(env, img, exp, got_a, p, gsz, st)
        plan["c_stat"] = len(stat_paths)
        if any(e.type != "dir" and gsz[e.grp] > 1 for e in exp.values()):
            st["c_link_names_stat"] = sum(1 for p in stat_paths if exp[p].type != "dir" and gsz[exp[p].grp] > 1)
        withx = strata_pick(exp, lim["x"], seed + 3, lambda e: (e.type, any(0 in v for v in e.xattrs.values()), any(v == b"" for v in e.xattrs.values())),
                            only=lambda e: bool(e.xattrs))
        without = pick_paths(case, exp, 2, seed + 4, lambda e: not e.xattrs)
        for p in withx + without:
            mism += R.read_c_xattr(env, img, exp, got_a, p, st)
        plan["c_xattr"] = len(withx) + len(without)
    if "d" in paths:
        ckey = lambda e: (e.size() == 0, e.size() < bs, e.size() % bs == 0, e.size() >= 1 << 32, gsz[e.grp] > 1,
                          any(seg[0] in "zh" for seg in e.content or []))
        cat_paths = strata_pick(exp, lim["c"], seed + 5, ckey, only=lambda e: e.type == "file")
        for p in cat_paths:
            mism += R.read_d(env, img, exp, p, st)
        plan["d_files"] = len(cat_paths)
    if "e" in paths:
        mism += R.read_e(env, case, img, exp, wdb, st)
        if "e_skipped" not in st and "e_planned" in st:
            plan["e_nodes"] = st["e_planned"]
            plan["e_files"] = sum(1 for e in exp.values() if e.type == "file")
    else:
        st["e_skipped"] = case.get("paths_why", "path (e) not requested for this case")
    # accounting: a path without a mismatch must have compared everything it planned
    for k, want in plan.items():
        rp = k[0]
        if st.get(k, 0) != want and not any(m[0] == rp for m in mism):
            mism.append((rp, "coverage", "", "read-back path (%s) made %d comparisons of kind %s, %d planned" % (rp, st.get(k, 0), k, want)))
    st["planned"] = plan
    return mism


def children_count(exp, d):
    pre = d if d.endswith(b"/") else d + b"/"
    return [1 for q in exp if q.startswith(pre) and b"/" not in q[len(pre):] and q != b"/"]


# ----------------------------------------------------------------------------------------------------------------
# classification: known findings of /repo

def has_glob_links(case):
    return case.get("mode") == "glob" and any(n["t"] == "link" for n in case.get("fs", [])) and \
        any(l.get("t") == "glob" and "-nohardlinks" not in l.get("opts", []) for l in case.get("lines", []))


def known_key(case, exp, m):
    rp, cls, path, detail = m[:4]
    info = m[4] if len(m) > 4 else {}
    opts = case.get("opts", {})
    n = exp.get(path.encode("latin-1")) if (exp and path) else None
    tags = n.tags if n is not None else set()
    if rp == "pack" and cls == "crash" and "write_id_table" in detail and "heap-buffer-overflow" in detail:
        return K_D9
    if rp == "pack" and cls == "accepted-unrepresentable" and any(l.get("t") == "link" for l in case.get("lines", [])) and \
            any(k in detail for k in ("link-target-missing", "link-to-dir", "link-cycle")):
        return K_D10            # a `link` line is packed as a symlink, so nothing about its target is ever checked
    if rp == "pack" and cls == "refused-representable" and "Parsing LZMA dictionary size: unknown suffix" in detail and "%" in (opts.get("X") or ""):
        return K_DICTPCT
    if "linkdir" in tags or ("linkdir-target" in tags and cls in ("nlink", "hardlink-split", "reader-vs-parser")):
        return K_D10
    if rp == "e" and cls == "crash" and "fill_files.c" in detail and "null pointer passed as argument 1" in detail and \
            not any(e.type == "file" for e in (exp or {}).values()):
        return K_QSORT
    if cls in ("uid", "gid") and n is not None and n.implicit:
        fu, fg = G.forced_ids(opts)
        if (cls == "uid" and fu is not None) or (cls == "gid" and fg is not None):
            return K_FORCEID
    if cls == "xattrs" and "empty-xattr-from-fs" in tags and opts.get("x") and info.get("only_missing_empty"):
        return K_EMPTYX
    if cls in ("xattr-dump", "xattr-dump-nul") and "empty-xattr-from-fs" in tags and opts.get("x"):
        return K_EMPTYX
    if cls == "xattr-dump-nul":
        return K_XNUL
    if has_glob_links(case):
        typed = any("-type" in l.get("opts", []) for l in case.get("lines", []) if l.get("t") == "glob")
        if rp == "pack" and cls == "refused-representable" and "Resolving hard link" in detail:
            return K_GLOBTYPE if typed else K_GLOBHL
        if cls in ("nlink", "hardlink-merged", "hardlink-split") or "globhl" in tags or "hl-member" in tags:
            return K_GLOBTYPE if typed else K_GLOBHL
    return None


# ----------------------------------------------------------------------------------------------------------------
# shrinking

def shrink(env, case, target, budget_s=60, max_eval=60):
    """delete nodes / halve sizes / drop options while a mismatch of the same (read-back path, class) persists"""
    rp, cls = target
    paths = "a" if rp == "pack" else ("a" + rp if rp in "bcde" else "a")
    t0 = time.time()
    evals = [0]
    wd = env.ctx.scratch / ("shrink%d" % (case.get("idx", 0)))

    def still(c):
        if evals[0] >= max_eval or time.time() - t0 > budget_s:
            return False
        evals[0] += 1
        try:
            r = run_case(env, c, wd, paths=paths, limits={"s": 400, "l": 100, "x": 400, "c": 400})
        except Exception:
            return False
        for m in r["mism"]:
            if (m[0], m[1]) == (rp, cls) and known_key(c, r.get("exp_nodes"), m) is None:
                return True
        return False

    def consistent(c):
        fs = c.get("fs")
        if not fs:
            return c
        while True:
            have = {n["p"] for n in fs}
            dirs = {n["p"] for n in fs if n["t"] == "dir"} | {""}
            keep = [n for n in fs if (n["p"] == "" or n["p"].rpartition("/")[0] in dirs) and (n["t"] != "link" or n["to"] in have)]
            if len(keep) == len(fs):
                break
            fs = keep
        c = dict(c); c["fs"] = fs
        return c

    plain_still = still
    still = lambda c: plain_still(consistent(c))
    cur = copy.deepcopy(case)
    for field in ("lines", "fs", "xa"):
        items = cur.get(field) or []
        chunk = max(1, len(items) // 2)
        while chunk >= 1 and items:
            i, progressed = 0, False
            while i < len(items):
                cand = items[:i] + items[i + chunk:]
                trial = dict(cur); trial[field] = cand
                if still(trial):
                    items, progressed = cand, True
                    cur[field] = items
                else:
                    i += chunk
            if chunk == 1 and not progressed:
                break
            chunk = chunk // 2 if chunk > 1 else (1 if progressed else 0)
            if evals[0] >= max_eval or time.time() - t0 > budget_s:
                break
    # halve file sizes
    for n in cur.get("fs", []):
        c = n.get("c")
        while c and G.content_size(c) > 1 and evals[0] < max_eval and time.time() - t0 < budget_s:
            smaller = [[seg[0], max(1, seg[1] // 2)] + seg[2:] for seg in c][:max(1, len(c))]
            trial = copy.deepcopy(cur)
            for x in trial["fs"]:
                if x["p"] == n["p"]:
                    x["c"] = smaller
            if still(trial):
                n["c"] = c = smaller
            else:
                break
    # drop options
    for k in list(cur.get("opts", {})):
        if k in ("comp", "bs"):
            continue
        trial = copy.deepcopy(cur)
        del trial["opts"][k]
        if still(trial):
            cur = trial
    cur = consistent(cur)
    cur["shrunk_from"] = case.get("name")
    cur["shrink_evaluations"] = evals[0]
    return cur


# ----------------------------------------------------------------------------------------------------------------
# run / replay

def build(ctx):
    gen = ctx.build_tool("gensquashfs")
    rd = ctx.build_tool("rdsquashfs")
    unz = ctx.cc("unz", ["unz.c"], sanitize=False, libs=["-lz", "-llzma", "-llz4", "-lzstd"])
    return gen, rd, unz


def build_pool_env(ctx, env):
    """the same two tools in /repo's default configuration (ASan+UBSan as well); hung below the plain Env"""
    gen = ctx.build_tool("gensquashfs", tag="c01pool", custom_alloc=True)
    rd = ctx.build_tool("rdsquashfs", tag="c01pool", custom_alloc=True)
    env.pool_env = R.Env(ctx, gen, rd, env.unz, env.caps)
    env.pool_env.thorough = env.thorough
    return env.pool_env


def mark_pool_cases(cases):
    """chooses the pool-configuration share by case index (the random stream of the generators is untouched)"""
    extra = []
    for c in cases:
        if c.get("kind") == "corpus" or c.get("configuration"):
            continue
        m = c.get("kind") == "xattrsets" and c.get("name", "").startswith("xattr-sets-") and c["name"][11:].isdigit() and int(c["name"][11:]) >= 511
        if c["idx"] % POOL_EVERY == POOL_PHASE and c.get("kind") not in ("bigdata", "bigsparse", "bigdelta", "sparse4g") \
                and not c.get("name", "").startswith("sparse-4GiB"):
            c["configuration"] = "pool"
        elif m:
            d = copy.deepcopy(c)
            d["configuration"] = "pool"
            d["name"] = c["name"] + "@pool"
            d["idx"] = 200000 + c["idx"]
            extra.append(d)
    return cases + extra


def case_hash(case):
    c = {k: v for k, v in case.items() if k not in ("idx",)}
    return vlib.sha(json.dumps(c, sort_keys=True, default=str))[:10]


def replay_dict(case, res, m):
    c = {k: v for k, v in case.items() if k != "idx"}
    return {"kind": "case", "case": c, "command": res.get("cmd"), "expect": res.get("expect"), "mismatch": list(m),
            "rebuild": "tools/check C01 --replay <this file> rebuilds the input (pack file / directory / xattr file) from `case` in a scratch "
                       "directory, runs the command and all five read-back paths, and prints every mismatch"}


def run(ctx):
    t_start = time.time()
    stats = {}
    units = None
    try:
        from checks import c01_units
        units = c01_units
    except ImportError:
        if UNITS_OPTIONAL:
            ctx.log("units half not present (checks/c01_units.py): proof gate and unit-level tie skipped; this run covers the tool-level tie only")
        else:
            ctx.violation("proof:C01", "the Lean/unit half of C01 (tools/checks/c01_units.py) is missing", {"missing": "tools/checks/c01_units.py"}, found_input=False)
    if units is not None:
        ok, problems = vlib.proof_gate(ctx, MODULE, units.REQUIRED)
        if not ok:
            ctx.violation("proof:C01", "proof obligations of C01 no longer check: " + " | ".join(problems)[:1500],
                          {"broken": problems, "theorems_file": "lean/Sqfs/Props/C01.lean"}, found_input=False)
    else:
        ok, log = ctx.lean_build(["sqfsmodel"])
        if not ok:
            raise vlib.CheckFailure("lake build sqfsmodel failed:\n" + log[-2000:])
    gen, rd, unz = build(ctx)
    caps = probe_caps(ctx)
    ctx.log("built gensquashfs, rdsquashfs (ASan+UBSan), unz; sandbox capabilities: " + ", ".join(k for k, v in sorted(caps.items()) if v is True))
    env = R.Env(ctx, gen, rd, unz, caps)
    t_pool = time.time()
    build_pool_env(ctx, env)
    stats["pool_configuration_build_seconds"] = round(time.time() - t_pool, 1)
    ctx.log("built gensquashfs, rdsquashfs in /repo's default configuration (pool allocator) in %.1f s" % (time.time() - t_pool))
    cases = mark_pool_cases(corpus_cases(ctx) + plan(ctx))
    # the unit-level tie (real library functions vs the Lean models) runs beside the tool-level cases
    unit_box = {"counts": (0, 0, 0), "error": None}
    def unit_job():
        try:
            unit_box["counts"] = units.run_units(ctx, stats) or (0, 0, 0)
            ctx.log("unit-level tie done: %d ops, %d classes, %d disagreements" % tuple(unit_box["counts"]))
        except Exception as e:
            unit_box["error"] = e
    unit_thread = None
    if units is not None:
        import threading
        unit_thread = threading.Thread(target=unit_job)
        unit_thread.start()
    skipped = {}
    todo = []
    for c in cases:
        why = case_feasible(c, caps)
        if why:
            skipped[why] = skipped.get(why, 0) + 1
        else:
            todo.append(c)
    ctx.log("%d cases planned (%d skipped: %s)" % (len(todo), sum(skipped.values()), skipped))
    # long cases first
    def weight(c):
        if c.get("kind") in ("bigdata", "bigsparse", "bigdelta"):
            return 0
        if c.get("name", "").startswith(("ids-6", "ids-4", "nesting-4096", "xattr-sets-2", "xattr-sets-4", "sizes-B1048576")):
            return 1
        return 5
    todo.sort(key=lambda c: (weight(c), c["idx"]))
    results = []
    nworkers = int(os.environ.get("VERIF_JOBS", WORKERS_QUICK if ctx.quick() else WORKERS_THOROUGH))
    with cf.ThreadPoolExecutor(nworkers) as ex:
        futs = [ex.submit(run_case, env, c, ctx.scratch / ("case%d" % c["idx"])) for c in todo]
        assert len(futs) == len(todo)
        for k, (c, f) in enumerate(zip(todo, futs)):
            results.append((c, f.result()))
            if (k + 1) % 200 == 0:
                ctx.log("%d/%d cases done" % (k + 1, len(todo)))
    ctx.log("all cases evaluated in %.0f s" % (time.time() - t_start))
    if unit_thread is not None:
        unit_thread.join()
        if unit_box["error"] is not None:
            raise unit_box["error"]
    stats["_unit_counts"] = list(unit_box["counts"])
    summarize(ctx, env, results, skipped, caps, stats)
    return ctx.finish(LEVEL, trusted_extra=[
        "tool-level tie: tools/checks/c01*.py (generators, the Python oracle written from gensquashfs(1)/rdsquashfs(1), read-back comparisons), "
        "harness/unz.c + Sqfs/Model/ImageParse.lean (independent parser, shared with C03), tools/sqfsraw.py decompress (zlib/lzma/liblz4/libzstd)",
        "exercised, not modelled: the third-party codecs, the kernel's file system used for pack directories and unpacking",
    ], assumptions=[
        "the oracle's normalisation rules (docs/design/C01.md) are the documented semantics of gensquashfs(1); where the manual is silent "
        "(symlink mode 0777, directory link counts, -x rendering) the rule is stated there and only cross-checked between readers",
        "rdsquashfs -u cannot recreate hard links and does not restore the root directory's attributes: those are compared on paths a-c only",
    ])


def corpus_cases(ctx=None):
    out = []
    d = vlib.CORPUS / "C01"
    if d.is_dir():
        for p in sorted(d.glob("*.json")):
            if p.name.startswith("units"):
                continue
            try:
                body = json.loads(p.read_text())
                c = body.get("replay", body).get("case")
                if not c or "mode" not in c:
                    raise ValueError("no case in it")
                c = dict(c); c["kind"] = "corpus"; c["name"] = "corpus:" + p.stem; c["idx"] = 100000 + len(out)
                out.append(c)
            except Exception as e:
                if ctx is None:
                    raise
                ctx.violation("infra:corpus:" + p.name, "regression input corpus/C01/%s cannot be read: %s" % (p.name, e), {"file": str(p)}, found_input=False)
    return out


def summarize(ctx, env, results, skipped, caps, stats):
    H = lambda: {}
    hist = {k: {} for k in ("kinds", "inode_types", "dir_size_buckets", "file_size_classes", "compressor_x_blocksize", "options_hit", "xattr_set_counts",
                            "id_counts", "refused_kinds", "input_modes", "mismatch_classes")}
    def bump(h, k, n=1):
        hist[h][k] = hist[h].get(k, 0) + n
    paths_nodes = {"a_nodes": 0, "a_files": 0, "a_bytes": 0, "b_nodes": 0, "c_list_entries": 0, "c_stat": 0, "c_xattr": 0, "d_files": 0, "d_bytes": 0,
                   "e_nodes": 0, "e_files": 0, "e_xattr_nodes": 0, "a_link_names": 0, "c_link_names_stat": 0, "a_files_4g": 0, "a_starts_4g": 0,
                   "l_skipped": 0}
    skip_reasons = {"b": {}, "e": {}}
    labelled = {}
    by_name = {}
    nontrivial = set()
    reports = 0
    suppressed = 0
    packed = refused = 0
    samples = []
    unpack_flags = {}
    pool = {"cases": 0, "images_packed_and_read_back": 0, "refused_as_expected": 0, "xattr_sets_cases_read_back": [], "kinds": {},
            "nodes_a": 0, "xattr_dumps_c": 0, "unpacked_nodes_e": 0, "mismatches": 0}
    for case, res in results:
        bump("kinds", case.get("kind", "?"))
        bump("input_modes", case["mode"])
        if case.get("configuration") == "pool" and res.get("configuration") == "pool":
            pool["cases"] += 1
            pool["kinds"][case.get("kind", "?")] = pool["kinds"].get(case.get("kind", "?"), 0) + 1
            pool["mismatches"] += len(res["mism"])
            pst = res.get("stats", {})
            if res["rc"] == 0 and res.get("exp_nodes"):
                pool["images_packed_and_read_back"] += 1
                if case.get("kind") == "xattrsets" and not res["mism"]:
                    pool["xattr_sets_cases_read_back"].append(case.get("name"))
            if pst.get("refused"):
                pool["refused_as_expected"] += 1
            pool["nodes_a"] += pst.get("a_nodes", 0); pool["xattr_dumps_c"] += pst.get("c_xattr", 0); pool["unpacked_nodes_e"] += pst.get("e_nodes", 0)
        o = case.get("opts", {})
        bump("compressor_x_blocksize", "%s/%d" % (o.get("comp", "xz"), o.get("bs") or 131072))
        for k, v in o.items():
            if k not in ("comp", "bs", "q") and v not in (None, False):
                bump("options_hit", k if k != "X" else "X:" + o.get("comp", ""))
        exp = res.get("exp_nodes")
        if res["rc"] == 0 and exp:
            packed += 1
            nontrivial.add(case_hash(case))
            bs = o.get("bs") or 131072
            kids, ids, sets = {}, set(), set()
            for p, e in exp.items():
                bump("inode_types", e.type + ("+x" if e.xattrs else ""))
                ids.add(e.uid); ids.add(e.gid)
                if e.xattrs:
                    sets.add(tuple(sorted(e.xattrs.items())))
                if p != b"/":
                    par = p.rsplit(b"/", 1)[0] or b"/"
                    kids[par] = kids.get(par, 0) + 1
                if e.type == "dir":
                    kids.setdefault(p, 0)
                if e.type == "file":
                    sz = e.size()
                    k, r = divmod(sz, bs)
                    cl = "0" if sz == 0 else "1" if sz == 1 else "<B" if sz < bs - 1 else ("%sB-1" % ("" if k == 0 else k + 1) if r == bs - 1 else "%sB" % ("" if k == 1 else k) if r == 0 else
                         "%sB+1" % ("" if k == 1 else k) if r == 1 else "kB+r")
                    if sz > (1 << 32):
                        cl = ">4GiB"
                    bump("file_size_classes", cl)
            for p, n in kids.items():
                bump("dir_size_buckets", "0" if n == 0 else "1" if n == 1 else "2-254" if n < 255 else str(n) if n <= 258 or 511 <= n <= 513 else "259-510" if n < 511 else "514+")
            bump("id_counts", bucket(len(ids)))
            bump("xattr_set_counts", bucket(len(sets)))
        if res.get("stats", {}).get("refused"):
            refused += 1
            bump("refused_kinds", res["stats"]["refused"])
        for k in paths_nodes:
            paths_nodes[k] += res.get("stats", {}).get(k, 0)
        by_name[case.get("name")] = res
        for rp in "be":
            why = res.get("stats", {}).get(rp + "_skipped")
            if why and res["rc"] == 0:
                skip_reasons[rp][why[:60]] = skip_reasons[rp].get(why[:60], 0) + 1
        if "e_flags" in res.get("stats", {}):
            unpack_flags[res["stats"]["e_flags"]] = unpack_flags.get(res["stats"]["e_flags"], 0) + 1
        if len(samples) < 6 and res.get("cmd") and case.get("kind") in ("random", "options", "glob"):
            samples.append({"case": case.get("name"), "cmd": res["cmd"][:400], "exit": res["rc"], "expect": res["expect"], "mismatches": len(res["mism"])})
        # ---- mismatches
        seen_cls = set()
        for m in res["mism"]:
            bump("mismatch_classes", "%s:%s" % (m[0], m[1]))
            kk = known_key(case, exp, m)
            if kk is not None:
                # a defect that was found and repaired once is reported under its old key, once per run (with the first case that shows it)
                labelled[kk] = labelled.get(kk, 0) + 1
                if labelled[kk] == 1:
                    ctx.violation(kk, KNOWN_WHAT[kk] + " — e.g. case %s: %s %s" % (case.get("name"), m[2], m[3][:200]), replay_dict(case, res, m))
                continue
            if (m[0], m[1]) in seen_cls:
                continue
            seen_cls.add((m[0], m[1]))
            if reports >= MAX_REPORTS:
                suppressed += 1
                continue
            reports += 1
            small, sres = case, res
            if m[0] != "infra":
                try:
                    small = shrink(env, case, (m[0], m[1]), budget_s=45 if ctx.quick() else 120)
                    sres = run_case(env, small, ctx.scratch / "shrunk_final")
                    mm = [x for x in sres["mism"] if (x[0], x[1]) == (m[0], m[1]) and known_key(small, sres.get("exp_nodes"), x) is None]
                    if mm:
                        m = mm[0]
                    else:
                        small, sres = case, res
                except Exception:
                    small, sres = case, res
            what = "%s: read-back path (%s) %s %s: %s  [gensquashfs %s]" % (case.get("name"), m[0], m[1], m[2], m[3][:300], sres.get("cmd", "")[:200])
            found = m[0] != "infra" and m[1] != "reader-vs-parser"
            ctx.violation("mismatch:%s:%s:%s" % (m[0], m[1], case_hash(small)), what, replay_dict(small, sres, m), found_input=found)
    if labelled:
        ctx.log("mismatches under the keys of repaired defects: %s" % labelled)
    if suppressed:
        ctx.log("%d further mismatch classes not reported separately (limit %d reports per run)" % (suppressed, MAX_REPORTS))
    slow = sorted(results, key=lambda cr: -cr[1].get("t", 0))[:4]
    ctx.log("slowest cases: %s" % [(c.get("name"), r.get("t")) for c, r in slow])
    # ---- floors: a run that compared (much) less than a normal run is not evidence, whatever it printed
    floors = floors_for(ctx.quick())
    if ctx.cov.get("bigdata_skipped"):            # recorded in the evidence; the > 4 GiB data area is then not claimed
        floors["min"].pop("a_starts_4g", None)
        floors["min"]["a_files_4g"] -= 1
    got_counts = dict(paths_nodes, images=packed, refused=refused, b_skipped=sum(skip_reasons["b"].values()), e_skipped=sum(skip_reasons["e"].values()))
    short = []
    for k, lo in floors["min"].items():
        if got_counts.get(k, 0) < lo:
            short.append("%s = %d < %d" % (k, got_counts.get(k, 0), lo))
    for k, hi in floors["max_fraction_of_images"].items():
        if got_counts.get(k, 0) > hi * max(packed, 1):
            short.append("%s = %d > %d%% of %d images" % (k, got_counts.get(k, 0), round(hi * 100), packed))
    for name, want in floors["must"].items():
        r = by_name.get(name)
        state = None if r is None else ("packed" if r["rc"] == 0 and not r["mism"] else "refused" if r.get("stats", {}).get("refused") and not r["mism"] else "other")
        if state != want and not (r is not None and r["mism"]):
            short.append("case %s: %s, must be %s" % (name, state or "not run", want))
    if short:
        ctx.violation("floor:" + vlib.sha(";".join(sorted(short)))[:10], "the run compared less than the tool-level tie requires: " + "; ".join(short)[:900],
                      {"floors": floors, "counts": got_counts}, found_input=False)
    # ---- share of the run against /repo's default configuration
    pool_floor = POOL_FLOOR_QUICK if ctx.quick() else POOL_FLOOR_THOROUGH
    many_x = [n for n in pool["xattr_sets_cases_read_back"] if n.endswith("@pool")]
    ctx.cov["pool_configuration_runs"] = pool["cases"]
    ctx.cov["pool_configuration"] = dict(pool, floor_cases=pool_floor, floor_xattr_sets_cases_of_511_and_more=POOL_XATTR_FLOOR,
                                         rule="case index %% %d == %d packed and read back by the pool-configured tools instead of the plain-malloc ones; "
                                              "xattr-sets-<n>, n >= 511, additionally (`@pool`)" % (POOL_EVERY, POOL_PHASE))
    if pool["cases"] < pool_floor or (len(many_x) < POOL_XATTR_FLOOR and not ctx.violations):
        raise vlib.CheckFailure("too few cases ran against /repo's default configuration (pool allocator): %d cases (floor %d), %d xattr-sets cases "
                                "of >= 511 sets read back without a mismatch (floor %d)" % (pool["cases"], pool_floor, len(many_x), POOL_XATTR_FLOOR))
    uc = stats.pop("_unit_counts", [0, 0, 0])
    ctx.cov.update(stats)
    ctx.cov["floors"] = floors
    ctx.cov["skipped_read_back_paths"] = {"b_describe": skip_reasons["b"], "e_unpack": skip_reasons["e"], "l_list_of_directories_over_5000_entries": paths_nodes["l_skipped"]}
    ctx.cov["hard_link_groups"] = {"names_in_groups_compared_by_a_(ino,nlink)": paths_nodes["a_link_names"], "names_in_groups_stat_by_c": paths_nodes["c_link_names_stat"],
                                   "note": "rdsquashfs -d prints every name of a group as its own `file` line (C16 describe_prints_no_link): path (b) cannot see link groups, "
                                           "and -u unpacks the names as separate files; groups are compared on (a) for every name and on (c) -s for every name (up to 40 per image)"}
    ctx.cov["beyond_4GiB"] = {"files_of_4GiB_and_more_rebuilt_by_a": paths_nodes["a_files_4g"], "files_whose_blocks_or_fragment_start_beyond_4GiB": paths_nodes["a_starts_4g"]}
    ctx.cov.update({
        "evaluations": len(results) + uc[0],
        "distinct_nontrivial": len(nontrivial) + uc[1],
        "tool_level_cases": len(results),
        "tool_level_nontrivial": len(nontrivial),
        "images_packed_and_read_back": packed,
        "inputs_refused_as_expected": refused,
        "cases_skipped_for_sandbox_limits": skipped,
        "sandbox_capabilities": caps,
        "read_back_paths": {
            "a_independent_parser": {"nodes": paths_nodes["a_nodes"], "files_rebuilt_from_raw_image": paths_nodes["a_files"], "bytes": paths_nodes["a_bytes"]},
            "b_describe": {"nodes": paths_nodes["b_nodes"]},
            "c_list_stat_xattr": {"list_entries": paths_nodes["c_list_entries"], "stat_calls": paths_nodes["c_stat"], "xattr_dumps": paths_nodes["c_xattr"]},
            "d_cat": {"files": paths_nodes["d_files"], "bytes": paths_nodes["d_bytes"]},
            "e_unpack": {"nodes": paths_nodes["e_nodes"], "file_contents": paths_nodes["e_files"], "nodes_with_xattrs": paths_nodes["e_xattr_nodes"], "flags": unpack_flags},
        },
        "histograms": hist,
        "samples": samples,
        "disagreements_checked": sum(len(r["mism"]) for _, r in results) + uc[2],
        "rule": "cases = boundary matrix of the quantifier (directory sizes around 256 entries / 8 KiB metadata / 64 KiB listings; file sizes 0,1,kB-1,kB,kB+1 "
                "for B in 4K..1M; zero/sparse/duplicate/shared-tail contents; 1..4097 (thorough 65535/65536) ids; 0..2048 xattr sets around multiples of 512; "
                "every inode type; special names; hard-link groups; glob lines; refusals) + seeded random trees in the three input modes x seeded options; "
                "non-trivial = distinct case that packed with exit 0 and was read back on paths a-e",
    })


def floors_for(quick):
    """minimum number of comparisons per run (about 70 % of what seeds 0..9 deliver), upper bounds on skipped paths, and the cases
    that must have been packed / refused"""
    if quick:
        # seeds 0..9 deliver: 258 images, 42 refusals, a 70.8-72.3k nodes / 2061-2975 files, b 70.5-72.2k, -l 13.4-15.0k entries, -s 3483-3654,
        # -x 1183-1324, -c 1968-2231 files, e 65.0-66.8k nodes / 2491-3311 files, 670-799 names in hard-link groups
        return {"min": {"images": 250, "refused": 40, "a_nodes": 55000, "a_files": 1600, "b_nodes": 55000, "c_list_entries": 10000, "c_stat": 2700, "c_xattr": 900,
                        "d_files": 1500, "e_nodes": 50000, "e_files": 1900, "a_link_names": 500, "c_link_names_stat": 500, "a_files_4g": 1},
                "max_fraction_of_images": {"b_skipped": 0.08, "e_skipped": 0.12},
                "must": {"ids-65535-accepted": "packed", "ids-65536": "refused", "ids-65537": "refused", "ids-65536-uid-of-directories": "refused", "ids-40000-wide-accepted": "packed",
                         "nesting-4096-accepted": "packed", "nesting-4097-explicit": "refused", "name-256-accepted": "packed", "name-257": "refused",
                         "link-missing-target": "refused", "link-to-directory": "refused", "link-to-itself": "refused", "link-cycle": "refused",
                         "hardlinks-link-directive": "packed", "hardlinks-link-lines-first": "packed", "glob-hardlinks-prefix-decoy": "packed",
                         "glob-hardlinks-types": "packed", "xattr-sets-2049": "packed"}}
    # thorough, seed 0: 745 images, 44 refusals, a 220.9k nodes / 14.1k files, b 216.8k, -l 58.7k, -s 23.3k, -x 7.1k, -c 13.3k, e 214.1k / 15.3k,
    # 2283 names in link groups, 6 files >= 4 GiB, 4 files with block / fragment starts beyond 4 GiB
    return {"min": {"images": 700, "refused": 40, "a_nodes": 165000, "a_files": 10000, "b_nodes": 160000, "c_list_entries": 42000, "c_stat": 17000, "c_xattr": 5000,
                    "d_files": 9500, "e_nodes": 155000, "e_files": 11000, "a_link_names": 1600, "c_link_names_stat": 1600, "a_files_4g": 6, "a_starts_4g": 2},
            "max_fraction_of_images": {"b_skipped": 0.08, "e_skipped": 0.12},
            "must": {"ids-65535-accepted": "packed", "ids-65536": "refused", "ids-65535-one-directory-accepted": "packed", "ids-65536-one-directory": "refused",
                     "inode-delta-32767": "packed", "xattr-sets-4097": "packed"}}


def bucket(n):
    for lim in (0, 1, 2, 16, 255, 256, 257, 511, 512, 513, 1024, 4096, 65535):
        if n <= lim:
            return "<=%d" % lim if lim not in (0, 1, 255, 256, 257, 511, 512, 513, 65535) or n != lim else str(lim)
    return ">65535"


def replay(ctx, path):
    body = json.loads(open(path).read())
    rp = body.get("replay", body)
    case = rp.get("case")
    if rp.get("kind") == "unit":
        from checks import c01_units
        ctx.lean_build(["sqfsmodel"])
        return 1 if c01_units.replay_unit(ctx, rp) else 0
    if not case:
        print("replay file names a broken obligation, no input to replay:", json.dumps(rp)[:500])
        return 1
    ok, log = ctx.lean_build(["sqfsmodel"])
    gen, rd, unz = build(ctx)
    env = R.Env(ctx, gen, rd, unz, probe_caps(ctx))
    env.thorough = True
    if case.get("configuration") == "pool":
        build_pool_env(ctx, env)
        print("configuration: /repo's default (pool allocator)")
    case = dict(case); case.setdefault("idx", 0)
    res = run_case(env, case, ctx.scratch / "replay", limits={"s": 2000, "l": 500, "x": 2000, "c": 2000})
    print("case   :", case.get("name"), "(%s input)" % case["mode"])
    print("command: gensquashfs", res["cmd"])
    print("oracle :", res["expect"], "   exit status:", res["rc"])
    n = 0
    for m in res["mism"]:
        kk = known_key(case, res.get("exp_nodes"), m)
        print("MISMATCH (%s) %s %s: %s%s" % (m[0], m[1], m[2], m[3][:400], "   [known finding %s]" % kk if kk else ""))
        n += 1
    if not n:
        print("no mismatch: the image reads back as the input on all five paths" if res["rc"] == 0 else "refused as the oracle demands")
    return 1 if n else 0
