"""
C10 — reader answers depend only on image and query, never on earlier queries.

Proof: lean/Sqfs/Props/C10.lean (cache-coherence invariant ⇒ history independence, for every file, codec,
window, history, query).  Tie: harness/h_c10*.c drives the real reader API of the working tree (ASan+UBSan)
over in-memory images with a toy block codec; every script ("episode") is run through the real code, through
the model of the repaired code (`sqfsmodel c10`) and through the model of the unrepaired code
(`sqfsmodel c10 old`, the witness model).  Each query is also answered by freshly created reader objects in the
same process: `history answer == fresh answer` is the property's own oracle and needs no model.
"""
import concurrent.futures, json, os, re, subprocess
import vlib
from checks import c10_gen

LEVEL = "proof"
MODULE = "Sqfs.Props.C10"
REQUIRED = ["Sqfs.C10.coherent_init", "Sqfs.C10.coherent_seek", "Sqfs.C10.coherent_read", "Sqfs.C10.coherent_run",
            "Sqfs.C10.meta_history_independent", "Sqfs.C10.meta_answer_depends_on_image_and_query_only",
            "Sqfs.C10.read_no_crash", "Sqfs.C10.failed_miss_unpositions", "Sqfs.C10.seek_then_position",
            "Sqfs.C10.data_coherent_init", "Sqfs.C10.data_coherent_read", "Sqfs.C10.data_coherent_run",
            "Sqfs.C10.data_api_eq_cacheless", "Sqfs.C10.data_history_independent",
            "Sqfs.C10.data_history_independent_written", "Sqfs.C10.stream_fail_stops",
            "Sqfs.C10.read_eq_blocks_plus_fragment", "Sqfs.C10.stream_eq_read", "Sqfs.C10.written_file_content",
            "Sqfs.C10.prog_history_independent", "Sqfs.C10.session_history_independent",
            "Sqfs.C10.inode_by_ref_history_independent", "Sqfs.C10.readdir_call_history_independent",
            "Sqfs.C10.dir_listing_history_independent", "Sqfs.C10.dir_list_history_independent",
            "Sqfs.C10.path_resolution_history_independent", "Sqfs.C10.listing_fuel_suffices",
            "Sqfs.C10.path_fuel_suffices", "Sqfs.C10.xattr_desc_history_independent",
            "Sqfs.C10.xattr_set_history_independent", "Sqfs.C10.xattr_walk_history_independent",
            "Sqfs.C10.ool_position_restored", "Sqfs.C10.toyUnc_ok"]

KEY_D2 = "C10:D2:meta-seek-failed-load-keeps-old-tag"
KEY_D3 = "C10:D3:meta-read-after-failed-seek-underflow"
KEY_D21 = "C10:D21:data-block-cache-keyed-by-location-only"
KEY_D33 = "C10:D33:stream-frag-fail-keeps-stale-buffer"

HARNESS_SRC = ["h_c10.c", "h_c10_data.c", "h_c10_img.c", "h_c10_dec.c"]
PATCHES = ["C10-meta-seek-invalidate.patch", "C10-data-reader-cache-key.patch"]


# ---------------------------------------------------------------------------------------------------------
# toy images: a chain of metadata blocks

def le16(v):
    return bytes([v & 255, v >> 8])


def toy_block(rng, kind=None):
    """-> (on-disk bytes, decoded payload or None if the block cannot be loaded, kind)"""
    kinds = ["raw", "raw", "raw-small", "raw-full", "raw-empty", "id", "xor", "expand", "expand-full", "expand-empty",
             "unc-fail", "unc-empty", "too-big-size", "expand-too-big"]
    k = kind or rng.choice(kinds)
    rb = lambda n: bytes(rng.randrange(256) for _ in range(n))
    if k == "raw":
        d = rb(rng.randint(1, 600)); return le16(0x8000 | len(d)) + d, d, k
    if k == "raw-small":
        d = rb(rng.randint(1, 8)); return le16(0x8000 | len(d)) + d, d, k
    if k == "raw-full":
        d = rb(8192); return le16(0x8000 | 8192) + d, d, k
    if k == "raw-empty":
        return le16(0x8000), b"", k
    if k == "id":
        d = rb(rng.randint(0, 300)); return le16(len(d) + 1) + b"\0" + d, d, k
    if k == "xor":
        d = rb(rng.randint(0, 300)); x = rng.randrange(256)
        return le16(len(d) + 2) + bytes([1, x]) + bytes(c ^ x for c in d), d, k
    if k == "expand":
        n = rng.randint(1, 8192); b = rng.randrange(256)
        return le16(4) + bytes([3, n & 255, n >> 8, b]), bytes([b]) * n, k
    if k == "expand-full":
        b = rng.randrange(256); return le16(4) + bytes([3, 0, 32, b]), bytes([b]) * 8192, k
    if k == "expand-empty":
        return le16(4) + bytes([3, 0, 0, 7]), b"", k
    if k == "expand-too-big":
        n = rng.randint(8193, 65535); return le16(4) + bytes([3, n & 255, n >> 8, 1]), None, k
    if k == "unc-fail":
        d = rb(rng.randint(0, 40)); return le16(len(d) + 1) + bytes([rng.choice([2, 4, 0xff])]) + d, None, k
    if k == "unc-empty":
        return le16(0), None, k
    if k == "too-big-size":
        sz = rng.randint(8193, 0x7fff); fl = rng.choice([0, 0x8000]); d = rb(rng.randint(0, 64))
        return le16(fl | sz) + d, None, k
    raise ValueError(k)


def gen_image(rng):
    nb = rng.randint(2, 9)
    blocks, img = [], bytearray()
    if rng.random() < 0.3:
        img += bytes(rng.randrange(256) for _ in range(rng.randint(1, 40)))      # leading junk (e.g. a superblock)
    for _ in range(nb):
        raw, dec, kind = toy_block(rng)
        blocks.append({"start": len(img), "disk": len(raw), "dec": dec, "kind": kind})
        img += raw
    if rng.random() < 0.3:
        # truncated last block: header promises more than the file has
        sz = rng.randint(10, 300)
        blocks.append({"start": len(img), "disk": 2 + sz, "dec": None, "kind": "truncated"})
        img += le16(0x8000 | sz) + bytes(rng.randrange(256) for _ in range(rng.randint(0, sz - 1)))
    return bytes(img), blocks


def gen_episode(rng, nops):
    img, blocks = gen_image(rng)
    lines = ["file " + (img.hex() or "-")]
    # scripted I/O errors are part of the image: fixed before the first reader call
    if rng.random() < 0.35:
        for _ in range(rng.randint(1, 2)):
            b = rng.choice(blocks)
            off = b["start"] + rng.choice([0, 1, 2, 3, max(2, b["disk"] - 1)])
            lines.append("bad %d %d" % (off, rng.randint(1, 3)))
    nread = rng.randint(1, 3)
    wins = []
    for k in range(nread):
        start = rng.choice([0, 0, blocks[0]["start"], rng.choice(blocks)["start"]])
        limit = rng.choice([len(img), len(img), len(img) + rng.randint(1, 50), rng.choice(blocks)["start"] + rng.randint(0, 12),
                            max(0, len(img) - rng.randint(1, 5))])
        wins.append((start, limit))
        lines.append("mr %d new %d %d" % (k, start, limit))

    def pick_block():
        return rng.choice(blocks)

    def pick_start(b):
        r = rng.random()
        if r < 0.85:
            return b["start"]
        if r < 0.93:
            return max(0, b["start"] + rng.choice([-2, -1, 1, 2]))
        return rng.choice([rng.randint(0, len(img) + 5), 2 ** 64 - 1, 2 ** 63, len(img)])

    def pick_off(b, want_fail=False):
        n = len(b["dec"]) if b["dec"] is not None else rng.randint(0, 50)
        if want_fail:
            return rng.choice([n, n + 1, n + rng.randint(0, 300), 8192, 8191, 65535, 2 ** 32, 2 ** 64 - 1])
        r = rng.random()
        if r < 0.7 and n > 0:
            return rng.choice([0, 0, n - 1, rng.randrange(n), rng.randrange(n)])
        return rng.choice([0, n, n + 1, 8192, rng.randint(0, 9000)])

    def pick_sizes(b, o):
        n = len(b["dec"]) if b["dec"] is not None else 10
        rest = max(0, n - o)
        out = []
        for _ in range(rng.choice([0, 1, 1, 1, 2, 3, 4])):
            out.append(rng.choice([0, 1, 2, rng.randint(0, 40), rest, rest + 1, max(0, rest - 1), rest + rng.randint(0, 9000),
                                   rng.randint(0, 20000)]))
        return ",".join(map(str, out)) if out else "-"

    for _ in range(nops):
        k = rng.randrange(nread)
        r = rng.random()
        if r < 0.12:
            # the D2 pattern: hit A, fail on B, query A again
            a, b = pick_block(), pick_block()
            oa = pick_off(a)
            lines.append("mr %d seek %d %d" % (k, a["start"], oa))
            lines.append("mr %d seek %d %d" % (k, b["start"], pick_off(b, want_fail=True)))
            if rng.random() < 0.3:
                lines.append("mr %d read %d" % (k, rng.choice([1, 2, rng.randint(0, 60), rng.randint(0, 9000)])))
            lines.append("mr %d q %d %d %s" % (k, a["start"], pick_off(a), pick_sizes(a, 0)))
        elif r < 0.55:
            b = pick_block(); o = pick_off(b)
            lines.append("mr %d q %d %d %s" % (k, pick_start(b), o, pick_sizes(b, o)))
        elif r < 0.75:
            b = pick_block()
            lines.append("mr %d seek %d %d" % (k, pick_start(b), pick_off(b, want_fail=rng.random() < 0.4)))
        elif r < 0.92:
            lines.append("mr %d read %d" % (k, rng.choice([0, 1, 2, 7, rng.randint(0, 100), rng.randint(0, 700), rng.randint(0, 20000)])))
        else:
            lines.append("mr %d pos" % k)
    return lines, {"img_len": len(img), "kinds": [b["kind"] for b in blocks]}


# ---------------------------------------------------------------------------------------------------------
# toy images for the data reader: a chain of data blocks, some fragment blocks, a fragment table

C24 = 1 << 24


def data_block(rng, bs):
    """-> (on-disk bytes, size word, kind)"""
    rb = lambda n: bytes(rng.randrange(256) for _ in range(n))
    k = rng.choice(["raw-full", "raw-full", "raw-short", "id", "id-full", "xor", "expand", "expand-full", "sparse", "unc-fail",
                    "oversize", "expand-empty"])
    if k == "raw-full":
        d = rb(bs); return d, C24 | bs, k
    if k == "raw-short":
        d = rb(rng.randint(1, bs)); return d, C24 | len(d), k
    if k == "id":
        d = rb(rng.randint(1, max(1, bs - 1))); return b"\0" + d, len(d) + 1, k
    if k == "id-full":
        d = rb(bs); return b"\0" + d, bs + 1, k            # on-disk size bs+1 > bs: refused (OVERFLOW)
    if k == "xor":
        d = rb(rng.randint(1, max(1, bs - 2))); x = rng.randrange(256)
        return bytes([1, x]) + bytes(c ^ x for c in d), len(d) + 2, k
    if k == "expand":
        n = rng.randint(1, bs); return bytes([3, n & 255, n >> 8, rng.randrange(256)]), 4, k
    if k == "expand-full":
        return bytes([3, bs & 255, bs >> 8, rng.randrange(256)]), 4, k
    if k == "expand-empty":
        return bytes([3, 0, 0, 9]), 4, k
    if k == "sparse":
        return b"", 0, k
    if k == "unc-fail":
        d = rb(rng.randint(1, 6)); return bytes([rng.choice([2, 5, 0xee])]) + d, len(d) + 1, k
    if k == "oversize":
        d = rb(bs + rng.randint(1, 9)); return d, C24 | len(d), k
    raise ValueError(k)


def gen_data_episode(rng, nops):
    bs = rng.choice([8, 16, 16, 32, 64, 300])
    img = bytearray(bytes(rng.randrange(256) for _ in range(rng.choice([0, 0, rng.randint(1, 20)]))))
    chain = []
    for _ in range(rng.randint(3, 14)):
        raw, word, kind = data_block(rng, bs)
        chain.append({"loc": len(img), "word": word, "kind": kind})
        img += raw
    frags = []
    for _ in range(rng.randint(0, 5)):
        raw, word, kind = data_block(rng, bs)
        if kind in ("sparse",):
            continue
        frags.append((len(img), word))
        img += raw
    if frags and rng.random() < 0.3:
        frags.append((len(img) + rng.randint(0, 50), C24 | rng.randint(1, bs)))       # entry pointing past the data
    def put_table(entries):
        ms = len(img)
        body = b"".join(st.to_bytes(8, "little") + w.to_bytes(4, "little") + b"\0\0\0\0" for st, w in entries)
        if entries:
            if rng.random() < 0.5:
                img.extend(le16(0x8000 | len(body)) + body)
            else:
                img.extend(le16(len(body) + 1) + b"\0" + body)                # toy-compressed table block
        loc = len(img)
        img.extend(ms.to_bytes(8, "little"))
        return ms, loc

    meta_start, loc = put_table(frags)
    # a second fragment table (what a reload may find): the same entries rotated, or fewer
    frags2 = (frags[1:] + frags[:1]) if rng.random() < 0.6 else frags[:max(0, len(frags) - 1)]
    meta2, loc2 = put_table(frags2)
    used = len(img)
    tables = [(meta_start, loc, len(frags)), (meta2, loc2, len(frags2))]
    ents = ",".join("%d:%d" % e for e in frags) or "-"
    lines = ["file " + bytes(img).hex()]
    if rng.random() < 0.2:
        c = rng.choice(chain)
        lines.append("bad %d %d" % (c["loc"], 1))
    if frags and rng.random() < 0.15:
        lines.append("bad %d %d" % (rng.choice(frags)[0], 1))                  # a fragment block that cannot be read
    nrd = rng.randint(1, 2)
    for k in range(nrd):
        lines.append("dr %d new %d %d %d %d %d %s" % (k, bs, meta_start, loc, len(frags), used, ents))
    damaged = rng.random() < 0.3
    files = []
    for _ in range(rng.randint(2, 6)):
        a = rng.randrange(len(chain)); c = rng.randint(0, min(5, len(chain) - a))
        words = [b["word"] for b in chain[a:a + c]]
        start = chain[a]["loc"]
        tail = rng.choice([0, 0, rng.randint(1, bs - 1)])
        fidx, foff = 0xFFFFFFFF, 0
        if tail and frags and rng.random() < 0.85:
            fidx = rng.choice([rng.randrange(len(frags)), rng.randrange(len(frags)), len(frags), len(frags) + 3])
            foff = rng.choice([0, 0, rng.randint(0, bs), bs - tail if bs >= tail else 0])
        fsz = c * bs + tail
        if rng.random() < 0.15:
            fsz = max(0, fsz + rng.choice([-1, 1, -bs, bs, 5]))
        if damaged and words and rng.random() < 0.6:
            i = rng.randrange(len(words))
            w = words[i]
            words[i] = rng.choice([w ^ C24, (w & C24) | max(1, (w & (C24 - 1)) // 2), (w & C24) | min(bs, (w & (C24 - 1)) + 1), 0, C24 | bs])
        if damaged and rng.random() < 0.2 and a + 1 < len(chain):
            start = chain[a + 1]["loc"]
        files.append("%d %d %d %d %s" % (fsz, start, fidx, foff, ",".join(map(str, words)) or "-"))
    sizes = [int(f.split()[0]) for f in files]
    nblk = [0 if f.split()[4] == "-" else f.split()[4].count(",") + 1 for f in files]
    streams = []
    for _ in range(nops):
        k = rng.randrange(nrd)
        fi = rng.randrange(len(files))
        ino, fsz = files[fi], sizes[fi]
        r = rng.random()
        if r < 0.40:
            off = rng.choice([0, 0, bs, 2 * bs, rng.randint(0, fsz + 2), rng.randint(0, fsz + 2), max(0, fsz - 1), fsz, bs - 1, bs + 1])
            size = rng.choice([0, 1, bs, bs - 1, bs + 1, 2 * bs, fsz, fsz + 5, rng.randint(0, fsz + 3), rng.randint(0, 3 * bs), 100000])
            lines.append("dr %d read %s %d %d" % (k, ino, off, size))
        elif r < 0.50:
            lines.append("dr %d block %s %d" % (k, ino, rng.choice([0, 0, 1, max(0, nblk[fi] - 1), nblk[fi], nblk[fi] + 1, rng.randint(0, 6)])))
        elif r < 0.60:
            lines.append("dr %d frag %s" % (k, ino))
        elif r < 0.68:
            lines.append("dr %d cat %s %d" % (k, ino, rng.choice([0, 0, 1, 3, bs, bs - 1, 1000])))
        elif r < 0.74:
            j = rng.randrange(4)
            lines.append("st %d open %d %s" % (j, k, ino))
            if j not in streams:
                streams.append(j)
        elif r < 0.92:
            if streams:
                j = rng.choice(streams)
                lines.append("st %d get" % j)
                if rng.random() < 0.85:
                    lines.append("st %d adv %d" % (j, rng.choice([bs, bs, 100000, 1, 0, rng.randint(0, bs)])))
            else:
                lines.append("dr %d frag %s" % (k, ino))
        elif r < 0.96:
            t = rng.choice(tables)
            lines.append("dr %d reload %d %d %d %d" % (k, t[0], t[1], t[2] if rng.random() < 0.9 else max(0, t[2] - 1), used))
        else:
            # the D33 pattern: a stream that reaches a fragment it cannot load, asked again afterwards
            nb = rng.randint(0, min(2, len(chain)))
            ws = [C24 | bs] * nb
            st0 = chain[0]["loc"]
            bad_idx = rng.choice([len(frags), len(frags) + 3, 0xFFFFFFFE])
            lines.append("st 3 open %d %d %d %d 0 %s" % (k, nb * bs + rng.randint(1, bs - 1), st0, bad_idx, ",".join(map(str, ws)) or "-"))
            for _ in range(nb + 2):
                lines.append("st 3 get")
                lines.append("st 3 adv %d" % bs)
            if 3 not in streams:
                streams.append(3)
    return lines, {"img_len": len(img), "kinds": ["data:" + b["kind"] for b in chain], "bs": bs, "damaged": damaged}


# ---------------------------------------------------------------------------------------------------------

def strip_io(l):
    return l.split(" #io=")[0]


ALLOC_LIMIT_MB = 128          # = Sqfs.C10P.allocLimit of lean/Sqfs/Model/C10Dec.lean


def harness_env(ctx):
    """the sanitizer environment of the framework plus a *deterministic* allocation limit: a request for more than
    ALLOC_LIMIT_MB fails (SQFS_ERROR_ALLOC in the code under test, errAlloc in the model); without it the outcome of a
    garbage size field (damaged image, bogus reference) would depend on the machine's memory"""
    e = ctx.san_env()
    e["ASAN_OPTIONS"] = e["ASAN_OPTIONS"] + ":max_allocation_size_mb=%d" % ALLOC_LIMIT_MB
    return e


def run_harness(ctx, harness, lines, timeout=120):
    try:
        r = vlib.sh([str(harness)], input="\n".join(lines) + "\n", env=harness_env(ctx), timeout=timeout, errors="replace")
        err = r.stderr
        i = err.find("ERROR: AddressSanitizer")
        if i < 0:
            i = err.find("runtime error")
        return r.stdout.splitlines(), r.returncode, (err[max(0, i - 100):i + 1400] if i >= 0 else err[-1500:])
    except subprocess.TimeoutExpired:
        return [], -9, "timeout"


CRASH_RE = re.compile(r"-100[012]\b")


def line_eq(impl, model):
    """`?` in a model line stands for a hex digit of a byte the model of the current code says was never written
    (memory fresh from malloc): any digit matches"""
    if "?" not in model:
        return impl == model
    return len(impl) == len(model) and all(m == "?" or m == c for c, m in zip(impl, model))


def first_hist(impl_s):
    for i, l in enumerate(impl_s):
        if " || " in l:
            a, b = l.split(" || ")
            if a != b:
                return i
    return None


def classify(lines, impl, rc, fixm, oldm, curm=None):
    """-> (verdict, index, detail).  verdicts: ok | D2 | D3 | D21 | D33 (known defects: the code follows the model of the
    unrepaired code) | hist (history answer != fresh answer, not explained by a witness model) | corr (model != code, no
    property-level failure seen) | crash"""
    impl_s = [strip_io(l) for l in impl]
    if not (len(fixm) == len(oldm) == len(lines)) or (curm is not None and len(curm) != len(lines)):
        raise vlib.CheckFailure("model answered %d/%d lines for %d ops" % (len(fixm), len(oldm), len(lines)))
    for m in fixm:
        if CRASH_RE.search(m) or "st=fuel" in m:
            return "corr", fixm.index(m), "the repaired model reports a model-only outcome (%s): the model is wrong" % m[:100]
    fh = first_hist(impl_s)
    if rc == 0 and impl_s == fixm:
        if fh is not None:
            return "hist", fh, "history answer differs from fresh answer although the code follows the repaired model"
        return "ok", -1, ""
    # the code as it was before /repo 8447a61: every repair but the one of the stream (D33); matching it now is a regression
    if curm is not None and rc == 0 and len(impl_s) == len(curm) and all(line_eq(a, b) for a, b in zip(impl_s, curm)) and fh is None:
        d = next(i for i in range(len(fixm)) if impl_s[i] != fixm[i])
        return "D33", d, "%s -> %s (repaired model: %s)" % (lines[d], impl_s[d][:80], fixm[d][:80])
    # does the code follow the model of the unrepaired code?
    cut = len(oldm)
    for i, l in enumerate(oldm):
        if CRASH_RE.search(l):
            cut = i
            break
    follows_old = len(impl_s) >= cut and all(line_eq(a, b) for a, b in zip(impl_s[:cut], oldm[:cut])) and (rc == 0 or len(impl_s) <= len(lines))
    if follows_old and (rc == 0 or cut < len(oldm)):
        if any(l.startswith(("dr ", "st ")) for l in lines):
            d = fh if fh is not None else next(i for i in range(len(fixm)) if impl_s[i] != fixm[i])
            return "D21", d, "%s -> %s" % (lines[d], impl_s[d])
        if fh is not None and fh < cut:
            return "D2", fh, impl_s[fh]
        if cut < len(oldm):
            return "D3", cut, "model of the current code: data_used - offset wraps at line %d (%s); real code rc=%d" % (cut, lines[cut], rc)
        # differs from the repaired model only in non-query lines (e.g. a read after a failed seek)
        d = next(i for i in range(min(len(impl_s), len(fixm))) if impl_s[i] != fixm[i])
        return "D2", d, "impl=%s repaired-model=%s" % (impl_s[d], fixm[d])
    if rc != 0 and len(impl_s) < len(lines):
        return "crash", len(impl_s), "real code died (rc=%d) at line %d: %s" % (rc, len(impl_s), lines[len(impl_s)])
    if fh is not None:
        return "hist", fh, impl_s[fh]
    d = next((i for i in range(min(len(impl_s), len(fixm))) if impl_s[i] != fixm[i]), min(len(impl_s), len(fixm)))
    return "corr", d, "impl=%s model=%s" % (impl_s[d][:300] if d < len(impl_s) else "<none>", fixm[d][:300] if d < len(fixm) else "<none>")


def shrink(ctx, harness, lines, verdict, index=None):
    """greedy line removal keeping the verdict (setup lines are kept)"""
    import time
    deadline = time.time() + 60                     # shrinking is a convenience: never let it dominate the run

    def verdict_of(ls):
        if time.time() > deadline:
            return None
        impl, rc, _ = run_harness(ctx, harness, ls, 30)
        text = "\n".join(ls) + "\n"
        with concurrent.futures.ThreadPoolExecutor(max_workers=3) as ex:
            fm = [ex.submit(ctx.driver, ["c10"] + a, text) for a in ([], ["old"], ["cur"])]
            ms = [f.result() for f in fm]
        return classify(ls, impl, rc, ms[0], ms[1], ms[2])[0]
    cur = list(lines)
    # first cut the tail: nothing after the line the verdict was found at should be needed
    if index is not None and 0 <= index < len(lines) - 1 and verdict_of(lines[:index + 1]) == verdict:
        cur = list(lines[:index + 1])
    changed = True
    budget = 100
    while changed and budget > 0 and time.time() < deadline:
        changed = False
        i = len(cur) - 1
        while i >= 0 and budget > 0 and time.time() < deadline:
            if cur[i].startswith("file") or re.match(r"(mr|dr|dd|xr|idt) \d+ new", cur[i]):
                i -= 1
                continue
            cand = cur[:i] + cur[i + 1:]
            budget -= 1
            if verdict_of(cand) == verdict:
                cur = cand
                changed = True
            i -= 1
    return cur


def run_episodes(ctx, harness, episodes):
    """episodes: list of (name, lines).  Returns list of dict results."""
    # model side: one driver process per model for all episodes (a `file` line resets nothing but the readers are re-created)
    big = []
    spans = []
    for _, lines in episodes:
        spans.append((len(big), len(big) + len(lines)))
        big.extend(lines)
    text = "\n".join(big) + "\n"
    with concurrent.futures.ThreadPoolExecutor(max_workers=3) as ex:
        fm = [ex.submit(ctx.driver, ["c10"] + a, text) for a in ([], ["old"], ["cur"])]
        fix_all, old_all, cur_all = [f.result() for f in fm]
    if len(fix_all) != len(big) or len(old_all) != len(big) or len(cur_all) != len(big):
        raise vlib.CheckFailure("model driver returned %d/%d/%d lines for %d ops" % (len(fix_all), len(old_all), len(cur_all), len(big)))
    out = []
    with concurrent.futures.ThreadPoolExecutor(max_workers=min(6, vlib.NCPU)) as ex:
        futs = [ex.submit(run_harness, ctx, harness, lines) for _, lines in episodes]
        if not (len(futs) == len(spans) == len(episodes)):
            raise vlib.CheckFailure("episode bookkeeping broken")
        for (name, lines), (a, b), fu in zip(episodes, spans, futs):
            impl, rc, err = fu.result()
            v, idx, detail = classify(lines, impl, rc, fix_all[a:b], old_all[a:b], cur_all[a:b])
            out.append({"name": name, "lines": lines, "impl": impl, "rc": rc, "err": err, "fix": fix_all[a:b],
                        "old": old_all[a:b], "cur": cur_all[a:b], "verdict": v, "index": idx, "detail": detail})
    return out


def report(ctx, harness, res, counts):
    v = res["verdict"]
    counts[v] = counts.get(v, 0) + 1
    if v == "ok":
        return
    lines = res["lines"]
    replay = {"script": lines, "episode": res["name"], "index": res["index"], "detail": res["detail"], "stderr": res["err"][:1500]}
    if v == "D2":
        ctx.violation(KEY_D2, "sqfs_meta_reader_seek: a failed cache-miss seek leaves the new block's bytes under the old block_offset; "
                      "a later query of the old block is answered from the wrong block (%s)" % res["detail"][:300], replay)
    elif v == "D21":
        ctx.violation(KEY_D21, "sqfs_data_reader_read: the cached data block is reused for the same location even when the size word "
                      "differs (damaged image / inconsistent inodes): %s" % res["detail"][:300], replay)
    elif v == "D33":
        ctx.violation(KEY_D33, "dr_stream_get_buffered_data: when the fragment block cannot be loaded the function returns without "
                      "resetting the stream (buf_off = 0 < buf_used stays set): the next call reports success and hands out buf_used "
                      "bytes the stream never filled (%s)" % res["detail"][:300], replay)
    elif v == "D3":
        ctx.violation(KEY_D3, "sqfs_meta_reader_read after a failed seek: data_used - offset wraps (%s)" % res["detail"][:300], replay)
    else:
        if counts[v] <= 2:
            small = shrink(ctx, harness, lines, v, res["index"]) if len(lines) < 2000 and not os.environ.get("VERIF_C10_NOSHRINK") else lines
            replay["script"] = small
            what = {"hist": "history-dependent answer: the same query is answered differently by a used reader and by a fresh reader",
                    "crash": "real reader code aborted (sanitizer/signal/timeout)",
                    "corr": "real code and model disagree (no history-dependent answer seen in this script)"}[v]
            ctx.violation("%s:%s" % (v, vlib.sha("\n".join(small))[:12]), "%s: %s" % (what, res["detail"][:400]), replay,
                          found_input=(v != "corr"))


# ---------------------------------------------------------------------------------------------------------
# whole-image histories on images written by the working tree's gensquashfs (history vs fresh readers; no model)

def make_image(ctx, gen, rng, idx):
    """-> dict(path, paths=[...], files=[...], bs, comp) or None"""
    d = ctx.scratch / ("img%d" % idx)
    (d / "data").mkdir(parents=True, exist_ok=True)
    bs = rng.choice([4096, 4096, 8192, 16384])
    comp = ["gzip", "xz", "lz4", "zstd"][idx] if idx < 4 else rng.choice(["gzip", "xz", "lz4", "zstd", "gzip"])   # every codec every run
    pack, xattr, paths = [], [], []
    dirs = ["/d%d" % i for i in range(rng.randint(1, 4))]
    if rng.random() < 0.6:
        dirs.append(dirs[0] + "/sub")
        dirs.append(dirs[0] + "/sub/deeper")
    big = "/big"
    for dd in dirs + [big]:
        pack.append("dir %s 0755 %d %d" % (dd, rng.choice([0, 1000]), rng.choice([0, 100, 65534])))
        paths.append(dd)
    nfiles = rng.choice([15, 60, 60, 350])
    shared_val = bytes(rng.randrange(256) for _ in range(rng.choice([40, 200, 700]))).hex()
    for i in range(nfiles):
        kind = rng.random()
        parent = rng.choice(dirs) if rng.random() < 0.6 else big
        name = "%s/%s%d" % (parent, rng.choice(["f", "file_with_a_rather_long_name_to_fill_directory_blocks_", "x"]), i)
        uid, gid = rng.choice([0, 1, 1000, 70000]), rng.choice([0, 5, 1000])
        if kind < 0.75:
            size = rng.choice([0, 1, 17, 100, 1000, bs - 1, bs, bs + 1, 2 * bs + 77, 3 * bs, rng.randint(0, 5 * bs)])
            c = rng.random()
            if c < 0.4:
                data = bytes(rng.randrange(256) for _ in range(min(size, 3000))) * (size // 3000 + 1)
                data = data[:size]
            elif c < 0.6:
                data = bytes(size)                                                   # sparse
            elif c < 0.8:
                data = bytes(rng.randrange(256) for _ in range(size))                # incompressible
            else:
                data = (bytes(bs) + bytes(rng.randrange(256) for _ in range(bs)) + bytes(bs))[:size] if size > bs else b"a" * size
            (d / "data" / ("f%d" % i)).write_bytes(data)
            pack.append("file %s 0644 %d %d data/f%d" % (name, uid, gid, i))
        elif kind < 0.85:
            pack.append("slink %s 0777 %d %d %s" % (name, uid, gid, "../" * rng.randint(0, 3) + "target" * rng.randint(1, 30)))
        elif kind < 0.9:
            pack.append("nod %s 0600 %d %d %s %d %d" % (name, uid, gid, rng.choice("cb"), rng.randint(0, 255), rng.randint(0, 255)))
        elif kind < 0.95:
            pack.append("pipe %s 0600 %d %d" % (name, uid, gid))
        else:
            pack.append("sock %s 0600 %d %d" % (name, uid, gid))
        paths.append(name)
        if rng.random() < 0.3:
            xattr.append("# file: %s" % name.lstrip("/"))
            for j in range(rng.randint(1, 4)):
                if rng.random() < 0.5:
                    xattr.append("user.k%d=0x%s" % (j, shared_val))                  # repeated value -> stored out of line
                else:
                    xattr.append("user.k%d=0x%s" % (j, bytes(rng.randrange(256) for _ in range(rng.randint(1, 300))).hex()))
            xattr.append("")
    (d / "pack.txt").write_text("\n".join(pack) + "\n")
    (d / "xattr.txt").write_text("\n".join(xattr) + "\n")
    out = d / "img.sqfs"
    cmd = [str(gen), "-F", str(d / "pack.txt"), "-D", str(d), "-b", str(bs), "-c", comp, "-q", "-f", "-j", "2"]
    if xattr:
        cmd += ["-A", str(d / "xattr.txt")]
    if rng.random() < 0.3:
        cmd.append("-e")
    cmd.append(str(out))
    r = vlib.sh(cmd, env=ctx.san_env(), timeout=300, errors="replace")
    if r.returncode != 0 or not out.exists():
        return {"error": "gensquashfs failed rc=%d: %s" % (r.returncode, r.stderr[-500:]), "cmd": cmd}
    return {"path": out, "paths": paths, "bs": bs, "comp": comp, "dir": d}


def damage_image(rng, src, dst):
    b = bytearray(src.read_bytes())
    ino_start = int.from_bytes(b[64:72], "little")
    used = int.from_bytes(b[40:48], "little")
    lo, hi = (ino_start, min(used, len(b))) if 96 < ino_start < len(b) and rng.random() < 0.85 else (96, len(b))
    n = rng.choice([1, 1, 2, 5, 20])
    for _ in range(n):
        i = rng.randrange(lo, hi)
        b[i] = rng.choice([b[i] ^ (1 << rng.randrange(8)), rng.randrange(256), 0, 255])
    dst.write_bytes(bytes(b))
    return n


def gen_image_episode(ctx, harness, rng, image, idx, nops, damaged):
    path = image["path"]
    meta = {"comp": image["comp"], "bs": image["bs"], "damaged": damaged, "kinds": []}
    head = []
    if damaged:
        dst = image["dir"] / ("dmg%d.sqfs" % idx)
        meta["flips"] = damage_image(rng, path, dst)
        path = dst
    head.append("imgfile %s" % path)
    if rng.random() < (0.3 if damaged else 0.1):
        size = path.stat().st_size
        head.append("bad %d %d" % (rng.randrange(96, size), rng.randint(1, 64)))
        meta["bad"] = True
    head += ["img open", "img walk"]
    out, rc, err = run_harness(ctx, harness, head, 120)
    if rc != 0 or len(out) != len(head):
        return head, meta, ("crash", rc, err)
    if not out[-2].startswith("st=ok"):
        if not damaged and "bad" not in meta:
            raise vlib.CheckFailure("an undamaged image written by the working tree's gensquashfs does not open: %s" % out[-2])
        return None, meta, None                      # damaged image no longer opens: nothing to query
    refs = []
    if out[-1].startswith("refs=") and out[-1] != "refs=-":
        for t in out[-1][5:].split(";"):
            a, b, c = t.split(":")
            refs.append((int(a), int(b), int(c)))
    if not refs:
        if not damaged and "bad" not in meta:
            raise vlib.CheckFailure("walking an undamaged image found no inode")
        return None, meta, None
    files = [r for r in refs if r[1] in (2, 9)]
    dirs_ = [r for r in refs if r[1] in (1, 8)]
    xidx = sorted({r[2] for r in refs if r[2] != 0xFFFFFFFF})
    lines = head[:-1]
    bs = image["bs"]

    def any_ref():
        r = rng.random()
        if r < 0.8:
            return rng.choice(refs)[0]
        if r < 0.9:
            return max(0, rng.choice(refs)[0] + rng.choice([-1, 1, 16, -16, 65536, 1 << 16 | 5]))
        return rng.choice([rng.randrange(1 << 20), rng.randrange(1 << 34), (1 << 48) - 1, 8191, 8192 << 16])

    lsslots = []
    for _ in range(nops):
        r = rng.random()
        if r < 0.18:
            lines.append("img inode %d" % any_ref())
        elif r < 0.30:
            lines.append("img ls %d" % (rng.choice(dirs_)[0] if dirs_ and rng.random() < 0.85 else any_ref()))
        elif r < 0.36:
            j = rng.randrange(4)
            lines.append("img lsopen %d %d" % (j, rng.choice(dirs_)[0] if dirs_ and rng.random() < 0.9 else any_ref()))
            if j not in lsslots:
                lsslots.append(j)
        elif r < 0.48:
            # one step of an open listing: other queries happen between the steps
            lines.append("img lsnext %d" % (rng.choice(lsslots) if lsslots else 0))
        elif r < 0.58:
            p = rng.choice(image["paths"])
            if rng.random() < 0.2:
                p = p + rng.choice(["/nope", "x", "//", "/../.."])
            if rng.random() < 0.3:
                p = p.lstrip("/")
            lines.append("img path %s" % p.encode().hex())
        elif r < 0.70:
            ref = rng.choice(files)[0] if files and rng.random() < 0.9 else any_ref()
            off = rng.choice([0, 0, bs, bs - 1, bs + 1, 2 * bs, rng.randint(0, 6 * bs)])
            size = rng.choice([0, 1, 100, bs, bs + 1, 3 * bs, rng.randint(0, 4 * bs)])
            lines.append("img read %d %d %d" % (ref, off, size))
        elif r < 0.78:
            # all three file-data APIs on one file, in a random order (each may find a foreign block/fragment cached)
            lines.append("img cat %d %s" % (rng.choice(files)[0] if files and rng.random() < 0.9 else any_ref(),
                                            "".join(rng.sample("rbs", 3))))
        elif r < 0.86:
            # one file-data API alone, right after whatever came before
            ref = rng.choice(files)[0] if files and rng.random() < 0.9 else any_ref()
            lines.append(rng.choice(["img frag %d" % ref, "img stream %d" % ref, "img block %d %d" % (ref, rng.choice([0, 0, 1, 2, 7]))]))
        elif r < 0.88:
            lines.append("img reload")
        elif r < 0.95:
            i = rng.choice(xidx) if xidx and rng.random() < 0.8 else rng.choice([0, 1, 5, 1000, 0xFFFFFFFF, 0xFFFFFFFE])
            lines.append("img %s %d" % (rng.choice(["xattr", "xattrkv"]), i))
        else:
            lines.append("img id %d" % rng.choice([0, 1, 2, 3, 4, 7, 65535]))
    return lines, meta, None


def read_super(path):
    """the fields of the image's super block that `img resuper` can change (format.adoc: 96 bytes, little endian)"""
    import struct
    b = open(str(path), "rb").read()
    f = struct.unpack("<IIIIIHHHHHHQQQQQQQQ", b[:96])
    return {"frag_count": f[4], "flags": f[7], "id_count": f[8], "bytes_used": f[12], "id_start": f[13], "xattr_start": f[14],
            "frag_start": f[17], "flen": len(b)}


def reload_recipes(s):
    """super blocks for a re-load on live objects: each way a load can return early, fail half-way, or succeed"""
    U = (1 << 64) - 1
    big = 2 * s["flen"] + 8192
    return [
        ["noxattr=1"], ["xattr_start=%d" % U], ["xattr_start=%d" % s["bytes_used"]], ["xattr_start=%d" % (s["bytes_used"] + 77)],
        ["bytes_used=%d" % big, "xattr_start=%d" % (s["flen"] + 100)],          # header read fails (behind the end of the file)
        ["bytes_used=%d" % big, "xattr_start=%d" % max(96, s["flen"] - 8)],     # header read fails half-way
        ["xattr_start=%d" % max(96, s["id_start"])],                             # a table that is not an xattr table
        ["nofrag=1"], ["frag_start=%d" % U], ["frag_start=%d" % s["bytes_used"]], ["frag_count=0"], ["frag_start=96"],
        ["frag_count=%d" % (s["frag_count"] + 1)], ["frag_start=%d" % s["id_start"]],
        ["id_count=0"], ["id_start=%d" % s["bytes_used"]], ["id_count=%d" % (s["id_count"] + 1)], ["id_start=%d" % (s["id_start"] + 1)],
        ["noxattr=1", "nofrag=1", "id_count=0"],
    ]


def gen_reload_episode(ctx, harness, rng, image, idx):
    """scripted: warm every cache, re-load with a changed super on the live objects, ask again, restore, ask again"""
    path = image["path"]
    meta = {"comp": image["comp"], "bs": image["bs"], "damaged": False, "reload": True, "kinds": []}
    head = ["imgfile %s" % path, "img open", "img walk"]
    out, rc, err = run_harness(ctx, harness, head, 120)
    if rc != 0 or len(out) != len(head):
        return head, meta, ("crash", rc, err)
    if not out[-2].startswith("st=ok") or not out[-1].startswith("refs=") or out[-1] == "refs=-":
        raise vlib.CheckFailure("an undamaged image written by the working tree's gensquashfs does not open: %s" % out[-2])
    refs = []
    for t in out[-1][5:].split(";"):
        a, b, c = t.split(":")
        refs.append((int(a), int(b), int(c)))
    files = [r[0] for r in refs if r[1] in (2, 9)]
    xidx = sorted({r[2] for r in refs if r[2] != 0xFFFFFFFF})
    sup = read_super(path)
    recipes = reload_recipes(sup)
    rng.shuffle(recipes)

    def queries():
        q = []
        for i in (rng.sample(xidx, min(3, len(xidx))) + [0, 1]):
            q.append("img %s %d" % (rng.choice(["xattr", "xattrkv"]), i))
        for i in (0, 1, 2):
            q.append("img id %d" % i)
        for ref in rng.sample(files, min(4, len(files))):
            q.append(rng.choice(["img frag %d" % ref, "img cat %d %s" % (ref, "".join(rng.sample("rbs", 3))),
                                 "img read %d %d %d" % (ref, rng.choice([0, image["bs"]]), rng.choice([100, image["bs"] + 1]))]))
        rng.shuffle(q)
        return q

    lines = head[:-1]
    for rcp in recipes:
        lines += queries()
        lines.append("img resuper " + " ".join(rcp))
        lines += queries()
        if rng.random() < 0.5:
            lines.append("img resuper " + " ".join(rng.choice(recipes)))     # failed / early-return load on top of another one
            lines += queries()
        lines.append("img resuper reset=1")
    lines += queries()
    return lines, meta, None


def crash_site(err):
    """name of the first frame of a sanitizer report that lies in the code under test"""
    for m in re.finditer(r"#\d+ 0x[0-9a-f]+ in (\S+) (\S+)", err):
        if "/lib/" in m.group(2) and "/harness/" not in m.group(2) and "libsanitizer" not in m.group(2):
            return m.group(1)
    return "unknown"


def hist_mismatches(impl):
    bad = []
    for i, l in enumerate(impl):
        if " || " in l:
            a, b = strip_io(l).split(" || ")
            if a != b:
                bad.append(i)
    return bad


def build_patched_harness(ctx):
    """the same harness with meta_reader.c / data_reader.c replaced by copies that have the proposed repairs applied
    (None when the patches do not apply, i.e. the tree already contains them)"""
    root = ctx.scratch / "patched"
    (root / "lib/sqfs/src").mkdir(parents=True, exist_ok=True)
    srcs = []
    applied = 0
    for f, pt in (("meta_reader.c", PATCHES[0]), ("data_reader.c", PATCHES[1])):
        dst = root / "lib/sqfs/src" / f
        dst.write_bytes((vlib.REPO / "lib/sqfs/src" / f).read_bytes())
        pf = vlib.VERIF / "fixes" / pt
        if pf.exists():
            r = vlib.sh(["patch", "-p1", "-s", "-N", "-r", "-", "-i", str(pf)], cwd=str(root))
            if r.returncode == 0:
                applied += 1
            else:
                dst.write_bytes((vlib.REPO / "lib/sqfs/src" / f).read_bytes())
        srcs.append(str(dst))
    if not applied:
        return None
    lib = ctx.build_lib()
    return ctx.cc("h_c10_patched", HARNESS_SRC + srcs, flags=["-DH_C10_WITH_DATA", "-I%s" % (vlib.REPO / "lib/sqfs/src")],
                  libs=[str(lib)] + vlib.CODEC_LIBS)


def run_image_part(ctx, harness, counts):
    gen = ctx.build_tool("gensquashfs")
    nimg = 5 if ctx.quick() else 40
    nvalid, ndmg, nops = (1, 3, 150) if ctx.quick() else (2, 8, 400)
    eps, stats = [], {"images": 0, "episodes": 0, "ops": 0, "hist_ne_fresh_lines": 0, "unopenable_damaged": 0, "cat_checked": 0,
                      "by_comp": {}, "explained_by_repair": 0}
    for i in range(nimg):
        image = make_image(ctx, gen, ctx.rng, i)
        if "error" in image:
            ctx.violation("crash:gensquashfs", "gensquashfs of the working tree failed on a generated tree: " + image["error"],
                          {"cmd": [str(c) for c in image["cmd"]]})
            continue
        stats["images"] += 1
        stats["by_comp"][image["comp"]] = stats["by_comp"].get(image["comp"], 0) + 1
        for j in range(nvalid + ndmg):
            damaged = j >= nvalid
            lines, meta, crash = gen_image_episode(ctx, harness, ctx.rng, image, i * 100 + j, nops, damaged)
            if crash:
                ctx.violation("C10:crash-in:%s" % crash_site(crash[2]), "real reader code aborted while opening/walking an image "
                              "(rc=%s): %s" % (crash[1], crash[2][-300:]), {"script": lines, "note": "image file is regenerated by the check; "
                              "seed and tier reproduce it"})
                continue
            if lines is None:
                stats["unopenable_damaged"] += 1
                continue
            eps.append((lines, meta))
        # re-loads on live objects (xattr reader, id table, fragment table of the data reader), scripted per image
        lines, meta, crash = gen_reload_episode(ctx, harness, ctx.rng, image, i)
        if crash:
            ctx.violation("C10:crash-in:%s" % crash_site(crash[2]), "real reader code aborted while opening/walking an image "
                          "(rc=%s): %s" % (crash[1], crash[2][-300:]), {"script": lines})
        else:
            eps.append((lines, meta))
            stats["reload_episodes"] = stats.get("reload_episodes", 0) + 1
            stats["reload_ops"] = stats.get("reload_ops", 0) + sum(1 for l in lines if l.startswith("img resuper"))
    patched = [None, False]

    def get_patched():
        if not patched[1]:
            patched[0] = build_patched_harness(ctx)
            patched[1] = True
        return patched[0]

    nvalid_eps = sum(1 for _, m in eps if not m["damaged"] and not m.get("bad"))
    if stats["images"] == 0 or not eps or nvalid_eps == 0:
        raise vlib.CheckFailure("whole-image part evaluated nothing: %d images, %d episodes, %d on undamaged images" % (stats["images"], len(eps), nvalid_eps))
    with concurrent.futures.ThreadPoolExecutor(max_workers=min(6, vlib.NCPU)) as ex:
        futs = [ex.submit(run_harness, ctx, harness, lines, 600) for lines, _ in eps]
        for (lines, meta), fu in zip(eps, futs):
            impl, rc, err = fu.result()
            stats["episodes"] += 1
            stats["ops"] += len(impl)
            replay = {"script": lines, "stderr": err[:1500], "note": "image files live in the check's scratch directory; re-run the check with the "
                      "same VERIF_SEED/tier to regenerate them"}
            if rc != 0 or len(impl) != len(lines):
                counts["img-crash"] = counts.get("img-crash", 0) + 1
                site = crash_site(err)
                stats.setdefault("crash_sites", {})
                stats["crash_sites"][site] = stats["crash_sites"].get(site, 0) + 1
                ctx.violation("C10:crash-in:%s" % site, "real reader code aborted on a whole-image history (rc=%d, %s image) in %s at line "
                              "%d: %s" % (rc, "damaged" if meta["damaged"] or meta.get("bad") else "undamaged", site, len(impl),
                                          lines[min(len(impl), len(lines) - 1)]), replay)
                continue
            bad = hist_mismatches(impl)
            stats["hist_ne_fresh_lines"] += len(bad)
            if bad:
                ph = get_patched()
                explained = False
                if ph is not None:
                    impl2, rc2, _ = run_harness(ctx, ph, lines, 600)
                    explained = rc2 == 0 and len(impl2) == len(lines) and not hist_mismatches(impl2)
                i0 = bad[0]
                if explained:
                    stats["explained_by_repair"] += 1
                    stats.setdefault("sample_explained", []).append({"damaged": meta["damaged"], "comp": meta["comp"], "op": lines[i0],
                                                                      "answer": impl[i0][:300]})
                    counts["img-D2"] = counts.get("img-D2", 0) + 1
                    ctx.violation(KEY_D2, "whole-image history: a used reader answers differently from a fresh one (%s -> %s); the disagreement "
                                  "vanishes with fixes/C10-*.patch applied" % (lines[i0], impl[i0][:200]), replay)
                else:
                    counts["img-hist"] = counts.get("img-hist", 0) + 1
                    ctx.violation("hist:img:%s" % vlib.sha("\n".join(lines))[:10], "whole-image history: the same query is answered differently "
                                  "by used and fresh readers: %s -> %s" % (lines[i0], impl[i0][:300]), replay)
            else:
                counts["img-ok"] = counts.get("img-ok", 0) + 1
            if not meta["damaged"] and not meta.get("bad") and not meta.get("reload"):
                if len(lines) != len(impl):
                    raise vlib.CheckFailure("whole-image episode: %d answers for %d ops" % (len(impl), len(lines)))
                for l, o in zip(lines, impl):
                    if l.startswith("img cat ") and o.split("=")[0] in ("read", "blocks", "stream"):
                        stats["cat_checked"] += 1
                        f = dict(t.split("=") for t in o.split(" || ")[0].split())
                        if not (f["read"] == f["blocks"] == f["stream"] and f["read"].startswith("0:")):
                            ctx.violation("agree:%s" % vlib.sha(o)[:10], "the three file-data APIs disagree on a file the library wrote: %s -> %s"
                                          % (l, o[:300]), replay)
    return stats


def corpus_episodes():
    eps = []
    cdir = vlib.CORPUS / "C10"
    if cdir.exists():
        for p in sorted(cdir.glob("*.txt")):
            ls = [l for l in p.read_text().splitlines() if l.strip() and not l.startswith("#")]
            eps.append(("corpus/" + p.name, ls))
    return eps


def build_harness(ctx):
    lib = ctx.build_lib()
    return ctx.cc("h_c10", HARNESS_SRC, flags=["-DH_C10_WITH_DATA"], libs=[str(lib)] + vlib.CODEC_LIBS)


def run(ctx):
    ok, problems = vlib.proof_gate(ctx, MODULE, REQUIRED)
    if not ok:
        ctx.violation("proof:C10", "proof obligations of C10 no longer check: " + " | ".join(problems)[:1500],
                      {"broken": problems, "theorems_file": "lean/Sqfs/Props/C10.lean"}, found_input=False)
    # the witness theorems (negation on the model of the unrepaired code) must keep checking too
    wok, wlog = ctx.lean_build(["Sqfs.Witness.C10"])
    if not wok:
        ctx.violation("proof:C10-witness", "Sqfs/Witness/C10.lean no longer builds", {"log": wlog[-1500:]}, found_input=False)
    m = re.search(r"def allocLimit : Nat := (\d+)", (vlib.LEAN / "Sqfs/Model/C10Dec.lean").read_text())
    if not m or int(m.group(1)) != ALLOC_LIMIT_MB << 20:
        raise vlib.CheckFailure("allocation limit of the model (%s) and of the harness (%d MiB) differ" % (m and m.group(1), ALLOC_LIMIT_MB))
    harness = build_harness(ctx)
    eps = corpus_episodes()
    ncorpus = len(eps)
    nep = 80 if ctx.quick() else 3000
    nops = 120 if ctx.quick() else 200
    metas = []
    for i in range(nep):
        lines, meta = gen_episode(ctx.rng, nops)
        eps.append(("gen/%d" % i, lines))
        metas.append(meta)
    ndep = 60 if ctx.quick() else 2000
    for i in range(ndep):
        lines, meta = gen_data_episode(ctx.rng, 70 if ctx.quick() else 100)
        eps.append(("data/%d" % i, lines))
        metas.append(meta)
    # the metadata decoders: dir reader (read_inode, readdir, resolve_path), xattr reader, id table
    parts = {"meta": nep, "data": ndep}
    for kind, gen, n, ops in (("dir", c10_gen.gen_dir_episode, 50 if ctx.quick() else 1500, 60 if ctx.quick() else 100),
                              ("xattr", c10_gen.gen_xattr_episode, 50 if ctx.quick() else 1500, 60 if ctx.quick() else 100),
                              ("id", c10_gen.gen_id_episode, 16 if ctx.quick() else 300, 20)):
        parts[kind] = n
        for i in range(n):
            lines, meta = gen(ctx.rng, ops)
            eps.append(("%s/%d" % (kind, i), lines))
            metas.append(meta)
    counts = {}
    results = run_episodes(ctx, harness, eps)
    nlines = nq = nhit = nq_nontrivial = 0
    st_hist, kinds = {}, {}
    distinct = set()
    op_hist, op_ok = {}, {}
    for res in results:
        report(ctx, harness, res, counts)
        for op, l in zip(res["lines"], res["impl"]):
            w = op.split()
            key = w[0] if w[0] in ("file", "bad", "badclr") else "%s %s" % (w[0], w[2] if len(w) > 2 else "")
            op_hist[key] = op_hist.get(key, 0) + 1
            if re.search(r"(st|seek|ret)=0\b|ret=[1-9]|^data=|^ent=|^eof|^pos |^ok", strip_io(l)):
                op_ok[key] = op_ok.get(key, 0) + 1
        for l in res["impl"]:
            nlines += 1
            if " || " in l:
                nq += 1
                body = strip_io(l).split(" || ")[0]
                if re.search(r"reads=.*0:[0-9a-f]{2}", body) or re.search(r"ret=[1-9]", body) or re.search(r"st=0 (t=|n=[1-9]|ref=|x=|id=|data=[0-9a-f])", body) \
                        or body.startswith("ent="):
                    nq_nontrivial += 1
                    distinct.add(vlib.sha(res["lines"][0] + body))
                if l.endswith("#io=0") and body.startswith("seek=0"):
                    nhit += 1
            for m in re.finditer(r"(?:st|seek|ret)=(-?\d+)", re.sub(r"ret=[1-9]\d*", "ret=N", strip_io(l).split(" || ")[0])):
                st_hist[m.group(1)] = st_hist.get(m.group(1), 0) + 1
    for m in metas:
        for k in m["kinds"]:
            kinds[k] = kinds.get(k, 0) + 1
    sample = []
    for res in results[ncorpus:ncorpus + 2]:
        for i, l in enumerate(res["lines"]):
            if l.startswith("mr") and " q " in l and i < len(res["impl"]):
                sample.append({"op": l, "impl": res["impl"][i][:200], "model": res["fix"][i][:200]})
                break
    # every model function must have been compared with the code, and on answers that carry data: an op kind that was never
    # evaluated (or never succeeded) means the generators or the harness broke — that is a failure of the check, not a pass
    need = ["mr seek", "mr read", "mr pos", "mr q", "dr read", "dr block", "dr frag", "dr cat", "dr reload", "st get", "st adv",
            "dd inode", "dd ls", "dd path", "dd open", "dd next", "xr desc", "xr all", "xr seek", "xr key", "xr val", "idt get"]
    missing = [k for k in need if op_ok.get(k, 0) == 0]
    if missing:
        raise vlib.CheckFailure("no successful evaluation of: %s (evaluated: %s)" % (", ".join(missing), op_hist))
    for kind, n in parts.items():
        if n == 0:
            raise vlib.CheckFailure("episode kind %s is empty" % kind)
    img_stats = run_image_part(ctx, harness, counts)
    if img_stats["cat_checked"] == 0:
        raise vlib.CheckFailure("the agreement of the three file-data APIs was not evaluated on any undamaged image")
    nlines += img_stats["ops"]
    ctx.cov.update({
        "whole_image_histories": img_stats,
        "evaluations": nlines,
        "distinct_nontrivial": len(distinct),
        "rule": "%d corpus + %d generated episodes (one toy image of 2..10 chained metadata blocks each: raw/compressed/expanding/"
                "failing/oversized/truncated, optional scripted I/O errors, 1..3 reader objects with varying start/limit, %d ops: "
                "queries (seek+reads+position) on used and fresh readers, bare seeks with out-of-range offsets, bare reads crossing "
                "blocks, fail-between-two-hits patterns); every line through the real meta_reader.c (ASan+UBSan), the repaired model "
                "and the unrepaired model; non-trivial = distinct (image, query answer) with at least one byte delivered"
                % (ncorpus, nep, nops),
        "samples": sample,
        "disagreements_checked": sum(v for k, v in counts.items() if k != "ok"),
        "episode_verdicts": counts,
        "queries": nq, "queries_delivering_data": nq_nontrivial, "pure_cache_hit_queries": nhit,
        "status_histogram": st_hist, "block_kind_histogram": kinds,
        "ops_evaluated": op_hist, "ops_answered_successfully": op_ok, "episodes_by_kind": parts,
    })
    return ctx.finish(LEVEL, trusted_extra=[
        "modelled, not verified directly: the C text of lib/sqfs/src/meta_reader.c; the in-memory sqfs_file_t and the toy sqfs_compressor_t "
        "of harness/h_c10.c stand in for the file and codec parameters of the theorems",
        "the block decompressor is a parameter of the theorems (any function with bounded output whose failures are error codes); that the "
        "real codecs are functions of their input (no hidden state across calls) is assumed"],
        assumptions=["the image does not change while reader objects are alive", "limit < 2^64 (it is a sqfs_u64)"])


def replay(ctx, path):
    body = json.loads(open(path).read())
    rp = body.get("replay", {})
    if "script" not in rp:
        print("replay file names a broken obligation, no input to replay:", json.dumps(rp)[:500])
        return 1
    ctx.lean_build(["sqfsmodel"])
    harness = build_harness(ctx)
    if any(l.startswith("img") for l in rp["script"]):
        # whole-image history: no model, the oracle is history vs fresh; the image file must still exist
        missing = [l.split()[1] for l in rp["script"] if l.startswith("imgfile ") and not os.path.exists(l.split()[1])]
        if missing:
            print("image file(s) of this replay are gone (they live in the check's scratch directory): %s\n"
                  "re-run `VERIF_SEED=%s tools/check C10 --tier %s` to regenerate and re-test them" % (missing, body.get("seed"), body.get("tier")))
            return 1
        impl, rc, err = run_harness(ctx, harness, rp["script"], 600)
        bad = hist_mismatches(impl)
        for i in bad[:20]:
            print("%-50s %s" % (rp["script"][i][:50], impl[i][:200]))
        print("rc=%d, %d line(s) where the used readers answer differently from fresh readers" % (rc, len(bad)))
        return 1 if bad or rc != 0 else 0
    res = run_episodes(ctx, harness, [("replay", rp["script"])])[0]
    for i, l in enumerate(res["lines"]):
        print("%-40s impl=%s | repaired-model=%s | model-of-the-code-as-it-is=%s | old-model=%s" % (
            l[:40], res["impl"][i] if i < len(res["impl"]) else "<none>", res["fix"][i], res["cur"][i], res["old"][i]))
    print("verdict:", res["verdict"], res["detail"], "rc=%d" % res["rc"])
    return 0 if res["verdict"] == "ok" else 1
