"""
C04 — tar <-> SquashFS conversion preserves the archive; byte-exact fix-point.

Proof: lean/Sqfs/Props/C04.lean (number / checksum / header / PAX / sparse codecs of lib/tar and the conversion
steps of tar2sqfs, for all inputs).  Tie:
  (a) unit level — harness/h_c04.c links the *real* lib/tar (static helpers included textually) under
      ASan+UBSan and is run on the same script as `sqfsmodel c04`; the specification predicates are evaluated on
      the implementation's answers (exact-or-error, round trips) to classify any disagreement;
  (b) tool level — tools/checks/c04_tools.py: generated archives x options through the real tar2sqfs /
      sqfs2tar / rdsquashfs built from the working tree, GNU tar and Python tarfile as independent readers,
      sha256 fix-point.
"""
import json, os, time
import vlib

LEVEL = "proof"
MODULE = "Sqfs.Props.C04"
REQUIRED = ["Sqfs.C04.readNumber_exact_or_error", "Sqfs.C04.number_roundtrip", "Sqfs.C04.number_roundtrip_signed",
            "Sqfs.C04.checksum_roundtrip"]
EXCLUDE = ("lib/tar/src/write_header.c", "lib/tar/src/read_header.c")     # #included by the harness (static helpers)
U64 = 1 << 64

KEY_D26 = "D26:read_binary-silent-wrap"
MAX_PER_CLASS = 5
_class_count = {}


def report(ctx, cls, key, what, replay, found_input=True):
    """ctx.violation, at most MAX_PER_CLASS per class of disagreement (the count is still recorded)"""
    _class_count[cls] = _class_count.get(cls, 0) + 1
    if _class_count[cls] <= MAX_PER_CLASS or ctx.known_finding(key) is not None:
        ctx.violation(key, what, replay, found_input)


def tok(b):
    return bytes(b).hex() if b else "-"


def untok(t):
    return b"" if t == "-" else bytes.fromhex(t)


def build_harness(ctx):
    lib = ctx.build_lib("san", exclude=EXCLUDE)
    return ctx.cc("h_c04", ["h_c04.c", str(lib)], libs=vlib.CODEC_LIBS)


def run_impl(ctx, harness, lines, timeout=900):
    """returns (outputs, crash) — crash = (index, rc, stderr) when the real code aborted"""
    text = "\n".join(lines) + "\n"
    try:
        r = vlib.sh([str(harness)], input=text, env=ctx.san_env(), timeout=timeout)
    except Exception as e:                                    # timeout
        return [], (0, -1, "timeout: %s" % e)
    out = r.stdout.splitlines()
    if r.returncode != 0 or len(out) != len(lines):
        return out, (len(out), r.returncode, r.stderr[-3000:])
    return out, None


def run_model(ctx, lines):
    return ctx.driver(["c04"], "\n".join(lines) + "\n")


# ------------------------------------------------------------------ numbers
def number_boundaries(w):
    vs = {0, 1, 7, 8, 8 ** (w - 1) - 1, 8 ** (w - 1), 8 ** w - 1, 8 ** w, (1 << 21) - 1, 1 << 21, (1 << 24) - 1, 1 << 24,
          (1 << 31), (1 << 32) - 1, 1 << 32, (1 << 33) - 1, 1 << 33, (1 << 33) + 5, (1 << 36) - 1, 1 << 36,
          127 * (1 << 56) - 1, 127 * (1 << 56), (1 << 63) - 1, 1 << 63, U64 - 1}
    return sorted(v for v in vs if 0 <= v < U64)


def gen_number_fields(ctx, n_random):
    """structure-aware tar numeric fields: (bytes, class)"""
    rng = ctx.rng
    out = []

    def octal(v, nd):
        return (b"%0*o" % (nd, v))

    for w in (8, 12, 1, 2, 3, 7, 11, 16, 21, 22, 23, 24):
        for v in number_boundaries(min(w, 21)) + [rng.randrange(U64) for _ in range(6)]:
            d = octal(v, 1)
            if len(d) + 1 <= w:
                out.append((octal(v, w - 1) + b" ", "oct-term-space"))
                out.append((octal(v, w - 1) + b"\0", "oct-term-nul"))
                pad = w - len(d) - 1
                out.append((b" " * pad + d + b" ", "oct-leading-spaces"))
                out.append((b" " * pad + d + b"\0", "oct-leading-spaces"))
                if pad >= 2:
                    out.append((b"\t\n"[:1] * 1 + b" " * (pad - 1) + d + b"\0", "oct-leading-ws"))
                    out.append((d + b" " + b"7" * (pad), "oct-digits-after-blank"))
                    out.append((d + b"\0" * (pad + 1), "oct-short"))
            if len(d) <= w:
                out.append((octal(v, w), "oct-noterm"))
        # octal overflow: 22+ digits
        if w >= 22:
            for d0 in b"1234567":
                out.append((bytes([d0]) + b"7" * (w - 1), "oct-overflow"))
                out.append((b"0" * (w - 22) + bytes([d0]) + b"0" * 21, "oct-overflow-edge"))
                out.append((b"0" * (w - 21) + bytes([d0]) + b"7" * 20, "oct-max-edge"))
        out.append((b" " * w, "oct-empty"))
        out.append((b"\0" * w, "oct-empty"))
        out.append((b"8" * w, "oct-nondigit"))
        out.append((b"-1".ljust(w, b"\0")[:w], "oct-nondigit"))
    # base-256
    for w in (8, 12, 1, 2, 9, 10, 13, 16, 20):
        vals = number_boundaries(12) + [rng.randrange(U64) for _ in range(8)] + \
               [0xFF << 56, (0xFF << 56) - 1, 0xFE << 56, 1 << 56, (1 << 56) - 1, 0x80 << 56, 0x7F << 56]
        for v in vals:
            if w >= 9:
                for top in (0, 1, 0x7F, 0xFF):                       # bytes above the low 8: 0 = plain, else overflow
                    body = bytes([top]) * (w - 9) + v.to_bytes(8, "big")
                    out.append((bytes([0x80]) + body, "b256-pos" if top == 0 else "b256-pos-overflow"))
                    out.append((bytes([0x80 | 0x01]) + body, "b256-pos-overflow"))
                # negative numbers: sign-extended two's complement of -(v) for v in s64 range and beyond
                neg = (-v) % (1 << (8 * w))
                out.append((neg.to_bytes(w, "big"), "b256-neg" if neg >> (8 * w - 8) == 0xFF else "b256-neg-nonFF"))
                big = (-(v + (1 << 63) + 1)) % (1 << (8 * w))
                out.append((big.to_bytes(w, "big"), "b256-neg-overflow"))
            else:
                m = v % (1 << (8 * w - 1))
                out.append(((m | (1 << (8 * w - 1))).to_bytes(w, "big"), "b256-short"))
                out.append(((((-m) % (1 << (8 * w)))).to_bytes(w, "big"), "b256-short-neg"))
        out.append((b"\xff" * w, "b256-minus1"))
        out.append((b"\x80" + b"\xff" * (w - 1), "b256-pos-allones"))
    # the two witnesses of Sqfs/Witness/C04.lean
    out.append((bytes.fromhex("800000ff0000000000000000"), "witness-wrap-pos"))
    out.append((bytes.fromhex("ffffffff7f00000000000000"), "witness-wrap-neg"))
    for _ in range(n_random):
        w = rng.choice([8, 12, 12, 8, rng.randint(1, 24)])
        r = rng.random()
        if r < 0.3:
            f = bytes(rng.randrange(256) for _ in range(w))
        elif r < 0.6:
            f = bytes(rng.choice(b"01234567 \0\t8") for _ in range(w))
        elif r < 0.8:
            f = bytes([rng.choice([0x80, 0xFF, 0x81, 0xFE, 0xC0])]) + bytes(rng.choice([0, 0xFF, 0x7F, 0x80, rng.randrange(256)]) for _ in range(w - 1))
        else:
            nz = rng.randint(0, w)
            f = (b"\xff" if rng.random() < 0.5 else b"\x80") + b"\xff" * nz + bytes(rng.randrange(256) for _ in range(w))
            f = f[:w]
        out.append((f, "random"))
    return out


def unit_numbers(ctx, harness, stats):
    rng = ctx.rng
    fields = gen_number_fields(ctx, 4000 if ctx.quick() else 120000)
    # corpus
    cdir = vlib.CORPUS / "C04"
    ncorpus = 0
    if cdir.exists():
        for p in sorted(cdir.glob("rn*.hex")):
            for l in p.read_text().split():
                fields.insert(0, (untok(l), "corpus")); ncorpus += 1
    lines = ["rn " + tok(f) for f, _ in fields]
    impl, crash = run_impl(ctx, harness, lines)
    if crash:
        k, rc, err = crash
        ctx.violation("crash:rn", "read_number aborted (rc=%s) on %s: %s" % (rc, lines[min(k, len(lines) - 1)], err[-300:]),
                      {"unit": [lines[min(k, len(lines) - 1)]], "stderr": err})
        return
    model = run_model(ctx, lines)
    cur = run_model(ctx, ["rncur " + tok(f) for f, _ in fields])
    spec = run_model(ctx, ["rnspec " + tok(f) for f, _ in fields])
    hist, nontrivial, d26 = {}, set(), 0
    for i, (f, cls) in enumerate(fields):
        hist[cls] = hist.get(cls, 0) + 1
        if spec[i] == "err" or f[0] >= 0x80 or f[0] in b" \t":
            nontrivial.add(f)
        if model[i] != spec[i]:
            ctx.violation("model:rn", "model and specification of read_number differ on %s (theorem readNumber_exact_or_error "
                          "should make this impossible)" % tok(f), {"unit": [lines[i]]}, found_input=False)
        if impl[i] == spec[i]:
            continue
        stats["disagreements_checked"] += 1
        if impl[i] == cur[i] and cur[i] != spec[i]:
            d26 += 1
            ctx.violation(KEY_D26, "read_number returns a silently wrapped value: field %s means %s, code returns %s" % (
                tok(f), "a value outside 64 bits" if spec[i] == "err" else spec[i], impl[i]),
                {"unit": [lines[i]], "spec": spec[i], "impl": impl[i]})
        else:
            report(ctx, "rn", "rn:" + tok(f), "read_number(%s) = %s but the field means %s (model %s)" % (tok(f), impl[i], spec[i], model[i]),
                          {"unit": [lines[i]], "spec": spec[i], "impl": impl[i], "model": model[i]})
    stats["evaluations"] += 4 * len(lines)
    stats["rn_fields"] = len(fields)
    stats["rn_classes"] = hist
    stats["rn_known_wraps_seen"] = d26
    stats["nontrivial"] |= {("rn", f) for f in nontrivial}
    stats["samples"].append({"op": lines[3], "impl": impl[3], "model": model[3]})

    # writer + round trip evaluated on the implementation
    wl = []
    for w in (8, 12) + tuple(range(2, 22)):
        for v in number_boundaries(w) + [rng.randrange(U64) for _ in range(10 if ctx.quick() else 200)] + \
                [rng.randrange(1 << rng.randint(1, 64)) for _ in range(10 if ctx.quick() else 200)]:
            wl.append(("wn", v, w))
    for w in (12,) + tuple(range(9, 22)):
        for m in [-1, -2, -(1 << 31), -(1 << 32), -(1 << 33), -(1 << 62), -(1 << 63) + 1, 0, 1, (1 << 63) - 1, 1 << 33, (1 << 36) - 1, 1 << 36] + \
                [rng.randrange(-(1 << 63) + 1, 1 << 63) for _ in range(10 if ctx.quick() else 200)]:
            wl.append(("wns", m, w))
    lines = ["%s %d %d" % t for t in wl]
    impl, crash = run_impl(ctx, harness, lines)
    if crash:
        k, rc, err = crash
        ctx.violation("crash:wn", "write_number aborted (rc=%s) on %s: %s" % (rc, lines[min(k, len(lines) - 1)], err[-300:]),
                      {"unit": [lines[min(k, len(lines) - 1)]], "stderr": err})
        return
    model = run_model(ctx, lines)
    back, _ = run_impl(ctx, harness, ["rn " + x for x in impl])
    enc_hist = {"octal-term": 0, "octal-noterm": 0, "base256": 0}
    for i, (op, v, w) in enumerate(wl):
        f = untok(impl[i])
        enc_hist["base256" if f[0] & 0x80 else ("octal-term" if f[-1:] == b" " else "octal-noterm")] += 1
        in_domain = op == "wns" or v < 8 ** w or w >= 9 or (w == 8 and v < 127 << 56)
        want = v % U64
        rt_ok = back[i] == "ok %d" % want
        if impl[i] != model[i]:
            stats["disagreements_checked"] += 1
            report(ctx, "wn", "wn:%s:%d:%d" % (op, v, w), "%s(%d, %d) writes %s, model %s; reading it back gives %s" % (op, v, w, impl[i], model[i], back[i]),
                          {"unit": [lines[i], "rn " + impl[i]], "impl": impl[i], "model": model[i]}, found_input=not rt_ok and in_domain)
        elif in_domain and not rt_ok:
            stats["disagreements_checked"] += 1
            report(ctx, "wn-rt", "wn-roundtrip:%s:%d:%d" % (op, v, w), "%s(%d, %d) = %s reads back as %s" % (op, v, w, impl[i], back[i]),
                          {"unit": [lines[i], "rn " + impl[i]]})
        stats["nontrivial"].add((op, v, w))
    stats["evaluations"] += 3 * len(lines)
    stats["wn_encodings"] = enc_hist
    stats["samples"].append({"op": lines[5], "impl": impl[5], "model": model[5], "read_back": back[5]})


def unit_checksum(ctx, harness, stats):
    rng = ctx.rng
    hs = []
    for _ in range(300 if ctx.quick() else 5000):
        r = rng.random()
        if r < 0.3:
            h = bytes(rng.randrange(256) for _ in range(512))
        elif r < 0.5:
            h = bytes([rng.choice([0, 0xFF])]) * 512
        else:
            h = bytearray(512)
            for _ in range(rng.randint(1, 200)):
                h[rng.randrange(512)] = rng.randrange(256)
            h = bytes(h)
        hs.append(h)
    lines = []
    for h in hs:
        lines += ["ck " + tok(h), "ckv " + tok(h), "upd " + tok(h)]
    impl, crash = run_impl(ctx, harness, lines)
    if crash:
        k, rc, err = crash
        ctx.violation("crash:ck", "checksum code aborted (rc=%s) on %s" % (rc, lines[min(k, len(lines) - 1)][:80]),
                      {"unit": [lines[min(k, len(lines) - 1)]], "stderr": err})
        return
    model = run_model(ctx, lines)
    l2 = ["ckv " + impl[3 * i + 2] for i in range(len(hs))]
    impl2, _ = run_impl(ctx, harness, l2)
    for i, h in enumerate(hs):
        u = untok(impl[3 * i + 2]) if len(impl[3 * i + 2]) == 1024 else b""
        spec_ok = len(u) == 512 and u[:148] == h[:148] and u[156:] == h[156:] and impl2[i] == "1" and \
            impl[3 * i] == str(sum(h[:148]) + 256 + sum(h[156:]))
        differs = impl[3 * i:3 * i + 3] != model[3 * i:3 * i + 3]
        if not spec_ok:
            stats["disagreements_checked"] += 1
            report(ctx, "ck", "checksum:" + vlib.sha(h)[:12], "checksum round trip fails on the real code for header %s…" % tok(h)[:40],
                          {"unit": lines[3 * i:3 * i + 3] + [l2[i]]})
        elif differs:
            stats["disagreements_checked"] += 1
            report(ctx, "ck-corr", "checksum-corr:" + vlib.sha(h)[:12], "checksum model and code differ (%s vs %s)" % (impl[3 * i:3 * i + 2], model[3 * i:3 * i + 2]),
                          {"unit": lines[3 * i:3 * i + 3]}, found_input=False)
        stats["nontrivial"].add(("ck", h[:16]))
    stats["evaluations"] += 2 * len(lines) + len(l2)
    stats["checksum_headers"] = len(hs)


# ------------------------------------------------------------------ entry points
def run(ctx):
    ok, problems = vlib.proof_gate(ctx, MODULE, REQUIRED)
    if not ok:
        ctx.violation("proof:C04", "proof obligations of C04 no longer check: " + " | ".join(problems)[:1500],
                      {"broken": problems, "theorems_file": "lean/Sqfs/Props/C04.lean"}, found_input=False)
    stats = {"evaluations": 0, "disagreements_checked": 0, "nontrivial": set(), "samples": []}
    t0 = time.time()
    harness = build_harness(ctx)
    unit_numbers(ctx, harness, stats)
    unit_checksum(ctx, harness, stats)
    stats["unit_wall_s"] = round(time.time() - t0, 1)
    tools_stats = {}
    c04_tools = None
    if not os.environ.get("C04_SKIP_TOOLS"):                  # development switch only; the registered commands never set it
        try:
            from checks import c04_tools
        except ImportError:
            c04_tools = None
    if c04_tools is not None:
        t1 = time.time()
        tools_stats = c04_tools.run_tools(ctx) or {}
        tools_stats["wall_s"] = round(time.time() - t1, 1)
    nontrivial = stats.pop("nontrivial")
    ctx.cov.update({
        "evaluations": stats.pop("evaluations") + int(tools_stats.get("evaluations", 0)),
        "distinct_nontrivial": len(nontrivial) + int(tools_stats.get("distinct_nontrivial", 0)),
        "rule": "unit level: every generated field/value/header through the real lib/tar function (ASan+UBSan) and the Lean model, "
                "specification predicates evaluated on the implementation's answer; non-trivial = distinct input that is not a plain "
                "terminated octal number (leading blanks, no terminator, base-256, overflow, …) / distinct writer argument / distinct header. "
                "tool level: see `tools` (archives x options through tar2sqfs/sqfs2tar/rdsquashfs, GNU tar + tarfile read-back, sha256 fix-point)",
        "disagreements_checked": stats.pop("disagreements_checked"),
        "samples": stats.pop("samples") + list(tools_stats.get("samples", []))[:5],
        "unit": stats,
        "tools": {k: v for k, v in tools_stats.items() if k != "samples"},
    })
    return ctx.finish(LEVEL, trusted_extra=TRUSTED, assumptions=ASSUMPTIONS)


TRUSTED = [
    "modelled, not verified directly: the C text of lib/tar/src/{number,checksum,write_header,read_header,pax_header,read_sparse_map_old,"
    "read_sparse_map_new,iterator,record_to_memory,padd_file}.c and bin/tar2sqfs/src/process_tarball.c; C strings are their bytes before the NUL; "
    "sqfs_u64 arithmetic is Nat arithmetic with explicit `% 2^64` where the C code can wrap",
    "harness/h_c04.c (includes write_header.c and read_header.c textually to reach the static helpers), tools/checks/c04.py, tools/checks/c04_tools.py",
    "tool level: GNU tar 1.34 and Python tarfile as independent readers; rdsquashfs (built from the same tree) as image observer",
]
ASSUMPTIONS = [
    "the main model mirrors the repaired code (fixes/C04-*.patch); on an unrepaired tree the check recognises the listed known findings by comparing "
    "the implementation with the model of the unrepaired code (Sqfs/Witness/C04.lean) and with the specification",
]


def replay(ctx, path):
    body = json.loads(open(path).read())
    rp = body.get("replay", {})
    if "unit" in rp:
        ctx.lean_build(["sqfsmodel"])
        harness = build_harness(ctx)
        lines = rp["unit"]
        impl, crash = run_impl(ctx, harness, lines)
        model = run_model(ctx, lines)
        extra = []
        if lines and lines[0].startswith("rn "):
            extra = run_model(ctx, ["rnspec " + lines[0][3:]])
        print("script:", lines)
        print("impl  :", impl, "crash:", crash)
        print("model :", model)
        if extra:
            print("spec  :", extra)
            return 1 if crash or impl[0] != extra[0] else 0
        return 1 if crash or impl != model else 0
    if "tools" in rp:
        from checks import c04_tools
        return c04_tools.replay_tools(ctx, rp["tools"])
    print("replay file names a broken obligation, no input to replay:", json.dumps(rp)[:500])
    return 1
