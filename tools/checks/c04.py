"""
C04 — tar <-> SquashFS conversion preserves the archive; byte-exact fix-point.

Proof: lean/Sqfs/Props/C04.lean (number / checksum / PAX / sparse codecs of lib/tar; the full header round trip
write_tar_header -> read_header for every entry the writer accepts; decode_header / the extension-record loop for every
dialect; the tree-level fix-point tar2sqfs . sqfs2tar on the trees of images; the conversion steps of tar2sqfs — for all
inputs).  Tie:
  (a) unit level — harness/h_c04.c links the *real* lib/tar (static helpers included textually) under
      ASan+UBSan and is run on the same script as `sqfsmodel c04`; the specification predicates are evaluated on
      the implementation's answers (exact-or-error, round trips) to classify any disagreement;
      `rt` evaluates the full round trip on both sides and `rtspec` the specification (`decodedOf`) on every generated entry;
      probes with the real tools: xattr names with '='/'%' (two conversion rounds), tar2sqfs -E / --no-skip, sparse files
      beyond 4 GiB;
  (b) tool level — tools/checks/c04_tools.py: generated archives x options through the real tar2sqfs /
      sqfs2tar / rdsquashfs built from the working tree, GNU tar and Python tarfile as independent readers,
      sha256 fix-point.
"""
import json, os, time
import vlib

LEVEL = "proof"
MODULE = "Sqfs.Props.C04"
REQUIRED = ["Sqfs.C04.readNumber_exact_or_error", "Sqfs.C04.number_roundtrip", "Sqfs.C04.number_roundtrip_signed",
            "Sqfs.C04.checksum_roundtrip", "Sqfs.C04.prefix_digit_len_correct", "Sqfs.C04.schily_record_length",
            "Sqfs.C04.sparse_expand_spec", "Sqfs.C04.specExpand_length", "Sqfs.C04.mtime_clamp", "Sqfs.C04.mtime_overwrite_path_safe",
            "Sqfs.C04.prefix_strip", "Sqfs.C04.root_handling", "Sqfs.C04.implicit_parents",
            "Sqfs.C04.sparse_expand_spec_any_request_size", "Sqfs.C04.header_roundtrip", "Sqfs.C04.header_refusal",
            "Sqfs.C04.header_prefix_unused", "Sqfs.C04.xattr_key_escape", "Sqfs.C04.fixpoint_entry_level",
            "Sqfs.C04.fixpoint_tree_level", "Sqfs.C04.fixpoint_idempotent", "Sqfs.C04.decode_header_spec",
            "Sqfs.C04.read_header_plain_block", "Sqfs.C04.read_header_after_records", "Sqfs.C04.gnu_long_records",
            "Sqfs.C04.gnu_long_name_member", "Sqfs.C04.pax_record_spec", "Sqfs.C04.retarget_spec",
            "Sqfs.C04.pax_record_roundtrip", "Sqfs.C04.pax_payload_roundtrip", "Sqfs.C04.pax_sparse_map_replaces",
            "Sqfs.C04.hardlink_filter_spec", "Sqfs.C04.cut_record_is_error", "Sqfs.C04.pax_number_exact_or_error",
            "Sqfs.C04.pax_sparse_map_spec", "Sqfs.C04.subdir_selection_spec", "Sqfs.C04.fixpoint_sqfs2tar_options",
            "Sqfs.C04.libarchive_key_roundtrip", "Sqfs.C04.libarchive_xattr_roundtrip"]
EXCLUDE = ("lib/tar/src/write_header.c", "lib/tar/src/read_header.c")     # #included by the harness (static helpers)
U64 = 1 << 64

KEY_D26 = "D26:read_binary-silent-wrap"
KEY_XKEY = "xattr-key:equals-sign-not-escaped"
KEY_OLD256 = "old-sparse:base256-entry-ends-map"
MAX_PER_CLASS = 5
_class_count = {}


def report(ctx, cls, key, what, replay, found_input=True):
    """ctx.violation, at most MAX_PER_CLASS per class of disagreement (the count is still recorded)"""
    _class_count[cls] = _class_count.get(cls, 0) + 1
    if _class_count[cls] <= MAX_PER_CLASS or ctx.known_finding(key) is not None:
        ctx.violation(key, what, replay, found_input)


def tok(b):
    return bytes(b).hex() if b else "-"


def untok(t):
    return b"" if t == "-" else bytes.fromhex(t)


def build_harness(ctx):
    lib = ctx.build_lib("san")      # full library; read_header.o / write_header.o are never pulled from the archive
                                    # because the harness (linked first) defines their only symbols itself
    return ctx.cc("h_c04", ["h_c04.c", str(lib)], libs=vlib.CODEC_LIBS)


def run_impl(ctx, harness, lines, timeout=3600):
    """returns (outputs, crash) — crash = (index, rc, stderr) when the real code aborted"""
    text = "\n".join(lines) + "\n"
    try:
        r = vlib.sh([str(harness)], input=text, env=ctx.san_env(), timeout=timeout)
    except Exception as e:                                    # timeout
        return [], (0, -1, "timeout: %s" % e)
    out = r.stdout.splitlines()
    if r.returncode != 0 or len(out) != len(lines):
        return out, (len(out), r.returncode, r.stderr[-3000:])
    return out, None


def sh_t(cmd, **kw):
    """vlib.sh for runs of the real tools: a wall-clock timeout is a *result* (exit status -9, which every caller reports as an abort
    with the input as replay), not an exception of the check"""
    import subprocess, types
    try:
        return vlib.sh(cmd, **kw)
    except subprocess.TimeoutExpired:
        text = kw.get("text", not isinstance(kw.get("input"), (bytes, bytearray)))
        msg = "wall-clock timeout after %s s" % kw.get("timeout")
        return types.SimpleNamespace(returncode=-9, stdout="" if text else b"", stderr=msg if text else msg.encode())


def run_model(ctx, lines):
    """one answer line per script line, or the check infrastructure has failed (never a silent pass through a short zip)"""
    if not lines:
        return []
    out = ctx.driver(["c04"], "\n".join(lines) + "\n", timeout=3600)
    if len(out) != len(lines):
        raise vlib.CheckFailure("model driver answered %d lines to a script of %d lines (first op: %s)" % (len(out), len(lines), lines[0][:80]))
    return out


# ------------------------------------------------------------------ numbers
def number_boundaries(w):
    vs = {0, 1, 7, 8, 8 ** (w - 1) - 1, 8 ** (w - 1), 8 ** w - 1, 8 ** w, (1 << 21) - 1, 1 << 21, (1 << 24) - 1, 1 << 24,
          (1 << 31), (1 << 32) - 1, 1 << 32, (1 << 33) - 1, 1 << 33, (1 << 33) + 5, (1 << 36) - 1, 1 << 36,
          127 * (1 << 56) - 1, 127 * (1 << 56), (1 << 63) - 1, 1 << 63, U64 - 1}
    return sorted(v for v in vs if 0 <= v < U64)


def gen_number_fields(ctx, n_random):
    """structure-aware tar numeric fields: (bytes, class)"""
    rng = ctx.rng
    out = []

    def octal(v, nd):
        return (b"%0*o" % (nd, v))

    for w in (8, 12, 1, 2, 3, 7, 11, 16, 21, 22, 23, 24):
        for v in number_boundaries(min(w, 21)) + [rng.randrange(U64) for _ in range(6)]:
            d = octal(v, 1)
            if len(d) + 1 <= w:
                out.append((octal(v, w - 1) + b" ", "oct-term-space"))
                out.append((octal(v, w - 1) + b"\0", "oct-term-nul"))
                pad = w - len(d) - 1
                out.append((b" " * pad + d + b" ", "oct-leading-spaces"))
                out.append((b" " * pad + d + b"\0", "oct-leading-spaces"))
                if pad >= 2:
                    out.append((b"\t\n"[:1] * 1 + b" " * (pad - 1) + d + b"\0", "oct-leading-ws"))
                    out.append((d + b" " + b"7" * (pad), "oct-digits-after-blank"))
                    out.append((d + b"\0" * (pad + 1), "oct-short"))
            if len(d) <= w:
                out.append((octal(v, w), "oct-noterm"))
        # octal overflow: 22+ digits
        if w >= 22:
            for d0 in b"1234567":
                out.append((bytes([d0]) + b"7" * (w - 1), "oct-overflow"))
                out.append((b"0" * (w - 22) + bytes([d0]) + b"0" * 21, "oct-overflow-edge"))
                out.append((b"0" * (w - 21) + bytes([d0]) + b"7" * 20, "oct-max-edge"))
        out.append((b" " * w, "oct-empty"))
        out.append((b"\0" * w, "oct-empty"))
        out.append((b"8" * w, "oct-nondigit"))
        out.append((b"-1".ljust(w, b"\0")[:w], "oct-nondigit"))
    # base-256
    for w in (8, 12, 1, 2, 9, 10, 13, 16, 20):
        vals = number_boundaries(12) + [rng.randrange(U64) for _ in range(8)] + \
               [0xFF << 56, (0xFF << 56) - 1, 0xFE << 56, 1 << 56, (1 << 56) - 1, 0x80 << 56, 0x7F << 56]
        for v in vals:
            if w >= 9:
                for top in (0, 1, 0x7F, 0xFF):                       # bytes above the low 8: 0 = plain, else overflow
                    body = bytes([top]) * (w - 9) + v.to_bytes(8, "big")
                    out.append((bytes([0x80]) + body, "b256-pos" if top == 0 else "b256-pos-overflow"))
                    out.append((bytes([0x80 | 0x01]) + body, "b256-pos-overflow"))
                # negative numbers: sign-extended two's complement of -(v) for v in s64 range and beyond
                neg = (-v) % (1 << (8 * w))
                out.append((neg.to_bytes(w, "big"), "b256-neg" if neg >> (8 * w - 8) == 0xFF else "b256-neg-nonFF"))
                big = (-(v + (1 << 63) + 1)) % (1 << (8 * w))
                out.append((big.to_bytes(w, "big"), "b256-neg-overflow"))
            else:
                m = v % (1 << (8 * w - 1))
                out.append(((m | (1 << (8 * w - 1))).to_bytes(w, "big"), "b256-short"))
                out.append(((((-m) % (1 << (8 * w)))).to_bytes(w, "big"), "b256-short-neg"))
        out.append((b"\xff" * w, "b256-minus1"))
        out.append((b"\x80" + b"\xff" * (w - 1), "b256-pos-allones"))
    # the two witnesses of Sqfs/Witness/C04.lean
    out.append((bytes.fromhex("800000ff0000000000000000"), "witness-wrap-pos"))
    out.append((bytes.fromhex("ffffffff7f00000000000000"), "witness-wrap-neg"))
    for _ in range(n_random):
        w = rng.choice([8, 12, 12, 8, rng.randint(1, 24)])
        r = rng.random()
        if r < 0.3:
            f = bytes(rng.randrange(256) for _ in range(w))
        elif r < 0.6:
            f = bytes(rng.choice(b"01234567 \0\t8") for _ in range(w))
        elif r < 0.8:
            f = bytes([rng.choice([0x80, 0xFF, 0x81, 0xFE, 0xC0])]) + bytes(rng.choice([0, 0xFF, 0x7F, 0x80, rng.randrange(256)]) for _ in range(w - 1))
        else:
            nz = rng.randint(0, w)
            f = (b"\xff" if rng.random() < 0.5 else b"\x80") + b"\xff" * nz + bytes(rng.randrange(256) for _ in range(w))
            f = f[:w]
        out.append((f, "random"))
    return out


def unit_numbers(ctx, harness, stats):
    rng = ctx.rng
    fields = gen_number_fields(ctx, 4000 if ctx.quick() else 120000)
    # corpus
    cdir = vlib.CORPUS / "C04"
    ncorpus = 0
    if cdir.exists():
        for p in sorted(cdir.glob("rn*.hex")):
            for l in p.read_text().split():
                fields.insert(0, (untok(l), "corpus")); ncorpus += 1
    lines = ["rn " + tok(f) for f, _ in fields]
    impl, crash = run_impl(ctx, harness, lines)
    if crash:
        k, rc, err = crash
        ctx.violation("crash:rn", "read_number aborted (rc=%s) on %s: %s" % (rc, lines[min(k, len(lines) - 1)], err[-300:]),
                      {"unit": [lines[min(k, len(lines) - 1)]], "stderr": err})
        return
    model = run_model(ctx, lines)
    cur = run_model(ctx, ["rncur " + tok(f) for f, _ in fields])
    spec = run_model(ctx, ["rnspec " + tok(f) for f, _ in fields])
    hist, nontrivial, d26 = {}, set(), 0
    for i, (f, cls) in enumerate(fields):
        hist[cls] = hist.get(cls, 0) + 1
        if spec[i] == "err" or f[0] >= 0x80 or f[0] in b" \t":
            nontrivial.add(f)
        if model[i] != spec[i]:
            ctx.violation("model:rn", "model and specification of read_number differ on %s (theorem readNumber_exact_or_error "
                          "should make this impossible)" % tok(f), {"unit": [lines[i]]}, found_input=False)
        if impl[i] == spec[i]:
            continue
        stats["disagreements_checked"] += 1
        if impl[i] == cur[i] and cur[i] != spec[i]:
            d26 += 1
            ctx.violation(KEY_D26, "read_number returns a silently wrapped value: field %s means %s, code returns %s" % (
                tok(f), "a value outside 64 bits" if spec[i] == "err" else spec[i], impl[i]),
                {"unit": [lines[i]], "spec": spec[i], "impl": impl[i]})
        else:
            report(ctx, "rn", "rn:" + tok(f), "read_number(%s) = %s but the field means %s (model %s)" % (tok(f), impl[i], spec[i], model[i]),
                          {"unit": [lines[i]], "spec": spec[i], "impl": impl[i], "model": model[i]})
    stats["evaluations"] += 4 * len(lines)
    stats["rn_fields"] = len(fields)
    stats["rn_classes"] = hist
    stats["rn_known_wraps_seen"] = d26
    stats["nontrivial"] |= {("rn", f) for f in nontrivial}
    stats["samples"].append({"op": lines[3], "impl": impl[3], "model": model[3]})

    # writer + round trip evaluated on the implementation
    wl = []
    for w in (8, 12) + tuple(range(2, 22)):
        for v in number_boundaries(w) + [rng.randrange(U64) for _ in range(10 if ctx.quick() else 200)] + \
                [rng.randrange(1 << rng.randint(1, 64)) for _ in range(10 if ctx.quick() else 200)]:
            wl.append(("wn", v, w))
    for w in (12,) + tuple(range(9, 22)):
        for m in [-1, -2, -(1 << 31), -(1 << 32), -(1 << 33), -(1 << 62), -(1 << 63) + 1, 0, 1, (1 << 63) - 1, 1 << 33, (1 << 36) - 1, 1 << 36] + \
                [rng.randrange(-(1 << 63) + 1, 1 << 63) for _ in range(10 if ctx.quick() else 200)]:
            wl.append(("wns", m, w))
    lines = ["%s %d %d" % t for t in wl]
    impl, crash = run_impl(ctx, harness, lines)
    if crash:
        k, rc, err = crash
        ctx.violation("crash:wn", "write_number aborted (rc=%s) on %s: %s" % (rc, lines[min(k, len(lines) - 1)], err[-300:]),
                      {"unit": [lines[min(k, len(lines) - 1)]], "stderr": err})
        return
    model = run_model(ctx, lines)
    back, _ = run_impl(ctx, harness, ["rn " + x for x in impl])
    enc_hist = {"octal-term": 0, "octal-noterm": 0, "base256": 0}
    for i, (op, v, w) in enumerate(wl):
        f = untok(impl[i])
        enc_hist["base256" if f[0] & 0x80 else ("octal-term" if f[-1:] == b" " else "octal-noterm")] += 1
        in_domain = op == "wns" or v < 8 ** w or w >= 9 or (w == 8 and v < 127 << 56)
        want = v % U64
        rt_ok = back[i] == "ok %d" % want
        if impl[i] != model[i]:
            stats["disagreements_checked"] += 1
            report(ctx, "wn", "wn:%s:%d:%d" % (op, v, w), "%s(%d, %d) writes %s, model %s; reading it back gives %s" % (op, v, w, impl[i], model[i], back[i]),
                          {"unit": [lines[i], "rn " + impl[i]], "impl": impl[i], "model": model[i]}, found_input=not rt_ok and in_domain)
        elif in_domain and not rt_ok:
            stats["disagreements_checked"] += 1
            report(ctx, "wn-rt", "wn-roundtrip:%s:%d:%d" % (op, v, w), "%s(%d, %d) = %s reads back as %s" % (op, v, w, impl[i], back[i]),
                          {"unit": [lines[i], "rn " + impl[i]]})
        stats["nontrivial"].add((op, v, w))
    stats["evaluations"] += 3 * len(lines)
    stats["wn_encodings"] = enc_hist
    stats["samples"].append({"op": lines[5], "impl": impl[5], "model": model[5], "read_back": back[5]})


def unit_checksum(ctx, harness, stats):
    rng = ctx.rng
    hs = []
    for _ in range(300 if ctx.quick() else 5000):
        r = rng.random()
        if r < 0.3:
            h = bytes(rng.randrange(256) for _ in range(512))
        elif r < 0.5:
            h = bytes([rng.choice([0, 0xFF])]) * 512
        else:
            h = bytearray(512)
            for _ in range(rng.randint(1, 200)):
                h[rng.randrange(512)] = rng.randrange(256)
            h = bytes(h)
        hs.append(h)
    lines = []
    for h in hs:
        lines += ["ck " + tok(h), "ckv " + tok(h), "upd " + tok(h)]
    impl, crash = run_impl(ctx, harness, lines)
    if crash:
        k, rc, err = crash
        ctx.violation("crash:ck", "checksum code aborted (rc=%s) on %s" % (rc, lines[min(k, len(lines) - 1)][:80]),
                      {"unit": [lines[min(k, len(lines) - 1)]], "stderr": err})
        return
    model = run_model(ctx, lines)
    l2 = ["ckv " + impl[3 * i + 2] for i in range(len(hs))]
    impl2, _ = run_impl(ctx, harness, l2)
    for i, h in enumerate(hs):
        u = untok(impl[3 * i + 2]) if len(impl[3 * i + 2]) == 1024 else b""
        spec_ok = len(u) == 512 and u[:148] == h[:148] and u[156:] == h[156:] and impl2[i] == "1" and \
            impl[3 * i] == str(sum(h[:148]) + 256 + sum(h[156:]))
        differs = impl[3 * i:3 * i + 3] != model[3 * i:3 * i + 3]
        if not spec_ok:
            stats["disagreements_checked"] += 1
            report(ctx, "ck", "checksum:" + vlib.sha(h)[:12], "checksum round trip fails on the real code for header %s…" % tok(h)[:40],
                          {"unit": lines[3 * i:3 * i + 3] + [l2[i]]})
        elif differs:
            stats["disagreements_checked"] += 1
            report(ctx, "ck-corr", "checksum-corr:" + vlib.sha(h)[:12], "checksum model and code differ (%s vs %s)" % (impl[3 * i:3 * i + 2], model[3 * i:3 * i + 2]),
                          {"unit": lines[3 * i:3 * i + 3]}, found_input=False)
        stats["nontrivial"].add(("ck", h[:16]))
    stats["evaluations"] += 2 * len(lines) + len(l2)
    stats["checksum_headers"] = len(hs)


# ------------------------------------------------------------------ raw archive builder (generator side)
S_IFMT, S_IFSOCK, S_IFLNK, S_IFREG, S_IFBLK, S_IFDIR, S_IFCHR, S_IFIFO = 0o170000, 0o140000, 0o120000, 0o100000, 0o060000, 0o040000, 0o020000, 0o010000
KEY_D27 = "D27:skipped-socket-leaves-extension-records"
KEY_D22 = "D22:sparse-data-exceeds-record"


def classify_reader_batch(ctx, op, items, stats):
    """items = [(line, impl_out)] where impl differs from the repaired model: is it an unrepaired reader?  (r, k, d, o) = (D22 sparse bound
    repaired, xattrs appended, SCHILY keys un-escaped, base-256 entries of an old GNU sparse map read).  Reports the matching known
    findings; returns one bool per item (False: no variant of the unrepaired code explains the output)."""
    variants = [("0", "0", "1", "1"), ("1", "0", "0", "1"), ("0", "0", "0", "1"), ("1", "0", "1", "0")]
    if not items:
        return []
    outs = run_model(ctx, ["%sx %s %s %s %s %s" % (op, r, k, d, o, line.rsplit(" ", 1)[1]) for line, _ in items for r, k, d, o in variants])
    res = []
    for n, (line, impl_out) in enumerate(items):
        hit = False
        for m, (r, k, d, o) in enumerate(variants):
            if outs[n * len(variants) + m] == impl_out:
                if o == "0":
                    stats["known_old256_seen"] = stats.get("known_old256_seen", 0) + 1
                    ctx.violation(KEY_OLD256, "read_header takes an old GNU sparse map entry whose offset or size is a base-256 number (8 GiB and more, as "
                                  "GNU tar writes them) for the end of the list: the rest of the map is dropped, the file is stored with zeros instead "
                                  "of the data of the dropped regions (%s)" % impl_out[-160:], {"unit": [line]})
                if d == "0":
                    stats["known_xkey_seen"] = stats.get("known_xkey_seen", 0) + 1
                    ctx.violation(KEY_XKEY, "read_header takes a SCHILY.xattr key verbatim: \"%%3D\"/\"%%25\" as written by GNU tar (and by the repaired "
                                  "write_schily_xattr) for '='/'%%' in an xattr name are not decoded (%s)" % impl_out[-200:], {"unit": [line]})
                if r == "0":
                    stats["known_d22_seen"] = stats.get("known_d22_seen", 0) + 1
                    ctx.violation(KEY_D22, "a sparse map whose data regions exceed the record size is accepted; record_size wraps and the following members "
                                  "are swallowed/skipped (%s)" % impl_out[:160], {"unit": [line]})
                hit = True
                break
        res.append(hit)
    return res


def classify_reader(ctx, op, line, impl_out, stats):
    return classify_reader_batch(ctx, op, [(line, impl_out)], stats)[0]


def encnum(v, w, style):
    """numeric field in a chosen dialect; falls back to base-256 when octal does not fit"""
    if v < 0:
        return ((v + (1 << (8 * w))) % (1 << (8 * w))).to_bytes(w, "big")          # GNU: sign-extended two's complement
    d = b"%o" % v
    if style == "b256" or len(d) > w:
        return bytes([0x80]) + v.to_bytes(w - 1, "big") if v < (1 << (8 * (w - 1))) else None
    if style == "noterm" or len(d) == w:
        return d.rjust(w, b"0")
    if style == "nul":
        return d.rjust(w - 1, b"0") + b"\0"
    if style == "lead":
        return (b" " * (w - 1 - len(d))) + d + b"\0"
    if style == "short":
        return d + b" " + b"\0" * (w - 1 - len(d))
    return d.rjust(w - 1, b"0") + b" "


def fix_checksum(h):
    h = bytearray(h)
    h[148:156] = b" " * 8
    c = sum(h)
    h[148:156] = b"%06o\0 " % c
    return bytes(h)


def mk_header(name=b"", mode=0o644, uid=0, gid=0, size=0, mtime=0, typeflag=b"0", linkname=b"", dialect="ustar", prefix=b"",
              maj=0, minr=0, style="term", tail=None, uname=b"", gname=b"", bad_checksum=False):
    h = bytearray(512)
    h[0:100] = name[:100].ljust(100, b"\0")
    h[100:108] = encnum(mode, 8, style)
    h[108:116] = encnum(uid, 8, style) or encnum(0, 8, style)
    h[116:124] = encnum(gid, 8, style) or encnum(0, 8, style)
    h[124:136] = encnum(size, 12, style)
    h[136:148] = encnum(mtime, 12, style)
    h[156:157] = typeflag
    h[157:257] = linkname[:100].ljust(100, b"\0")
    if dialect == "ustar":
        h[257:263] = b"ustar\0"; h[263:265] = b"00"
    elif dialect in ("gnu", "prepos"):
        h[257:263] = b"ustar "; h[263:265] = b" \0"
    elif dialect == "junk":
        h[257:263] = b"ustaR\0"; h[263:265] = b"00"
    h[265:297] = uname[:32].ljust(32, b"\0")
    h[297:329] = gname[:32].ljust(32, b"\0")
    if dialect != "v7":
        h[329:337] = encnum(maj, 8, style)
        h[337:345] = encnum(minr, 8, style)
    if tail is not None:
        h[345:345 + len(tail)] = tail
    elif prefix:
        h[345:500] = prefix[:155].ljust(155, b"\0")
    out = fix_checksum(h)
    if bad_checksum:
        out = bytearray(out); out[150] ^= 1; out = bytes(out)
    return out


def pad512(b):
    return b + b"\0" * ((-len(b)) % 512)


def pax_record(key, value, length=None):
    body = b" " + key + b"=" + value + b"\n"
    n = len(body)
    l = n + len(str(n))
    if len(str(l)) + n != l:
        l = n + len(str(l))
    if length is not None:
        l = length
    return str(l).encode() + body


def pax_member(records, name=b"pax/hdr", dialect="ustar", typeflag=b"x"):
    payload = b"".join(records)
    return mk_header(name=name, size=len(payload), typeflag=typeflag, dialect=dialect) + pad512(payload)


def gnu_long(typeflag, payload, nul=True, dialect="gnu"):
    p = payload + (b"\0" if nul else b"")
    return mk_header(name=b"././@LongLink", size=len(p), typeflag=typeflag, dialect=dialect, mode=0) + pad512(p)


NAME_LENS = [1, 2, 50, 98, 99, 100, 101, 102, 154, 155, 156, 157, 199, 200, 254, 255, 256, 257, 300, 1000]
NUM_VALUES = [0, 1, 7, 8, 0o7777, (1 << 21) - 1, 1 << 21, (1 << 24) - 1, 1 << 24, (1 << 31) - 1, 1 << 31, (1 << 32) - 1, 1 << 32,
              (1 << 33) - 1, 1 << 33, (1 << 33) + 5, (1 << 36) - 1, 1 << 36, (1 << 40) + 3, (1 << 56) - 1, (1 << 63) - 1]
MTIMES = [-(1 << 62), -(1 << 33), -(1 << 31) - 1, -1, 0, 1, 1542905892, (1 << 31) - 1, 1 << 31, (1 << 32) - 1, 1 << 32, (1 << 33) - 1, 1 << 33,
          (1 << 36) - 1, 1 << 36, (1 << 62)]


def gen_name(rng, n, kind="path"):
    """a path of exactly n bytes, components <= 60 bytes, no '.'/'..' components, NUL free"""
    alpha = b"abcdefghijklmnopqrstuvwxyzABCDEFXYZ0123456789_-+. \xc3\xa4"
    out = bytearray()
    while len(out) < n:
        room = n - len(out)
        k = min(room, rng.randint(1, 60))
        if room - k == 1:
            k += 1
        comp = bytes(rng.choice(alpha) for _ in range(k))
        if comp.strip(b".") == b"" or comp[:1] in b" ":
            comp = b"x" + comp[1:]
        out += comp
        if len(out) < n:
            out += b"/"
    return bytes(out[:n]) if out[n - 1:n] != b"/" else bytes(out[:n - 1] + b"z")


def gnu_escape_key(k):
    """GNU tar's xattr_encode_keyword: '%' -> %25, '=' -> %3D"""
    return k.replace(b"%", b"%25").replace(b"=", b"%3D")


def schily_record_len(k, vl):
    """length of the record write_schily_xattr emits for key k (escaped as the repaired writer does) and a value of vl bytes"""
    base = 13 + len(gnu_escape_key(k)) + vl + 3
    nd = 1
    while len(str(base + nd)) != nd:
        nd += 1
    return base + nd


PAX_LEN_EDGES = [9, 10, 98, 99, 100, 101, 998, 999, 1000, 1001, 9998, 9999, 10000, 10001]
XKEY_TAILS = [b"a=b", b"=", b"==x", b"50%", b"%", b"%25", b"%3D", b"a%3Db=c", b"%2", b"%3d", b"x%%=%=", b"=%25=%3D"]


def gen_xattr_pair(rng):
    pfx = rng.choice([b"user.", b"security.", b"trusted.", b"system."])
    r = rng.random()
    if r < 0.25:                                            # keys the PAX syntax cannot hold verbatim ('=') / the escape character itself
        k = pfx + rng.choice(XKEY_TAILS) + bytes(rng.choice(b"abcXYZ_.09=%") for _ in range(rng.randint(0, 6)))
    else:
        k = pfx + bytes(rng.choice(b"abcXYZ_.09") for _ in range(rng.randint(1, 40)))
    if rng.random() < 0.45:                                 # value length chosen so that the record length sits on a digit-count edge
        want = rng.choice(PAX_LEN_EDGES)
        vl = max(0, want - (16 + len(gnu_escape_key(k))) - len(str(want)))
        if schily_record_len(k, vl) != want:                # some lengths do not exist (the length field is self-referential): nearest above
            vl = next((c for c in range(vl, vl + 4) if schily_record_len(k, c) >= want), vl)
    else:
        vl = rng.choice([0, 1, 2, 5, 60, 70, 71, 72, 73, 74, 75, 76, 77, 78, 79, 80, 800, 9900, 9960, 9961, 9962, 9963, 9964, 9965, 9966, 9967, 9968, 9969, 9970, rng.randint(0, 200)])
        vl = max(0, vl - len(k))
    v = bytes(rng.choice([0, 10, 61, 32, 37, 0xff, rng.randrange(256)]) for _ in range(vl))
    return k, v


def gen_wentry(rng):
    """arguments of write_tar_header as sqfs2tar would pass them (plus library-level extremes)"""
    kind = rng.choice(["file", "file", "dir", "slink", "slink", "chr", "blk", "fifo", "sock", "hard", "hard"])
    nlen = rng.choice(NAME_LENS + [rng.randint(1, 300)])
    big = rng.random() < 0.012                               # the reader's 65536-byte limit on GNU 'L'/'K' and PAX records
    if big:
        nlen = rng.choice([65534, 65535, 65536, 65537])
    name = gen_name(rng, nlen)
    fmtbits = {"file": S_IFREG, "dir": S_IFDIR, "slink": S_IFLNK, "chr": S_IFCHR, "blk": S_IFBLK, "fifo": S_IFIFO, "sock": S_IFSOCK, "hard": S_IFLNK}[kind]
    if kind == "dir":
        name = name[:-1] + b"/" if big else name + b"/"
    mode = fmtbits | (rng.choice([0o777, 0o777, 0o644, 0]) if kind in ("slink", "hard") else rng.choice([0, 0o644, 0o755, 0o7777, rng.randrange(0o10000)]))
    uid = rng.choice(NUM_VALUES + [rng.randrange(1 << 32), (127 << 56) - 1])
    gid = rng.choice(NUM_VALUES + [rng.randrange(1 << 32), (127 << 56) - 1])
    mtime = rng.choice(MTIMES + [rng.randrange(1 << 32), -(1 << 63) + 1, (1 << 63) - 1])   # INT64_MIN itself: `-value` in write_number_signed is UB (noted, unreachable)
    size = rng.choice(NUM_VALUES + [(1 << 64) - 1]) if kind == "file" else 0
    target = None
    if kind in ("slink", "hard"):
        tlen = rng.choice(NAME_LENS + [rng.randint(1, 300)])
        if rng.random() < 0.012:
            tlen = rng.choice([65535, 65536, 65537])
        target = gen_name(rng, tlen)
        size = len(target)
    maj, minr = (rng.choice([0, 1, 8, 255, 256, 4095, (1 << 21) - 1, 1 << 21, (1 << 31) - 1, 1 << 31, (1 << 32) - 1]),
                 rng.choice([0, 1, 255, 256, (1 << 20) - 1, (1 << 24), (1 << 31) - 1, 1 << 31, (1 << 32) - 1])) \
        if kind in ("chr", "blk") else (0, 0)
    xattrs = []
    if rng.random() < (0.15 if kind == "hard" else 0.45):    # a hard link record carries no xattrs: write_hard_link ignores them
        for _ in range(rng.randint(1, 4)):
            xattrs.append(gen_xattr_pair(rng))
        if rng.random() < 0.03:                              # total PAX payload around the reader's 65536-byte limit
            k = b"user.big"
            want = rng.choice([65535, 65536, 65537]) - sum(schily_record_len(a, len(b)) for a, b in xattrs)
            vl = next((c for c in range(max(0, want - 40), want + 1) if schily_record_len(k, c) >= want), None)
            if vl is not None and want > 40:
                xattrs.append((k, bytes(rng.randrange(256) for _ in range(vl))))
    flags = 2 if kind == "hard" else 0
    counter = rng.choice([0, 1, 9, 10, 99, 100, 12345, (1 << 32) - 1])
    return dict(kind=kind, flags=flags, mode=mode, uid=uid, gid=gid, size=size, mtime=mtime, maj=maj, min=minr, counter=counter,
                name=name, target=target, xattrs=xattrs)


def enc_line(op, e):
    xs = "".join(" %s %s" % (tok(k), tok(v)) for k, v in e["xattrs"])
    return "%s %d %o %d %d %d %d %d %d %d %s %s%s" % (op, e["flags"], e["mode"], e["uid"], e["gid"], e["size"], e["mtime"], e["maj"], e["min"],
                                                     e["counter"], tok(e["name"]), "null" if e["target"] is None else tok(e["target"]), xs)


def parse_dec(line):
    """'ok k=v k=v …' -> dict"""
    if not line.startswith("ok "):
        return None
    d = {}
    for kv in line[3:].split():
        k, _, v = kv.partition("=")
        d[k] = v
    return d


def roundtrip_failures(e, d):
    """header round trip evaluated on the implementation: which fields of the entry did not survive write_tar_header -> read_header"""
    bad = []
    if d is None:
        return ["not-decoded"]
    def hx(t):
        return None if t == "null" else untok(t)
    if hx(d["name"]) != e["name"]:
        bad.append("name")
    kind = e["kind"]
    fm = e["mode"] & S_IFMT
    if kind == "hard":
        if d["hl"] != "1":
            bad.append("hardlink-flag")
        if hx(d["link"]) != e["target"]:
            bad.append("link")
        if int(d["mode"], 8) != (e["mode"] & 0o7777):
            bad.append("mode")
    else:
        want_mode = (S_IFLNK | 0o777) if fm == S_IFLNK else e["mode"]
        if int(d["mode"], 8) != want_mode:
            bad.append("mode")
        if fm == S_IFLNK and hx(d["link"]) != e["target"]:
            bad.append("link")
        if d["hl"] != "0":
            bad.append("hardlink-flag")
    if int(d["uid"]) != e["uid"]:
        bad.append("uid")
    if int(d["gid"]) != e["gid"]:
        bad.append("gid")
    if int(d["mtime"]) != e["mtime"]:
        bad.append("mtime")
    if fm == S_IFREG and kind != "hard" and (int(d["rsize"]) != e["size"] or int(d["asize"]) != e["size"]):
        bad.append("size")
    if fm in (S_IFCHR, S_IFBLK) and (int(d["maj"]) != e["maj"] or int(d["min"]) != e["min"]):
        bad.append("devno")
    got_x = [] if d["xattr"] == "-" else [tuple(untok(t) for t in p.split(":")) for p in d["xattr"].split(",")]
    want_x = [] if kind == "hard" else e["xattrs"]                                       # write_hard_link emits no xattr record
    if sorted(got_x) != sorted(want_x) or got_x != list(reversed(want_x)):               # the reader prepends: reverse order (modelled)
        bad.append("xattr")
    if d["unk"] != "0":
        bad.append("unknown-record")
    return bad


def pax_payload_len(e):
    return sum(schily_record_len(k, len(v)) for k, v in e["xattrs"])


def beyond_reader_limits(e):
    """`Encodable.nameLen/tgtLen/paxLen`: records the reader refuses by design (TAR_MAX_PATH_LEN, TAR_MAX_SYMLINK_LEN, TAR_MAX_PAX_LEN = 65536)"""
    if len(e["name"]) > 65536:
        return True
    if e["target"] is not None and len(e["target"]) > 65536:
        return True
    return e["kind"] != "hard" and pax_payload_len(e) > 65536


def in_roundtrip_domain(e):
    """the hypotheses of header_roundtrip (`Sqfs.Tar.Encodable`): what write_tar_header can represent and read_header accepts"""
    if e["uid"] >= 127 << 56 or e["gid"] >= 127 << 56:
        return False
    if any(b"\0" in k for k, _ in e["xattrs"]):
        return False
    if e["maj"] >= 1 << 31 or e["min"] >= 1 << 31:               # `int maj = major(rdev)` sign-extends
        return False
    return not beyond_reader_limits(e)


def unit_headers(ctx, harness, stats):
    rng = ctx.rng
    n = 1500 if ctx.quick() else 12000                       # (8 passes per entry now: enc x4, rt x4)
    es = [gen_wentry(rng) for _ in range(n)]
    lines = [enc_line("enc", e) for e in es]
    rtl = [enc_line("rt", e) for e in es]
    impl, crash = run_impl(ctx, harness, lines)
    if crash:
        k, rc, err = crash
        ctx.violation("crash:enc", "write_tar_header aborted (rc=%s) on %s: %s" % (rc, lines[min(k, len(lines) - 1)][:200], err[-300:]),
                      {"unit": [lines[min(k, len(lines) - 1)]], "stderr": err})
        return
    model = run_model(ctx, lines)
    cur = run_model(ctx, [enc_line("enccur", e) for e in es])
    raw = run_model(ctx, [enc_line("encraw", e) for e in es])
    # the full round trip write_tar_header -> read_header: on the real code, in the model, in the model of the code before the
    # xattr key repair, and the specification (`decodedOf`) — header_roundtrip says: all equal on `Encodable` entries
    impl_rt, crash2 = run_impl(ctx, harness, rtl)
    if crash2:
        k, rc, err = crash2
        ctx.violation("crash:rt", "write_tar_header/read_header aborted (rc=%s) on %s: %s" % (rc, rtl[min(k, len(rtl) - 1)][:200], err[-300:]),
                      {"unit": [rtl[min(k, len(rtl) - 1)]], "stderr": err})
        return
    model_rt = run_model(ctx, rtl)
    raw_rt = run_model(ctx, [enc_line("rtraw", e) for e in es])
    spec_rt = run_model(ctx, [enc_line("rtspec", e) for e in es])
    hist = {"kinds": {}, "name_len": {}, "link_len": {}, "ext_records": {"K": 0, "L": 0, "x": 0}, "num_enc": {"octal": 0, "noterm": 0, "b256": 0},
            "keys_with_eq_or_pct": 0, "beyond_reader_limits": 0, "pax_record_len": {}, "roundtrip_eq_spec": 0, "rt_model_eq_impl": 0}
    for i, e in enumerate(es):
        hist["kinds"][e["kind"]] = hist["kinds"].get(e["kind"], 0) + 1
        b = "<100" if len(e["name"]) < 100 else ("100" if len(e["name"]) == 100 else (">100" if len(e["name"]) < 65000 else str(len(e["name"]))))
        hist["name_len"][b] = hist["name_len"].get(b, 0) + 1
        if e["target"] is not None:
            b = "<100" if len(e["target"]) < 100 else ("100" if len(e["target"]) == 100 else (">100" if len(e["target"]) < 65000 else str(len(e["target"]))))
            hist["link_len"][b] = hist["link_len"].get(b, 0) + 1
        special = e["kind"] != "hard" and any(b"=" in k or b"%" in k for k, _ in e["xattrs"])
        hist["keys_with_eq_or_pct"] += special
        if e["kind"] != "hard":
            for k, v in e["xattrs"]:
                L = schily_record_len(k, len(v))
                if L in PAX_LEN_EDGES:
                    hist["pax_record_len"][str(L)] = hist["pax_record_len"].get(str(L), 0) + 1
        stats["nontrivial"].add(("enc", lines[i][:200]))
        if e["kind"] == "sock":
            # specification (header_refusal): an unsupported entry is refused and leaves the stream untouched
            if impl[i] == "err -" and impl_rt[i] == "err -":
                pass
            elif impl[i] == cur[i] and impl[i].startswith("err "):
                stats["disagreements_checked"] += 1
                ctx.violation(KEY_D27, "write_tar_header appends %d bytes of extension records (PAX 'x' / GNU 'L') for a socket and then returns "
                              "SQFS_ERROR_UNSUPPORTED; sqfs2tar skips the socket and the next member inherits them" % (len(impl[i]) // 2 - 2),
                              {"unit": [lines[i]], "impl": impl[i][:200], "model": model[i]})
            else:
                stats["disagreements_checked"] += 1
                report(ctx, "enc-sock", "enc-sock:" + vlib.sha(lines[i])[:12], "write_tar_header on a socket: %s (model %s)" % (impl[i][:100], model[i][:100]),
                       {"unit": [lines[i]]})
            continue
        if impl[i].startswith("ok "):
            raw_b = untok(impl[i][3:])
            for off in range(0, len(raw_b), 512):
                blk = raw_b[off:off + 512]
                if blk[257:263] == b"ustar " and blk[156:157] in b"KLx":
                    hist["ext_records"][blk[156:157].decode()] += 1
            last = raw_b[-512:]
            for fo, fw in ((108, 8), (116, 8), (124, 12), (136, 12)):
                f = last[fo:fo + fw]
                hist["num_enc"]["b256" if f[0] & 0x80 else ("octal" if f[-1:] == b" " else "noterm")] += 1
        dom = in_roundtrip_domain(e)
        bad = roundtrip_failures(e, parse_dec(impl_rt[i]))              # the specification, evaluated independently in Python on the real code's answer
        unrepaired = special and impl[i] == raw[i] and impl_rt[i] == raw_rt[i] and (impl[i] != model[i] or impl_rt[i] != model_rt[i])
        if unrepaired:
            # the code before fixes/C04-xattr-key-escape.patch: keys copied verbatim.  With '=' in a key the pair is altered (property
            # violated, failing input); with only '%' the round trip still holds and only the encoding differs from the repaired model.
            stats["disagreements_checked"] += 1
            stats["known_xkey_seen"] = stats.get("known_xkey_seen", 0) + 1
            ctx.violation(KEY_XKEY, "write_tar_header copies an xattr key containing '=' or '%%' verbatim into the SCHILY.xattr record; a PAX keyword "
                          "ends at the first '=', so read_header (and GNU tar) return a different key/value pair: round trip on the real code %s for %s" % (
                              ("loses " + "+".join(bad)) if bad else "holds (only '%' present, encoding differs from GNU tar's)", lines[i][:200]),
                          {"unit": [rtl[i], lines[i]], "decoded": impl_rt[i][:400], "expected": spec_rt[i][:400]}, found_input=bool(bad))
            continue
        if impl[i] != model[i]:
            stats["disagreements_checked"] += 1
            report(ctx, "enc-corr", "enc:" + vlib.sha(lines[i])[:12], "write_tar_header: model and code differ on %s (round trip on the real code: %s)" % (
                lines[i][:160], bad or "ok"), {"unit": [lines[i]], "impl": impl[i][:400], "model": model[i][:400]},
                found_input=bool(bad) and dom)
            continue
        if impl_rt[i] != model_rt[i]:
            stats["disagreements_checked"] += 1
            report(ctx, "rt-corr", "rt:" + vlib.sha(rtl[i])[:12], "write_tar_header -> read_header: model and code differ on %s: impl=%s model=%s" % (
                rtl[i][:160], impl_rt[i][:300], model_rt[i][:300]), {"unit": [rtl[i]]}, found_input=bool(bad) and dom)
            continue
        hist["rt_model_eq_impl"] += 1
        if beyond_reader_limits(e):
            # outside `Encodable` by a documented limit of the reader: the property asks for a loud refusal, never for altered content
            hist["beyond_reader_limits"] += 1
            if impl_rt[i] != "err":
                stats["disagreements_checked"] += 1
                report(ctx, "rt-limit", "header-roundtrip:limit-not-refused:%s" % e["kind"], "a record beyond the reader's 65536-byte limit is not refused: %s -> %s" % (
                    rtl[i][:160], impl_rt[i][:300]), {"unit": [rtl[i]]})
            continue
        if dom:
            if impl_rt[i] == spec_rt[i] and not bad:
                hist["roundtrip_eq_spec"] += 1
            else:
                stats["disagreements_checked"] += 1
                report(ctx, "enc-rt", "header-roundtrip:%s:%s" % (e["kind"], "+".join(bad) or "spec"), "write_tar_header -> read_header loses %s for %s (decodedOf: %s)" % (
                    bad or "?", lines[i][:200], spec_rt[i][:300]), {"unit": [rtl[i], lines[i]], "decoded": impl_rt[i][:400], "expected": spec_rt[i][:400]})
    stats["evaluations"] += 4 * len(lines) + 4 * len(rtl)
    stats["enc_entries"] = len(es)
    stats["enc_hist"] = hist
    stats["samples"].append({"op": rtl[0][:200], "impl": impl_rt[0][:300], "spec(decodedOf)": spec_rt[0][:300]})
    # prefix_digit_len: the self-referential PAX length
    pl = list(range(0, 2000)) + [10 ** k + d for k in range(1, 19) for d in (-20, -12, -11, -10, -9, -3, -2, -1, 0, 1) if 10 ** k + d >= 0] + [rng.randrange(1 << 40) for _ in range(500)]
    lines = ["pdl %d" % x for x in pl]
    impl, crash = run_impl(ctx, harness, lines)
    if crash or len(impl) != len(lines):
        k, rc, err = crash or (len(impl), 0, "short output")
        ctx.violation("crash:pdl", "prefix_digit_len aborted (rc=%s) on %s: %s" % (rc, lines[min(k, len(lines) - 1)], err[-300:]),
                      {"unit": [lines[min(k, len(lines) - 1)]], "stderr": err})
        return
    model = run_model(ctx, lines)
    for x, a, b in zip(pl, impl, model):
        ok = a.isdigit() and len(str(x + int(a))) == int(a)
        if not ok:
            stats["disagreements_checked"] += 1
            report(ctx, "pdl", "pdl:%d" % x, "prefix_digit_len(%d) = %s is not a fixed point" % (x, a), {"unit": ["pdl %d" % x]})
        elif a != b:
            stats["disagreements_checked"] += 1
            report(ctx, "pdl-corr", "pdl-corr:%d" % x, "prefix_digit_len(%d): code %s model %s" % (x, a, b), {"unit": ["pdl %d" % x]}, found_input=False)
    stats["evaluations"] += 2 * len(lines)


# ------------------------------------------------------------------ reader side: generated members in every dialect
def gen_sparse_map(rng, well_formed=True):
    """(map, realsize, data) — data = concatenation of the data regions' bytes"""
    n = rng.choice([1, 2, 3, 4, 5, 6, 20, 25, 26, 30, 47]) if rng.random() < 0.5 else rng.randint(1, 8)
    off, m = 0, []
    for _ in range(n):
        off += rng.choice([0, 0, 1, 512, 513, 100, rng.randint(0, 700)])          # hole (0 = adjacent regions / data at start)
        c = rng.choice([0, 1, 511, 512, 513, 100, rng.randint(0, 300)])
        m.append((off, c))
        off += c
    real = off + rng.choice([0, 0, 1, 512, rng.randint(0, 600)])                  # hole at the end
    if rng.random() < 0.4:
        m.append((real, 0))                                                       # GNU tar's terminating zero-length entry
    data = bytes(rng.randrange(1, 256) for _ in range(sum(c for _, c in m)))
    if not well_formed:
        k = rng.random()
        if k < 0.3 and len(m) > 1:
            rng.shuffle(m)
        elif k < 0.6:
            i = rng.randrange(len(m)); m[i] = (m[i][0], m[i][1] + rng.choice([1, 512, 5000]))      # region longer than the data that follows
        elif k < 0.8:
            real = max(0, real - rng.choice([1, 100, real]))
        else:
            i = rng.randrange(len(m)); m[i] = (max(0, m[i][0] - rng.choice([1, 50])), m[i][1])       # overlap
    return m, real, data


def spec_expand(m, real, data):
    """independent statement of the expansion: `real` bytes, data regions in order at their offsets, zero elsewhere"""
    out = bytearray(real)
    pos = 0
    for o, c in m:
        out[o:o + c] = data[pos:pos + c]
        pos += c
    return bytes(out[:real])


def sparse_member(rng, name, m, real, data, dialect):
    """one sparse file in the chosen dialect -> bytes"""
    if dialect == "old":
        def num(v):                                           # GNU tar: octal with terminator below 8^11 (8 GiB), base-256 from there on
            return encnum(v, 12, "b256") if v >= 8 ** 11 else encnum(v, 12, "term")
        tail = bytearray(167)                                 # gnu tail: atime(12) ctime(12) offset(12) deprecated(4) unused(1) sparse[4](96) isext(1) realsize(12)
        ents = m[:4]
        for i, (o, c) in enumerate(ents):
            tail[41 + 24 * i:41 + 24 * i + 12] = num(o)
            tail[41 + 24 * i + 12:41 + 24 * i + 24] = num(c)
        rest = m[4:]
        tail[137] = 1 if rest else 0
        tail[138:150] = num(real)
        out = mk_header(name=name, size=len(data), typeflag=b"S", dialect="gnu", tail=bytes(tail), mtime=1542905892)
        while rest:
            blk = bytearray(512)
            for i, (o, c) in enumerate(rest[:21]):
                blk[24 * i:24 * i + 12] = num(o)
                blk[24 * i + 12:24 * i + 24] = num(c)
            rest = rest[21:]
            blk[504] = 1 if rest else 0
            out += bytes(blk)
        return out + pad512(data)
    if dialect == "0.0":
        recs = [pax_record(b"GNU.sparse.size", str(real).encode()), pax_record(b"GNU.sparse.numblocks", str(len(m)).encode())]
        for o, c in m:
            recs += [pax_record(b"GNU.sparse.offset", str(o).encode()), pax_record(b"GNU.sparse.numbytes", str(c).encode())]
        return pax_member(recs) + mk_header(name=name, size=len(data), mtime=1542905892) + pad512(data)
    if dialect == "0.1":
        recs = [pax_record(b"GNU.sparse.size", str(real).encode()), pax_record(b"GNU.sparse.numblocks", str(len(m)).encode()),
                pax_record(b"GNU.sparse.name", name), pax_record(b"GNU.sparse.map", ",".join("%d,%d" % e for e in m).encode())]
        return pax_member(recs) + mk_header(name=b"GNUSparseFile.0/x", size=len(data), mtime=1542905892) + pad512(data)
    if dialect == "mix":
        # GNU.sparse.numbytes records (0.0) and a GNU.sparse.map record (0.1) in one PAX header: the map replaces the list built so far
        # and a later numbytes record starts a new one (pax_header.c:350-353, fix 56b164f) — whatever comes last wins
        k = rng.randint(0, len(m))
        recs = [pax_record(b"GNU.sparse.size", str(real).encode()), pax_record(b"GNU.sparse.numblocks", str(len(m)).encode())]
        for o, c in m[:k]:
            recs += [pax_record(b"GNU.sparse.offset", str(o).encode()), pax_record(b"GNU.sparse.numbytes", str(c).encode())]
        recs.append(pax_record(b"GNU.sparse.map", ",".join("%d,%d" % e for e in (m if rng.random() < 0.5 else m[:max(1, k)])).encode()))
        for o, c in m[k:] if rng.random() < 0.8 else []:
            recs += [pax_record(b"GNU.sparse.offset", str(o).encode()), pax_record(b"GNU.sparse.numbytes", str(c).encode())]
        if rng.random() < 0.3:
            recs.append(pax_record(b"GNU.sparse.map", ",".join("%d,%d" % e for e in m).encode()))
        return pax_member(recs) + mk_header(name=name, size=len(data), mtime=1542905892) + pad512(data)
    # 1.0: the map is a decimal text block in front of the data, padded to 512
    txt = ("%d\n" % len(m) + "".join("%d\n%d\n" % e for e in m)).encode()
    blob = pad512(txt) + data
    recs = [pax_record(b"GNU.sparse.major", b"1"), pax_record(b"GNU.sparse.minor", b"0"), pax_record(b"GNU.sparse.name", name),
            pax_record(b"GNU.sparse.realsize", str(real).encode())]
    return pax_member(recs) + mk_header(name=b"GNUSparseFile.0/x", size=len(blob), mtime=1542905892) + pad512(blob)


def b64_libarchive(rng, v):
    import base64
    t = base64.b64encode(v)
    r = rng.random()
    if r < 0.4:
        t = t.rstrip(b"=")                                    # libarchive drops the padding
    elif r < 0.5:
        t = t.replace(b"=", b"_").replace(b"/", b"-")
    return t


def url_enc(rng, k):
    out = bytearray()
    for c in k:
        if c in b"%= \n" or c >= 0x7f or rng.random() < 0.1:
            out += b"%%%02X" % c if rng.random() < 0.5 else b"%%%02x" % c
        else:
            out.append(c)
    return bytes(out)


def gen_reader_member(rng):
    """(bytes, expectation or None, class).  expectation: dict of the fields a correct reader must report."""
    r = rng.random()
    style = rng.choice(["term", "term", "nul", "lead", "short", "noterm", "b256"])
    uid = rng.choice(NUM_VALUES); gid = rng.choice(NUM_VALUES); mtime = rng.choice(MTIMES)
    if style == "noterm":
        uid %= 1 << 24; gid %= 1 << 24
    if r < 0.30:                                              # plain header in one of the four magic dialects
        dialect = rng.choice(["v7", "ustar", "ustar", "prepos"])
        tf = rng.choice([b"0", b"0", b"\0", b"1", b"2", b"3", b"4", b"5", b"6", b"7", b"D", b"V"])
        nlen = rng.choice([1, 50, 99, 100])
        name = gen_name(rng, nlen)
        prefix = b""
        if dialect == "ustar" and rng.random() < 0.6:
            prefix = gen_name(rng, rng.choice([1, 100, 154, 155]))
        elif rng.random() < 0.2:
            prefix = gen_name(rng, 30)                        # v7 / pre-POSIX: the prefix area is not a prefix
        link = gen_name(rng, rng.choice([1, 99, 100])) if tf in (b"1", b"2") else b""
        size = rng.choice([0, 1, 511, 512, 513, 1024]) if tf in (b"0", b"\0", b"7", b"D") else 0
        if mtime < 0 and style != "b256":
            mtime = -mtime
        maj, minr = (rng.choice([0, 1, 255, 4095]), rng.choice([0, 255, 256, (1 << 20) - 1])) if tf in (b"3", b"4") else (0, 0)
        mode = rng.choice([0o644, 0o755, 0o7777, 0, 0o100644, 0o177777 & ~0o170000 | 0o100000])
        if uid >= 1 << 56 or gid >= 1 << 56:
            uid %= 1 << 56; gid %= 1 << 56
        h = mk_header(name=name, mode=mode, uid=uid, gid=gid, size=size, mtime=mtime, typeflag=tf, linkname=link, dialect=dialect, prefix=prefix,
                      maj=maj, minr=minr, style=style if dialect != "v7" or style != "b256" else "term")
        data = bytes(rng.randrange(256) for _ in range(size))
        full = prefix + b"/" + name if (prefix and dialect == "ustar") else name
        if dialect == "v7":
            maj, minr = 0, 0                                   # a v7 header has no device fields
        exp = dict(name=full, uid=uid, gid=gid, mtime=mtime, size=size, tf=tf, link=link, data=data, perm=mode & 0o7777, maj=maj, min=minr)
        return h + pad512(data), exp, "plain-" + dialect
    if r < 0.42:                                              # GNU long name / link
        nl = rng.choice([100, 101, 155, 256, 257, 1000, 4096, 65535])
        name = gen_name(rng, nl)
        tf = rng.choice([b"0", b"2", b"1", b"5"])
        pre = gnu_long(b"L", name, nul=rng.random() < 0.8)
        link = b""
        if tf in (b"1", b"2"):
            link = gen_name(rng, rng.choice([50, 100, 101, 256, 1000]))
            if len(link) >= 100 or rng.random() < 0.3:
                k = gnu_long(b"K", link, nul=rng.random() < 0.8)
                pre = (k + pre) if rng.random() < 0.5 else (pre + k)
        size = rng.choice([0, 5, 512]) if tf == b"0" else 0
        data = bytes(rng.randrange(256) for _ in range(size))
        h = mk_header(name=name[:100], uid=uid % (1 << 21), gid=gid % (1 << 21), size=size, mtime=abs(mtime) % (1 << 33), typeflag=tf, linkname=link[:100], dialect="gnu")
        exp = dict(name=name, uid=uid % (1 << 21), gid=gid % (1 << 21), mtime=abs(mtime) % (1 << 33), size=size, tf=tf, link=link, data=data, perm=0o644, maj=0, min=0)
        return pre + h + pad512(data), exp, "gnu-long"
    if r < 0.50:                                              # GNU long records with sizes at the accepted limits / malformed
        sz = rng.choice([0, 1, 65536, 65537, 1 << 33])
        tfx = rng.choice([b"L", b"K", b"x"])
        h = mk_header(name=b"././@LongLink", size=sz, typeflag=tfx, dialect="gnu") + pad512(b"a" * min(sz, 70000))
        return h + mk_header(name=b"after", dialect="gnu"), None, "ext-size-limits"
    if r < 0.75:                                              # PAX records
        recs, exp_over = [], {}
        name = gen_name(rng, rng.choice([1, 99, 100, 101, 256, 1000]))
        tf = rng.choice([b"0", b"0", b"2", b"1", b"5"])
        link = gen_name(rng, rng.choice([5, 100, 300])) if tf in (b"1", b"2") else b""
        size = rng.choice([0, 7, 512, 600]) if tf == b"0" else 0
        if rng.random() < 0.7:
            recs.append(pax_record(b"path", name)); exp_over["name"] = name
        if link and rng.random() < 0.7:
            recs.append(pax_record(b"linkpath", link)); exp_over["link"] = link
        if rng.random() < 0.5:
            recs.append(pax_record(b"uid", str(uid).encode())); exp_over["uid"] = uid
        if rng.random() < 0.5:
            recs.append(pax_record(b"gid", str(gid).encode())); exp_over["gid"] = gid
        if rng.random() < 0.5:
            frac = rng.choice([b"", b"", b".5", b".123456789", b".0"])
            recs.append(pax_record(b"mtime", str(mtime).encode() + frac)); exp_over["mtime"] = mtime
        if size and rng.random() < 0.3:
            recs.append(pax_record(b"size", str(size).encode()))
        xat = []
        for _ in range(rng.choice([0, 0, 1, 2, 3])):
            k = rng.choice([b"user.", b"security.", b"trusted.", b"system.posix_acl_"]) + bytes(rng.choice(b"abcXYZ_.09 %=") for _ in range(rng.randint(1, 20)))
            v = bytes(rng.choice([0, 10, 61, 32, 0xff, rng.randrange(256)]) for _ in range(rng.choice([0, 1, 2, 3, 4, 5, 17, 100])))
            if rng.random() < 0.15:                           # '=' / '%' in the name, literal "%25"/"%3D" text included
                k = k[:k.index(b".") + 1] + rng.choice(XKEY_TAILS) + k[-2:]
            r2 = rng.random()
            if r2 < 0.35 and b"=" not in k and b"%25" not in k and b"%3D" not in k:
                recs.append(pax_record(b"SCHILY.xattr." + k, v))                       # verbatim (star, old GNU tar)
            elif r2 < 0.6:
                recs.append(pax_record(b"SCHILY.xattr." + gnu_escape_key(k), v))       # GNU tar >= 1.29: '%' -> %25, '=' -> %3D
            else:
                recs.append(pax_record(b"LIBARCHIVE.xattr." + url_enc(rng, k), b64_libarchive(rng, v)))
            xat.append((k, v))
        for _ in range(rng.choice([0, 0, 1])):
            recs.append(pax_record(rng.choice([b"atime", b"ctime", b"comment", b"SCHILY.dev", b"uname", b"GNU.sparse.numblocks", b"hdrcharset"]), b"12345.678"))
        rng.shuffle(recs)
        if not recs:
            recs.append(pax_record(b"comment", b"x"))          # an empty 'x' payload is refused by read_header (size < 1): documented choice
        pre = b""
        if rng.random() < 0.2:
            pre = pax_member([pax_record(b"comment", b"global"), pax_record(b"mtime", b"7")], name=b"pax_global_header", typeflag=b"g")
        huid, hgid, hmt = rng.choice([0, 1000, (1 << 21) - 1]), rng.choice([0, 1000]), rng.choice([0, 1542905892])
        h = mk_header(name=name[:100], uid=huid, gid=hgid, size=size, mtime=hmt, typeflag=tf, linkname=link[:100], dialect="ustar")
        data = bytes(rng.randrange(256) for _ in range(size))
        exp = dict(name=name[:100], uid=huid, gid=hgid, mtime=hmt, size=size, tf=tf, link=link[:100], data=data, perm=0o644, maj=0, min=0, xattr=xat)
        exp.update(exp_over)
        if b"\0" in b"".join(k for k, _ in xat):
            exp = None
        return pre + pax_member(recs) + h + pad512(data), exp, "pax"
    if r < 0.82:                                              # malformed PAX payloads
        body = rng.choice([
            b"", b"0 a=b\n", b"-5 a=b\n", b"+7 a=b\n", b"7a=b\n", b"6 a=b\n\n", b"99 path=x\n", b" 7 a=b\n", b"7  a=b\n", b"0007 a=b\n", b"5 =b\n", b"6 ab\nc\n",
            b"12 uid=abc\n", b"11 uid=-1\n", b"30 uid=18446744073709551616\n", b"30 uid=18446744073709551609\n", b"30 uid=18446744073709551610\n",
            b"24 mtime=9223372036854775807\n"[:0] + pax_record(b"mtime", b"9223372036854775807"), pax_record(b"mtime", b"9223372036854775806"), pax_record(b"mtime", b"-9223372036854775806"),
            pax_record(b"mtime", b"--1"), pax_record(b"mtime", b".5"), pax_record(b"size", b"12x"), pax_record(b"path", b"a\0b"), pax_record(b"path", b""),
            pax_record(b"LIBARCHIVE.xattr.user.x", b"!!!!"), pax_record(b"LIBARCHIVE.xattr.user.x", b"QQ"), pax_record(b"LIBARCHIVE.xattr.user.x", b"Q"),
            pax_record(b"LIBARCHIVE.xattr.user.x", b"QUJD"), pax_record(b"LIBARCHIVE.xattr.user.x", b"QUI="), pax_record(b"LIBARCHIVE.xattr.user.x", b"QUI=QUJD"),
            pax_record(b"LIBARCHIVE.xattr.user%2", b"QUJD"), pax_record(b"LIBARCHIVE.xattr.user%zz%41", b"QUJDRA"), pax_record(b"LIBARCHIVE.xattr.", b"QUJD"),
            pax_record(b"SCHILY.xattr.", b"v"), pax_record(b"SCHILY.xattrx", b"v"), pax_record(b"SCHILY.xattr", b"v"),
            pax_record(b"GNU.sparse.map", b"1,2,3"), pax_record(b"GNU.sparse.map", b"1,2,"), pax_record(b"GNU.sparse.map", b"1,2x"), pax_record(b"GNU.sparse.map", b""),
            pax_record(b"GNU.sparse.numbytes", b"5"), pax_record(b"GNU.sparse.offset", b"x"),
            pax_record(b"path", b"abc") + b"\0\0\0", pax_record(b"path", b"abc")[:-1], pax_record(b"path", b"abc", length=14), pax_record(b"path", b"abc", length=12),
            bytes(rng.randrange(256) for _ in range(rng.randint(1, 40))),
        ])
        h = mk_header(name=b"pax/x", size=len(body), typeflag=b"x", dialect="ustar") + pad512(body)
        return h + mk_header(name=b"member", size=3, dialect="ustar") + pad512(b"abc"), None, "pax-malformed"
    if r < 0.97 and rng.random() < 0.12:                      # old GNU sparse map of a file larger than 8 GiB: header decode only
        n = rng.choice([2, 3, 4, 5, 8, 25, 30])
        k = rng.randrange(n)                                  # entries from index k on lie beyond 8 GiB
        off, m = 0, []
        for i in range(n):
            off += rng.choice([0, 512, 4096, 1 << 20]) + ((8 ** 11 + rng.choice([0, 0, 4096, 1 << 36])) if i == k else 0)
            c = rng.choice([1, 512, 612, 1000])
            m.append((off, c)); off += c
        real = off + rng.choice([0, 100])
        data = bytes(rng.randrange(1, 256) for _ in range(sum(c for _, c in m)))
        name = gen_name(rng, 7)
        exp = dict(name=name, size=real, tf=b"0", sparse=m, data=None, uid=0, gid=0, mtime=1542905892, link=b"", perm=0o644, maj=0, min=0)
        return sparse_member(rng, name, m, real, data, "old"), exp, "sparse-old-big"
    if r < 0.97:                                              # sparse files
        wf = rng.random() < 0.75
        m, real, data = gen_sparse_map(rng, wf)
        dialect = rng.choice(["old", "0.0", "0.1", "1.0", "mix"])
        name = gen_name(rng, rng.choice([5, 60]))
        if dialect == "mix":                                  # no independent expectation: model = code decides (and ASan: the list that was freed)
            return sparse_member(rng, name, m, real, data, dialect), None, "sparse-mix-0.0-0.1"
        exp = dict(name=name, size=real, tf=b"0", sparse=m, data=spec_expand(m, real, data), uid=0, gid=0, mtime=1542905892, link=b"", perm=0o644, maj=0, min=0) if wf else None
        return sparse_member(rng, name, m, real, data, dialect), exp, "sparse-" + dialect + ("" if wf else "-malformed")
    # header level damage
    k = rng.choice(["badsum", "junkmagic", "zero", "short"])
    if k == "badsum":
        return mk_header(name=b"x", bad_checksum=True), None, "bad-checksum"
    if k == "junkmagic":
        return mk_header(name=b"x", dialect="junk"), None, "bad-magic"
    if k == "zero":
        return b"\0" * 512, None, "single-zero-block"
    return mk_header(name=b"trunc", size=1000) + b"abc", None, "truncated-data"


def dangling_ext_prefix(b):
    """True when `b` (a proper prefix of one generated member) consists of complete extension records only (header + payload +
    padding of 'x' / 'g' / 'L' / 'K'), i.e. the cut fell on the record boundary in front of a later header of the member"""
    pos = 0
    while pos + 512 <= len(b):
        h = b[pos:pos + 512]
        if h[156:157] not in (b"x", b"g", b"L", b"K"):
            return False
        try:
            size = int(h[124:136].rstrip(b" \0") or b"0", 8)
        except ValueError:
            return False
        pos += 512 + (size + 511) // 512 * 512
        if pos == len(b):
            return True
    return False


def monitor_decoded(exp, d):
    """specification of read_header evaluated on the implementation's answer for a well-formed member"""
    bad = []
    if d is None:
        return ["rejected"]
    def hx(t):
        return None if t == "null" else untok(t)
    if hx(d["name"]) != exp["name"]:
        bad.append("name")
    if exp["tf"] in (b"1", b"2") and hx(d["link"]) != exp["link"]:
        bad.append("link")
    for k in ("uid", "gid", "mtime"):
        if int(d[k]) != exp[k]:
            bad.append(k)
    if exp["tf"] in (b"0", b"\0") and int(d["asize"]) != exp["size"]:
        bad.append("size")
    if exp["tf"] in (b"3", b"4") and (int(d["maj"]) != exp["maj"] or int(d["min"]) != exp["min"]):
        bad.append("devno")
    if "xattr" in exp:
        got = [] if d["xattr"] == "-" else [tuple(untok(t) for t in p.split(":")) for p in d["xattr"].split(",")]
        if sorted(got) != sorted(exp["xattr"]):
            bad.append("xattr")
    if "sparse" in exp:
        got = [] if d["sparse"] == "-" else [tuple(int(x) for x in p.split(":")) for p in d["sparse"].split(",")]
        if got != exp["sparse"]:
            bad.append("sparse-map")
    return bad


def parse_iter(line):
    """iter output -> (entries as dicts, end)"""
    parts = line.split(" | ")
    ents = []
    for p in parts[:-1]:
        d = {}
        for kv in p.split():
            k, _, v = kv.partition("=")
            d[k] = v
        ents.append(d)
    return ents, parts[-1]


def unit_reader(ctx, harness, stats):
    rng = ctx.rng
    n = 2500 if ctx.quick() else 40000
    members = [gen_reader_member(rng) for _ in range(n)]
    cdir = vlib.CORPUS / "C04"
    seeds = sorted((vlib.REPO / "lib/tar/test/data").glob("*/*.tar")) + sorted(cdir.glob("*.tar"))
    seed_streams = [p.read_bytes() for p in seeds if p.stat().st_size < 3000000]
    lines = ["dec " + tok(b + b"\0" * 1024) for b, _, _ in members] + ["dec " + tok(s) for s in seed_streams]
    # streams that end in a record shorter than a header: only zero bytes (or nothing) is a clean end of the archive, anything else is
    # an error (fix 800780c) — never `eof`, which tar2sqfs would take for an empty archive
    hdr0 = mk_header(name=b"cut", size=0, dialect="ustar")
    partial = [(b"", "eof"), (b"\0" * 100, "eof"), (b"\0" * 511, "eof"), (b"\0" * 512 + b"\0" * 10, "eof"), (b"\0" * 1024 + b"x", "eof"),
               (b"a" * 100, "err"), (b"x", "err"), (hdr0[:511], "err"), (hdr0[:300], "err"), (b"\0" * 511 + b"\x01", "err"),
               (b"\0" * 512 + b"xyz", "err"), (b"\0" * 512 + hdr0[:257], "err"), (bytes(rng.randrange(1, 256) for _ in range(rng.randint(1, 511))), "err")]
    # streams cut inside an extension record or its padding, inside a 'g' record, inside the extension records of an old GNU sparse
    # header: since /repo 1ef571c `sqfs_istream_skip` reports the early end, so every one of these is an error (never `eof`, never `ok`)
    nm = gen_name(rng, rng.choice([100, 101, 300, 511, 512, 513, 1000]))
    for tfx in (b"L", b"K"):
        rec = gnu_long(tfx, nm)                              # header + payload + padding
        plen = len(nm) + 1
        padl = (-plen) % 512
        cuts = {512 + rng.randint(1, plen - 1)}                                                  # inside the payload
        if padl:
            cuts.add(512 + plen)                                                                 # all padding missing
        if padl > 1:
            cuts |= {len(rec) - 1, len(rec) - rng.randint(1, padl - 1), 512 + plen + 1}          # inside the padding
        partial += [(rec[:c], "err") for c in sorted(cuts)]
    xrec = pax_member([pax_record(b"path", nm), pax_record(b"uid", b"1000")])
    partial += [(xrec[:len(xrec) - 1], "err"), (xrec[:len(xrec) - rng.randint(1, 200)], "err"), (xrec[:512 + rng.randint(1, 50)], "err")]
    grec = pax_member([pax_record(b"comment", b"c" * rng.choice([10, 480, 600]))], name=b"pax_global_header", typeflag=b"g")
    partial += [(grec[:len(grec) - 1], "err"), (grec[:512 + rng.randint(1, 20)], "err"), (grec[:512], "err"),
                (grec + hdr0 + b"\0" * 1024, "ok"), (grec, "eof")]
    plines = ["dec " + tok(b) for b, _ in partial]
    pimpl, pcrash = run_impl(ctx, harness, plines)
    pmodel = run_model(ctx, plines)
    for (b, want), l, a, m in zip(partial, plines, pimpl if not pcrash else ["crash"] * len(plines), pmodel):
        stats["nontrivial"].add(("dec", vlib.sha(l)[:16]))
        if a.split(" ")[0] != want:
            stats["disagreements_checked"] += 1
            kind = ("a stream of %d bytes that ends inside an extension record ('%s', size field %s) or its padding" % (
                len(b), b[156:157].decode("latin1"), b[124:135].decode("latin1").lstrip("0") or "0")) if len(b) >= 512 and b[156:157] in (b"L", b"K", b"x", b"g") else (
                "a stream ending in a %d-byte record (%s)" % (len(b) % 512, "all zero" if not any(b[-(len(b) % 512 or 512):]) else "not zero"))
            report(ctx, "dec-short", "dec:short-record:%s-instead-of-%s" % (a[:8], want), "read_header on %s answers %s, must be %s%s" % (
                kind, a[:60], want, ": a damaged/truncated archive is taken for a clean end" if want == "err" else ""), {"unit": [l]})
        elif a != m:
            stats["disagreements_checked"] += 1
            report(ctx, "dec-short-corr", "dec-short:" + vlib.sha(l)[:12], "read_header on a short record: code %s model %s" % (a[:60], m[:60]), {"unit": [l]}, found_input=False)
    stats["evaluations"] += 2 * len(plines)
    stats["dec_partial_records"] = len(plines)
    impl, crash = run_impl(ctx, harness, lines)
    if crash:
        k, rc, err = crash
        ctx.violation("crash:dec", "read_header aborted (rc=%s): %s" % (rc, err[-400:]), {"unit": [lines[min(k, len(lines) - 1)]], "stderr": err})
        return
    model = run_model(ctx, lines)
    hist, d22 = {}, 0
    expl = dict(zip([i for i in range(len(lines)) if impl[i] != model[i]],
                    classify_reader_batch(ctx, "dec", [(lines[i], impl[i]) for i in range(len(lines)) if impl[i] != model[i]], stats)))
    for i, l in enumerate(lines):
        b, exp, cls = members[i] if i < len(members) else (None, None, "seed-archive")
        hist[cls] = hist.get(cls, 0) + 1
        stats["nontrivial"].add(("dec", vlib.sha(l)[:16]))
        bad = monitor_decoded(exp, parse_dec(impl[i])) if exp is not None else []
        if impl[i] == model[i]:
            if bad:
                stats["disagreements_checked"] += 1
                report(ctx, "dec-spec", "dec-spec:%s:%s" % (cls, "+".join(bad)), "read_header decodes a well-formed %s member wrongly (%s): %s" % (cls, bad, impl[i][:300]),
                       {"unit": [l]})
            continue
        stats["disagreements_checked"] += 1
        if not expl[i]:
            report(ctx, "dec-corr", "dec:" + vlib.sha(l)[:12], "read_header: model and code differ on a %s member: impl=%s model=%s" % (cls, impl[i][:300], model[i][:300]),
                   {"unit": [l]}, found_input=bool(bad))
    stats["evaluations"] += 3 * len(lines)
    stats["dec_members"] = len(lines)
    stats["dec_classes"] = hist
    stats["samples"].append({"op": "dec <%s member, %d bytes>" % (members[1][2], len(members[1][0])), "impl": impl[1][:300]})

    # whole archives through the iterator (sparse expansion, record/padding accounting)
    archives = []
    for _ in range(400 if ctx.quick() else 6000):
        k = rng.randint(1, 5)
        # (the models expand a file into a list: nothing of 8 GiB through `iter`)
        ms = [m for m in (gen_reader_member(rng) for _ in range(k)) if m[2] != "sparse-old-big"]
        if not ms:
            continue
        if rng.random() < 0.7:
            ms = [m for m in ms if m[1] is not None or m[2].startswith("sparse")] or ms
        body = b"".join(m[0] for m in ms)
        end, want_end = rng.choice([(b"\0" * 1024, 1), (b"\0" * 1024, 1), (b"\0" * 512, 1), (b"", 1), (b"\0" * 10240, 1),
                                    # … and archives that end in a partial record (zero: clean end; not zero: error), with/without end marker
                                    (b"\0" * 100, 1), (b"\0" * 512 + b"\0" * 17, 1), (b"\0" * 1024 + b"x", 1),
                                    (b"garbage, not a header", -1), (mk_header(name=b"cut")[:511], -1), (b"\0" * 512 + b"x", -1),
                                    (b"\0" * 511 + b"\x01", -1), (mk_header(name=b"cut", size=5)[:rng.randint(1, 500)], -1)])
        cut = None
        if rng.random() < 0.3:
            # the archive ends *inside* a member (header, extension record, data, padding) and has no end marker: never a clean end.
            # Since /repo 1ef571c the skip of data/padding reports the early end too, so all of these are errors.
            j = rng.randrange(len(ms))
            start = sum(len(m[0]) for m in ms[:j])
            mlen = len(ms[j][0])
            where = rng.choice(["head", "tail", "tail", "tail1", "blocks", "any"])
            if where == "head":
                p = rng.randint(1, 511)
            elif where == "tail":
                p = mlen - rng.randint(1, 511)                 # inside the padding, or the last bytes of the data
            elif where == "tail1":
                p = mlen - 1
            elif where == "blocks":
                p = 512 * rng.randint(1, max(1, mlen // 512 - 1)) + rng.choice([0, 0, 1, 511])   # on a record boundary inside the member
            else:
                p = rng.randint(1, mlen - 1)
            p = min(max(p, 1), mlen - 1)
            if not any(ms[j][0][:p]):
                # (the "member" is a zero block of the header-damage class: what is left of it is a partial all-zero record, a clean end)
                where = "inside-zero-block"
                want_cut_end = 0
            elif dangling_ext_prefix(ms[j][0][:p]):
                # only complete extension records ('x'/'g'/'L'/'K') of the member are left and the header they belong to is missing:
                # read_header takes the end of input at a record boundary for the end of the archive whatever it has accumulated
                # (an archive needs no end marker) — noted in docs/design/C04.md, expected here as the code's documented behaviour
                where = "after-ext-records"
                want_cut_end = 0                              # no expectation of its own: model = code decides
            else:
                want_cut_end = -1
            cut = (j, p, where)
            body, end, want_end = body[:start + p], b"", want_cut_end
            ms = ms[:j + 1]
        archives.append((body + end, ms, want_end, cut))
    # quick tier: the seed archives holding megabyte-sized sparse files (34 KB each, 2 MiB expanded; ~50 s of model time each) go
    # through the iterator in the thorough tier only; their headers are still decoded above, and generated sparse members of every
    # dialect plus sparse-files/gnu-small.tar keep the sparse walk covered
    iter_seeds = [s for s in seed_streams if not ctx.quick() or len(s) < 20000]
    stats["iter_seed_archives"] = len(iter_seeds)
    # the size of the caller's read requests is part of the stream's contract (tar2sqfs reads in blocks, sqfs_istream_read callers
    # in anything): a third of the archives go through `iterw` with another request size
    wants = [rng.choice([512, 512, 1, 7, 100, 511, 513, 4096, 4097, 65536]) if rng.random() < 0.35 else 512 for _ in archives]
    stats["iter_request_sizes"] = {str(w): wants.count(w) for w in sorted(set(wants))}
    lines = [("iter " if w == 512 else "iterw %d " % w) + tok(a) for (a, _, _, _), w in zip(archives, wants)] + ["iter " + tok(s) for s in iter_seeds]
    impl, crash = run_impl(ctx, harness, lines)
    if crash:
        k, rc, err = crash
        ctx.violation("crash:iter", "tar iterator aborted (rc=%s): %s" % (rc, err[-400:]), {"unit": [lines[min(k, len(lines) - 1)]], "stderr": err})
        return
    # the model expands a sparse file into a list (quadratic in the file size): the few seed archives with megabyte-sized sparse files
    # each take the better part of a minute, so they run next to each other (5 processes) instead of one after the other
    from concurrent.futures import ThreadPoolExecutor
    na = len(archives)
    with ThreadPoolExecutor(max_workers=5) as ex:
        fut_main = ex.submit(run_model, ctx, lines[:na])
        futs = [ex.submit(run_model, ctx, [l]) for l in lines[na:]]
        model = fut_main.result() + [f.result()[0] for f in futs]
    nsparse, ncut, cut_hist = 0, 0, {}
    expl = dict(zip([i for i in range(len(lines)) if impl[i] != model[i]],
                    classify_reader_batch(ctx, "iter", [(lines[i], impl[i]) for i in range(len(lines)) if impl[i] != model[i]], stats)))
    for i, l in enumerate(lines):
        ms = archives[i][1] if i < len(archives) else []
        stats["nontrivial"].add(("iter", vlib.sha(l)[:16]))
        # specification on the implementation: every well-formed member (all members well-formed) is delivered with its data expanded
        bad = []
        cut = archives[i][3] if i < len(archives) else None
        if cut is not None:
            ncut += 1
            cut_hist[cut[2]] = cut_hist.get(cut[2], 0) + 1
            ents, end = parse_iter(impl[i])
            if archives[i][2] and end != "end=%d" % archives[i][2]:
                bad.append("end: %s for an archive cut %d bytes into its last member (%s, %d bytes, no end marker): a truncated archive is taken "
                           "for a complete one" % (end, cut[1], ms[-1][2], len(ms[-1][0])))
        elif ms and all(m[1] is not None for m in ms):
            ents, end = parse_iter(impl[i])
            want = [m[1] for m in ms if m[1]["tf"] in (b"0", b"\0", b"1", b"2", b"3", b"4", b"5", b"6")]
            if len(ents) != len(want):
                bad.append("entry-count %d != %d" % (len(ents), len(want)))
            else:
                for e, w in zip(ents, want):
                    if w["tf"] in (b"0", b"\0"):
                        if "sparse" in w:
                            nsparse += 1
                        if e.get("data") == "big":
                            if int(e.get("len", -1)) != len(w["data"]):
                                bad.append("length of %r" % w["name"][:20])
                            continue
                        got = untok(e.get("data", "")) if e.get("data", "corrupted") != "corrupted" else None
                        if got is None or got != w["data"] or int(e.get("len", -1)) != len(w["data"]):
                            bad.append("data of %r" % w["name"][:20])
            if end != "end=%d" % archives[i][2]:
                bad.append("end: %s, expected end=%d (%s)" % (end, archives[i][2], "partial non-zero record at the end" if archives[i][2] < 0 else "clean end"))
        if impl[i] == model[i]:
            if bad:
                stats["disagreements_checked"] += 1
                report(ctx, "iter-spec", "iter-spec:" + vlib.sha(l)[:12], "tar iterator mishandles a well-formed archive (%s)" % bad, {"unit": [l]})
            continue
        stats["disagreements_checked"] += 1
        if not expl[i]:
            report(ctx, "iter-corr", "iter:" + vlib.sha(l)[:12], "tar iterator: model and code differ: impl=%s model=%s" % (impl[i][:300], model[i][:300]),
                   {"unit": [l]}, found_input=bool(bad))
    stats["evaluations"] += 3 * len(lines)
    stats["iter_archives"] = len(lines)
    stats["iter_sparse_files_checked_against_spec"] = nsparse
    stats["iter_archives_cut_inside_a_member"] = {"total": ncut, "where": cut_hist}
    if ncut == 0 or nsparse == 0:
        raise vlib.CheckFailure("iterator generator produced %d cut archives and %d sparse files checked against the specification" % (ncut, nsparse))


# ------------------------------------------------------------------ conversion model (process_tarball + fstree_add_generic) vs the real tar2sqfs
KEY_D25 = "D25:retarget-clobbers-unprefixed-symlink"
LINK_POOL = [b"/usr/bin/x", b"r/x", b"r//x/", b"./r/y", b"../up", b"./x/../y", b"a//b", b"dir/", b"r", b"rx/y", b"/r/z", b"a/b/c", b"a/b//c/.", b"x",
             b"r/../q", b"./", b"/", b"a/b", b"../r/x", b"r/./x", b"//r//x"]


def unit_canon_inplace(ctx, harness, stats):
    rng = ctx.rng
    ins = list(LINK_POOL)
    for _ in range(1500 if ctx.quick() else 30000):
        k = rng.randint(1, 8)
        ins.append(b"".join(rng.choice([b"/", b"//", b".", b"..", b"./", b"../", b"a", b"bc", b"r", b"/.", b"/..", b"...", b" "]) for _ in range(k)))
    lines = ["canonip " + tok(x) for x in ins if x]
    impl, crash = run_impl(ctx, harness, lines)
    if crash:
        ctx.violation("crash:canonip", "canonicalize_name aborted: %s" % crash[2][-300:], {"unit": [lines[min(crash[0], len(lines) - 1)]]})
        return
    model = run_model(ctx, lines)
    for l, a, b in zip(lines, impl, model):
        stats["nontrivial"].add(("canonip", l))
        if a != b:
            stats["disagreements_checked"] += 1
            report(ctx, "canonip", "canonip:" + l[8:], "canonicalize_name as a buffer transformer: code %s model %s on %s" % (a, b, l), {"unit": [l]}, found_input=False)
    stats["evaluations"] += 2 * len(lines)
    stats["canon_inplace_inputs"] = len(lines)


def gen_conv_archive(rng, rb=b""):
    """small archive with colliding names (mostly below `rb` when --root-becomes is used)"""
    comps = [b"a", b"b", b"c", b"r", b"d1", b"x", b"y", b"rx", b"q"]
    if rng.random() < 0.12:                                   # name components at the SquashFS limit: 255/256 are stored, 257+ refused
        comps = comps + [b"L" * rng.choice([255, 256, 257, 300])]
    def hdr(name, **kw):
        if len(name) > 99:                                    # long names travel in a GNU 'L' record
            kw["dialect"] = "gnu"
            return gnu_long(b"L", name) + mk_header(name=name[:100], **kw)
        return mk_header(name=name, **kw)

    n = rng.randint(1, 9)
    out = b""
    used, nondirs = [], []
    for _ in range(n):
        depth = rng.choice([0, 1, 1, 2, 2, 3])
        path = b"/".join(rng.choice(comps) for _ in range(depth)) if depth else rng.choice([b"./", b"/", b".", b"r", b"r/", b"a/b/", b"./r"])
        if used and rng.random() < 0.08:
            path = rng.choice(used)                           # the same name again (EEXIST unless an implicit directory is made explicit)
            depth = 0
        used.append(path)
        if depth and rb and rng.random() < 0.7:
            path = rb + b"/" + path
            used[-1] = path
        elif depth and rng.random() < 0.3:
            path = rng.choice([b"./", b"/", b"r/", b"a/b/", b".//"]) + path
        kind = rng.choice(["dir", "dir", "file", "file", "slink", "slink", "fifo", "chr", "blk", "hard", "hard"] if nondirs else
                          ["dir", "dir", "file", "file", "slink", "slink", "fifo", "chr", "blk"])
        if kind not in ("dir", "hard") and depth:
            nondirs.append(path)
        uid, gid = rng.choice([0, 1, 1000, 65534, (1 << 32) - 1]), rng.choice([0, 5, 1000])
        mtime = rng.choice([0, 1, 1542905892, (1 << 31), (1 << 32) - 1, 1 << 32, (1 << 33) + 7, -1, -(1 << 31)])
        style = "b256" if mtime < 0 or mtime >= 1 << 33 else rng.choice(["term", "nul", "b256"])
        mode = rng.choice([0o644, 0o755, 0o700, 0o7777, 0])
        if kind == "dir":
            if rng.random() < 0.7 and not path.endswith(b"/"):
                path += b"/"
            out += hdr(name=path, mode=mode, uid=uid, gid=gid, mtime=mtime, typeflag=b"5", dialect=rng.choice(["ustar", "gnu", "v7"]), style=style)
        elif kind == "file":
            data = bytes(rng.randrange(256) for _ in range(rng.choice([0, 1, 5, 512, 700])))
            out += hdr(name=path, mode=mode, uid=uid, gid=gid, mtime=mtime, size=len(data), typeflag=b"0", dialect="ustar", style=style) + pad512(data)
        elif kind == "slink":
            out += hdr(name=path, mode=0o777, uid=uid, gid=gid, mtime=mtime, typeflag=b"2", linkname=rng.choice(LINK_POOL), dialect="gnu", style=style)
        elif kind == "fifo":
            out += hdr(name=path, mode=mode, uid=uid, gid=gid, mtime=mtime, typeflag=b"6", dialect="ustar", style=style)
        elif kind == "hard":
            # hard link record (typeflag '1'): the `hardLink` branches of convStep / processEntry (retarget below --root-becomes even
            # with -S) / addGeneric (canonical target, S_IFLNK|0777 node); target: an earlier or later member, a name that does not
            # exist, a directory, itself, something outside the new root, a non-canonical spelling
            if nondirs and rng.random() < 0.8:
                tgt = rng.choice(nondirs)                     # an earlier member that is not a directory, under its archive name
                if rng.random() < 0.3:
                    tgt = rng.choice([b"./", b"/", b""]) + tgt.replace(b"/", b"//", 1)
            else:
                tgt = rng.choice([u for u in used[:-1] if u] + [b"a", b"r/x", b"nowhere", b"./" + path, b"a//b/", b"../up", b"/r/a"])
            out += hdr(name=path, mode=mode, uid=uid, gid=gid, mtime=mtime, typeflag=b"1", linkname=tgt[:99], dialect=rng.choice(["ustar", "gnu"]), style=style)
        else:
            out += hdr(name=path, mode=mode, uid=uid, gid=gid, mtime=mtime, typeflag=b"3" if kind == "chr" else b"4", dialect="ustar", style=style,
                             maj=rng.choice([0, 1, 8, 255, 4095]), minr=rng.choice([0, 1, 255, 256, (1 << 20) - 1]))
    return out + b"\0" * 1024


def observe_image(ctx, tools, img):
    """tree of an image as sorted describe-like lines with mtimes; None on failure"""
    import io, tarfile
    env = ctx.san_env({"TZ": "UTC", "LC_ALL": "C"})
    r = vlib.sh([str(tools["rdsquashfs"]), "-d", str(img)], env=env, timeout=600)
    if r.returncode != 0:
        return None, "rdsquashfs -d failed: " + r.stderr[-300:]
    r2 = vlib.sh([str(tools["sqfs2tar"]), "--no-hard-links", str(img)], env=env, timeout=600, text=False)
    if r2.returncode != 0:
        return None, "sqfs2tar failed: " + r2.stderr.decode("latin1")[-300:]
    mt = {}
    with tarfile.open(fileobj=io.BytesIO(r2.stdout), mode="r:") as tf:
        for m in tf:
            mt[m.name.rstrip("/")] = int(m.mtime)
    from checks import c04_tools
    desc, bad = c04_tools.parse_describe(r.stdout.encode("latin1"))     # handles the old and the new (quoted/escaped, root line) format
    if bad:
        return None, "unparsable describe output: %s" % bad[:2]
    lines = []
    for path, dn in desc.items():
        x = "%s %s 0%o %d %d mtime=%s" % (dn.type, tok(path), dn.perm, dn.uid, dn.gid, mt.get(path.decode("latin1"), "?"))
        if dn.type == "slink":
            x += " " + tok(dn.extra or b"")
        elif dn.type == "nod":
            x += " " + (dn.extra or b"").decode("latin1")
        lines.append(x)
    return sorted(lines), None


def run_conv_case(ctx, tools, d, i, case):
    """the real tar2sqfs on one generated archive -> ("ok", sorted tree lines) | ("fail", msg) | ("crash"|"timeout"|"observe-error", msg)"""
    arc, rb, sflag, kflag, dm, du, dg, dmode = case
    env = ctx.san_env()
    img = d / ("c%d.sqfs" % i)
    cmd = [str(tools["tar2sqfs"]), "-q", "-f", "-j", "1", "--defaults", "mtime=%d,uid=%d,gid=%d,mode=0%o" % (dm, du, dg, dmode)]
    if rb:
        cmd += ["--root-becomes", rb.decode()]
    if sflag:
        cmd.append("-S")
    if kflag:
        cmd.append("-k")
    try:
        r = vlib.sh(cmd + [str(img)], input=arc, env=env, timeout=1200, text=False)
    except Exception as e:
        return ("timeout", str(e))
    if r.returncode >= 90 or r.returncode < 0:
        return ("crash", "exit %d: %s" % (r.returncode, r.stderr.decode("latin1")[-600:]))
    if r.returncode != 0:
        return ("fail", r.stderr.decode("latin1")[-200:])
    obs, err = observe_image(ctx, tools, img)
    try:
        img.unlink()
    except OSError:
        pass
    if obs is None:
        return ("observe-error", err)
    return ("ok", obs)


def norm_conv_model(line):
    """the model's tree as sorted describe-like lines.  The conversion model stops in front of `fstree_post_process` (hard-link
    resolution is C07's): a `hardlink <path> <target>` node is resolved here the way the image shows it — the path carries the
    attributes of the inode the chain of targets ends in; a missing target, a directory or a loop makes tar2sqfs fail."""
    if not line.startswith("ok"):
        return "fail"
    body = line[3:].strip()
    rows = [x for x in body.split(";") if x] if body else []
    by_path = {r.split(" ")[1]: r for r in rows}
    out = []
    for r in rows:
        f = r.split(" ")
        if f[0] != "hardlink":
            out.append(r)
            continue
        seen, cur = {f[1]}, r
        while cur.split(" ")[0] == "hardlink":
            t = cur.split(" ")[2]
            if t in seen or t not in by_path:
                return "fail"
            seen.add(t)
            cur = by_path[t]
        g = cur.split(" ")
        if g[0] == "dir":
            return "fail"
        out.append(" ".join([g[0], f[1]] + g[2:]))
    return sorted(out)


def tool_conv(ctx, harness, stats):
    """process_tarball + fstree_add_generic model vs the real tar2sqfs (built from the working tree) on small colliding archives"""
    rng = ctx.rng
    tools = {t: ctx.build_tool(t) for t in ("tar2sqfs", "rdsquashfs", "sqfs2tar")}
    d = ctx.scratch / "conv"
    d.mkdir(exist_ok=True)
    n = 160 if ctx.quick() else 3000
    cases = []
    for i in range(n):
        rb = rng.choice([b"", b"", b"r", b"r", b"a/b", b"x"])
        arc = gen_conv_archive(rng, rb)
        sflag = rng.random() < 0.3
        kflag = rng.random() < 0.25
        dm, du, dg, dmode = rng.choice([0, 0, 77, 1542905892]), rng.choice([0, 1000]), rng.choice([0, 7]), rng.choice([0o755, 0o700])
        cases.append((arc, rb, sflag, kflag, dm, du, dg, dmode))
    lines = ["t2s %s %d %d %d %d %d %o %s" % (tok(rb), sflag, kflag, dm, du, dg, dmode, tok(arc)) for arc, rb, sflag, kflag, dm, du, dg, dmode in cases]
    model = run_model(ctx, lines)
    cur = run_model(ctx, ["t2scur" + l[3:] for l in lines])
    hist = {"model_ok": 0, "model_fail": 0, "root_becomes": 0, "no_keep_time": 0, "d25_seen": 0, "hard_link_nodes_in_model_trees": 0, "both_ok": 0}

    def one(i):
        return run_conv_case(ctx, tools, d, i, cases[i])

    from concurrent.futures import ThreadPoolExecutor
    with ThreadPoolExecutor(max_workers=3) as ex:
        results = list(ex.map(one, range(len(cases))))

    norm_model = norm_conv_model
    for i, (st, obs) in enumerate(results):
        arc, rb, sflag, kflag = cases[i][:4]
        replay = {"unit": [lines[i]], "tar2sqfs": {"archive_hex": tok(arc), "root_becomes": rb.decode(), "S": sflag, "k": kflag, "defaults": list(cases[i][4:])}}
        stats["nontrivial"].add(("t2s", vlib.sha(lines[i])[:16]))
        hist["root_becomes"] += bool(rb); hist["no_keep_time"] += bool(kflag)
        want = norm_model(model[i])
        hist["model_ok" if want != "fail" else "model_fail"] += 1
        hist["hard_link_nodes_in_model_trees"] += model[i].count("hardlink ") if want != "fail" else 0
        hist["both_ok"] += want != "fail" and st == "ok" 
        if st in ("crash", "timeout"):
            ctx.violation("crash:tar2sqfs:" + vlib.sha(lines[i])[:10], "tar2sqfs %s: %s" % (st, obs), replay)
            continue
        got = "fail" if st == "fail" else obs
        if st == "observe-error":
            stats["disagreements_checked"] += 1
            report(ctx, "conv-observe", "conv-observe:" + vlib.sha(lines[i])[:10], "image produced by tar2sqfs cannot be read back: %s" % obs, replay)
            continue
        if got == want:
            continue
        stats["disagreements_checked"] += 1
        if got == norm_model(cur[i]):
            hist["d25_seen"] += 1
            ctx.violation(KEY_D25, "tar2sqfs --root-becomes rewrites a symlink target that is not below the new root: got %s, expected %s" % (
                [x for x in got if x not in want][:3], [x for x in want if x not in got][:3]), replay)
        else:
            gd = [x for x in got if x not in want][:4] if got != "fail" and want != "fail" else got if got == "fail" else "ok"
            wd = [x for x in want if x not in got][:4] if got != "fail" and want != "fail" else want if want == "fail" else "ok"
            report(ctx, "conv", "conv:" + vlib.sha(lines[i])[:10], "tar2sqfs and the conversion model disagree (opts rb=%r S=%s k=%s): tool %s / model %s" % (
                rb, sflag, kflag, gd, wd), replay)
    stats["evaluations"] += 2 * len(lines) + len(cases)
    stats["conv_cases"] = len(cases)
    stats["conv_hist"] = hist
    # a `fail` = `fail` agreement compares nothing but the status: the comparison must not consist of those
    if hist["both_ok"] * 4 < len(cases) or hist["hard_link_nodes_in_model_trees"] == 0:
        raise vlib.CheckFailure("conversion tie: only %d of %d cases converted by both sides, %d hard links in compared trees" % (
            hist["both_ok"], len(cases), hist["hard_link_nodes_in_model_trees"]))


# ------------------------------------------------------------------ xattr names with '=' / '%' through the real tools (fix-point of the xattr set)
def gnu_unescape_key(k):
    out, i = bytearray(), 0
    while i < len(k):
        if k[i:i + 3] == b"%25":
            out += b"%"; i += 3
        elif k[i:i + 3] == b"%3D":
            out += b"="; i += 3
        else:
            out.append(k[i]); i += 1
    return bytes(out)


def schily_pairs(tar_bytes):
    """{member name: [(key, value)]} from the PAX 'x' records of an archive, SCHILY.xattr keywords un-escaped by GNU tar's rule;
    own block walker (no tar reader involved).  None when the archive is not well-formed."""
    out, pending, pos = {}, [], 0
    while pos + 512 <= len(tar_bytes):
        h = tar_bytes[pos:pos + 512]
        pos += 512
        if h == b"\0" * 512:
            continue
        try:
            size = int(h[124:136].rstrip(b" \0") or b"0", 8)
        except ValueError:
            return None
        tf = h[156:157]
        payload = tar_bytes[pos:pos + size]
        pos += (size + 511) // 512 * 512
        if tf == b"x":
            p = 0
            while p < len(payload):
                sp = payload.find(b" ", p)
                if sp < 0 or not payload[p:sp].isdigit():
                    return None
                L = int(payload[p:sp])
                body = payload[sp + 1:p + L - 1]
                kw, eq, val = body.partition(b"=")
                if not eq or L <= 0:
                    return None
                if kw.startswith(b"SCHILY.xattr."):
                    pending.append((gnu_unescape_key(kw[13:]), val))
                p += L
        elif tf in (b"L", b"K"):
            continue
        else:
            name = h[:100].split(b"\0")[0]
            out[name] = pending
            pending = []
    return out


def run_xkey_case(ctx, tools, d, tag, arc):
    """two rounds tar2sqfs -> sqfs2tar starting from `arc`; returns (failure message or None, [pairs of member f in tar1, in tar2])"""
    env = ctx.san_env()
    cur, tars = arc, []
    for rnd in (1, 2):
        img = d / ("x%s_%d.sqfs" % (tag, rnd))
        r = sh_t([str(tools["tar2sqfs"]), "-q", "-f", "-j", "1", str(img)], input=cur, env=env, timeout=600, text=False)
        if r.returncode != 0:
            return "tar2sqfs (round %d) exit %d: %s" % (rnd, r.returncode, r.stderr.decode("latin1")[-300:]), []
        r = sh_t([str(tools["sqfs2tar"]), str(img)], env=env, timeout=600, text=False)
        try:
            img.unlink()
        except OSError:
            pass
        if r.returncode != 0:
            return "sqfs2tar (round %d) exit %d: %s" % (rnd, r.returncode, r.stderr.decode("latin1")[-300:]), []
        tars.append(r.stdout)
        cur = r.stdout
    got = [schily_pairs(t) for t in tars]
    return None, [sorted(g.get(b"f", [])) if g is not None else None for g in got]


def xkey_verdict(pairs, fail, obs):
    """'ok' | 'known' (exactly what the code before fixes/C04-xattr-key-escape.patch does) | 'bad'"""
    if fail:
        return "bad"
    want = sorted(pairs)
    if obs[0] == want and obs[1] == want:
        return "ok"
    # unrepaired: the record is `name=value` verbatim and every reader (ours, GNU tar, this walker) splits it at the first '='
    verbatim = sorted((gnu_unescape_key((k + b"=" + v).partition(b"=")[0]), (k + b"=" + v).partition(b"=")[2]) for k, v in pairs)
    # (a second round may drop what the first one mangled into an unusable name such as `security.`)
    return "known" if obs[0] == verbatim and obs[1] is not None and all(x in verbatim for x in obs[1]) else "bad"


def tool_xattr_keys(ctx, harness, stats):
    """an image whose inode has xattr names containing '=' / '%': img1 -> sqfs2tar -> tar2sqfs -> img2 -> sqfs2tar must keep every
    (name, value) pair (C04: conversion preserves the archive; fix-point).  The names get into img1 through LIBARCHIVE.xattr records
    (url-encoded), which tar2sqfs reads without involving the SCHILY code path.  Observer: an own walker over sqfs2tar's output that
    reads SCHILY.xattr keywords the way GNU tar does (split at the first '=', then %3D/%25 un-escaped)."""
    import base64
    rng = ctx.rng
    tools = {t: ctx.build_tool(t) for t in ("tar2sqfs", "sqfs2tar")}
    d = ctx.scratch / "xkey"
    d.mkdir(exist_ok=True)
    tails = list(XKEY_TAILS) + [b"plain", b"a.b"]
    rng.shuffle(tails)
    ncase = 5 if ctx.quick() else 40
    seen = {"cases": 0, "pairs": 0, "fixpoint_ok": 0, "unrepaired_behaviour": 0}
    for ci in range(ncase):
        pairs = []
        for _ in range(rng.randint(1, 3)):
            k = rng.choice([b"user.", b"trusted.", b"security."]) + tails[(ci * 3 + len(pairs)) % len(tails)] + bytes(rng.choice(b"ab=%") for _ in range(rng.randint(0, 3)))
            if k in [p[0] for p in pairs]:
                continue
            pairs.append((k, bytes(rng.choice([0, 10, 61, 37, 65, rng.randrange(256)]) for _ in range(rng.choice([0, 1, 5, 40])))))
        recs = [pax_record(b"LIBARCHIVE.xattr." + url_enc(rng, k), base64.b64encode(v)) for k, v in pairs]
        arc = pax_member(recs) + mk_header(name=b"f", size=3, mtime=1542905892, dialect="ustar") + pad512(b"abc") + b"\0" * 1024
        replay = {"xkey": {"archive_hex": tok(arc), "pairs": [[tok(k), tok(v)] for k, v in pairs]}}
        seen["cases"] += 1; seen["pairs"] += len(pairs)
        stats["nontrivial"].add(("xkey", vlib.sha(tok(arc))[:16]))
        fail, obs = run_xkey_case(ctx, tools, d, str(ci), arc)
        stats["evaluations"] += 4
        verdict = xkey_verdict(pairs, fail, obs)
        if verdict == "ok":
            seen["fixpoint_ok"] += 1
            continue
        stats["disagreements_checked"] += 1
        if verdict == "known":
            seen["unrepaired_behaviour"] += 1
            stats["known_xkey_seen"] = stats.get("known_xkey_seen", 0) + 1
            ctx.violation(KEY_XKEY, "sqfs2tar writes `SCHILY.xattr.<name>=<value>` with the xattr name verbatim; a PAX keyword ends at the first '=' "
                          "(and GNU tar un-escapes %%3D/%%25), so an inode with the attributes %s comes back from sqfs2tar | tar2sqfs (and from GNU tar) "
                          "with %s" % ([(k, v[:12]) for k, v in sorted(pairs)][:3], [(k, v[:12]) for k, v in obs[1]][:3]), replay,
                          found_input=any(b"=" in k for k, _ in pairs) or sorted(pairs) != obs[1])
        elif fail and (" exit 9" in fail or " exit -" in fail):
            ctx.violation("crash:xkey:" + vlib.sha(tok(arc))[:10], "xattr name with '='/'%%': %s" % fail, replay)
        else:
            report(ctx, "xkey", "xkey:" + vlib.sha(tok(arc))[:10], "xattr set not preserved by sqfs2tar/tar2sqfs: stored %s, after one round %s, after two %s%s" % (
                sorted(pairs)[:3], obs[0][:3] if obs and obs[0] else None, obs[1][:3] if obs and obs[1] else None, (" — " + fail) if fail else ""), replay)
    stats["xattr_key_fixpoint"] = seen


# ------------------------------------------------------------------ tar2sqfs options no other generator passes: --exclude-dir, --no-skip
def exclude_verdict(ctx, tools, d, tag, arc, pats):
    """tar2sqfs -E on a flat archive of one-byte files: (None if as specified else message, number of excluded members)"""
    import fnmatch
    members = [arc[o:o + 100].split(b"\0")[0] for o in range(0, len(arc) - 1024, 1024)]
    kept = [n for n in members if not any(fnmatch.fnmatchcase(n.decode(), p) for p in pats)]
    want = set()
    for n in kept:
        parts = n.split(b"/")
        for k in range(1, len(parts) + 1):
            want.add(b"/".join(parts[:k]))
    img = d / ("e%s.sqfs" % tag)
    cmd = [str(tools["tar2sqfs"]), "-q", "-f", "-j", "1"]
    for p in pats:
        cmd += ["-E", p]
    r = sh_t(cmd + [str(img)], input=arc, env=ctx.san_env(), timeout=600, text=False)
    if r.returncode != 0:
        return "tar2sqfs -E %s fails (exit %d): %s" % (pats, r.returncode, r.stderr.decode("latin1")[-200:]), len(members) - len(kept)
    obs, err = observe_image(ctx, tools, img)
    try:
        img.unlink()
    except OSError:
        pass
    got = None if obs is None else set(p for p in (untok(l.split()[1]) for l in obs) if p)          # without the root line
    if got != want:
        return "tar2sqfs -E %s on members %s: stored %s, expected %s%s" % (pats, members, sorted(got) if got is not None else None, sorted(want),
                                                                           (" (" + err + ")") if err else ""), len(members) - len(kept)
    return None, len(members) - len(kept)


def noskip_verdict(ctx, tools, d, tag, arc, flags):
    img = d / ("n%s.sqfs" % tag)
    r = sh_t([str(tools["tar2sqfs"]), "-q", "-f", "-j", "1"] + flags + [str(img)], input=arc, env=ctx.san_env(), timeout=600, text=False)
    try:
        img.unlink()
    except OSError:
        pass
    must_fail = "--no-skip" in flags
    if r.returncode >= 90 or r.returncode < 0 or (r.returncode != 0) != must_fail:
        return "an xattr with a prefix SquashFS cannot store (system.), tar2sqfs %s: exit %d, expected %s — %s" % (
            " ".join(flags) or "(default)", r.returncode, "failure" if must_fail else "success with a warning", r.stderr.decode("latin1")[-200:])
    return None


def big_sparse_verdict(ctx, tools, d, tag, dialect, salt=0, G=1 << 32):
    """a sparse member with data regions before, across and after the mark G (4 GiB; 8 GiB = 8^11 for the old GNU dialect, from where
    on GNU tar writes the map entries as base-256 numbers); None if the image holds exactly the expansion"""
    import random, subprocess
    m = [(0, 512), (G - 512, 1024), (G + 4096 + 512 * (salt % 7), 512)]
    real = m[-1][0] + 512 + 100 + salt % 50
    data = bytes((i * 7 + salt) % 251 + 1 for i in range(2048))                  # no zero byte: holes and data are distinguishable
    arc = sparse_member(random.Random(salt), b"big", m, real, data, dialect) + b"\0" * 1024
    img = d / ("big%s.sqfs" % tag)
    env = ctx.san_env()
    r = sh_t([str(tools["tar2sqfs"]), "-q", "-f", "-j", "1", str(img)], input=arc, env=env, timeout=1800, text=False)
    if r.returncode != 0:
        return "tar2sqfs fails on a %s sparse member with map %s, size %d: exit %d %s" % (dialect, m, real, r.returncode, r.stderr.decode("latin1")[-200:])
    p = subprocess.Popen([str(tools["rdsquashfs"]), "-c", "big", str(img)], env=env, stdout=subprocess.PIPE, stderr=subprocess.DEVNULL)
    pos, bad, dpos = 0, None, 0
    regions = []
    o = 0
    for off, cnt in m:
        regions.append((off, cnt, o)); o += cnt
    while True:
        b = p.stdout.read(1 << 22)
        if not b:
            break
        if bad is None:
            exp_nonzero = [(off, cnt, so) for off, cnt, so in regions if off < pos + len(b) and off + cnt > pos]
            if not exp_nonzero:
                if b.count(0) != len(b):
                    bad = "non-zero byte in a hole at [%d, %d)" % (pos, pos + len(b))
            else:
                want = bytearray(len(b))
                for off, cnt, so in exp_nonzero:
                    lo, hi = max(off, pos), min(off + cnt, pos + len(b))
                    want[lo - pos:hi - pos] = data[so + lo - off:so + hi - off]
                if bytes(want) != b:
                    bad = "wrong content in [%d, %d)" % (pos, pos + len(b))
        pos += len(b)
    p.wait()
    try:
        img.unlink()
    except OSError:
        pass
    if p.returncode != 0:
        return "rdsquashfs -c fails on the image of a %s sparse member beyond 4 GiB (exit %d)" % (dialect, p.returncode)
    if pos != real:
        return "%s sparse member with map %s: stored file has %d bytes, expected %d" % (dialect, m, pos, real)
    if bad:
        return "%s sparse member with map %s, size %d: %s" % (dialect, m, real, bad)
    return None


def cut_verdict(ctx, tools, d, tag, arc, what):
    """tar2sqfs on an archive that ends inside a member must fail (non-zero exit status); None if it does"""
    img = d / ("cut%s.sqfs" % tag)
    r = sh_t([str(tools["tar2sqfs"]), "-q", "-f", "-j", "1", str(img)], input=arc, env=ctx.san_env(), timeout=1800, text=False)
    try:
        img.unlink()
    except OSError:
        pass
    if r.returncode >= 90 or r.returncode < 0:
        return "tar2sqfs aborts (exit %d) on an archive cut %s: %s" % (r.returncode, what, r.stderr.decode("latin1")[-300:])
    if r.returncode == 0:
        return "tar2sqfs exits 0 on an archive of %d bytes cut %s: the truncated archive is converted as if it were complete" % (len(arc), what)
    return None


def tool_option_probes(ctx, harness, stats):
    """(a) `tar2sqfs -E <glob>`: exactly the members whose canonical name matches a glob (fnmatch, flags 0: '*' also matches '/') are left
    out, everything else is stored; (b) an xattr with a prefix SquashFS cannot store is skipped with a warning, and refused with
    `--no-skip`.  Expected trees come from Python (`fnmatch.fnmatchcase`), never from the code under test."""
    rng = ctx.rng
    tools = {t: ctx.build_tool(t) for t in ("tar2sqfs", "rdsquashfs", "sqfs2tar")}
    d = ctx.scratch / "optp"
    d.mkdir(exist_ok=True)
    seen = {"exclude_cases": 0, "excluded_members": 0, "no_skip_cases": 0}
    names = [b"keep", b"skipme", b"skipme2", b"d/x.tmp", b"d/y", b"d/sub/z.tmp", b"e/f", b"e/skipme", b"q.tmp", b"dd/x"]
    for ci in range(4 if ctx.quick() else 30):
        pats = rng.sample(["skipme", "*.tmp", "d/*", "e/f", "d/?", "skipme*", "*/skipme", "nothing", "d/sub/*"], rng.randint(1, 3))
        members = rng.sample(names, rng.randint(3, len(names)))
        arc = b"".join(mk_header(name=n, size=1, mtime=1542905892, dialect="ustar") + pad512(b"x") for n in members) + b"\0" * 1024
        msg, nex = exclude_verdict(ctx, tools, d, str(ci), arc, pats)
        seen["exclude_cases"] += 1; seen["excluded_members"] += nex
        stats["evaluations"] += 2
        stats["nontrivial"].add(("optE", vlib.sha(tok(arc) + repr(pats))[:16]))
        if msg:
            stats["disagreements_checked"] += 1
            report(ctx, "optE", "optE:" + vlib.sha(tok(arc) + repr(pats))[:10], msg, {"optprobe": {"kind": "exclude", "archive_hex": tok(arc), "patterns": pats}})
    arc = pax_member([pax_record(b"SCHILY.xattr.system.posix_acl_access", b"\x02\0\0\0"), pax_record(b"SCHILY.xattr.user.ok", b"v")]) + \
        mk_header(name=b"f", size=1, mtime=1542905892, dialect="ustar") + pad512(b"x") + b"\0" * 1024
    for ci, flags in enumerate([[], ["--no-skip"]]):
        msg = noskip_verdict(ctx, tools, d, str(ci), arc, flags)
        seen["no_skip_cases"] += 1
        stats["evaluations"] += 1
        if msg:
            stats["disagreements_checked"] += 1
            report(ctx, "optN", "no-skip:" + ("with" if flags else "without"), msg, {"optprobe": {"kind": "no-skip", "archive_hex": tok(arc), "flags": flags}})
    # (c) a sparse file whose holes/offsets lie beyond 4 GiB (64-bit arithmetic of the sparse walk; the Lean model is over Nat and the
    # unit-level generator stays below 1 MiB): tar2sqfs must store exactly the specified expansion
    for ci, dialect in enumerate([rng.choice(["old", "0.0", "0.1", "1.0"])] if ctx.quick() else ["old", "0.0", "0.1", "1.0"]):
        salt = rng.randrange(1 << 30)
        msg = big_sparse_verdict(ctx, tools, d, str(ci), dialect, salt)
        seen["big_sparse_cases"] = seen.get("big_sparse_cases", 0) + 1
        stats["evaluations"] += 2
        if msg:
            stats["disagreements_checked"] += 1
            report(ctx, "bigsparse", "sparse-4GiB:" + dialect, msg, {"optprobe": {"kind": "big-sparse", "dialect": dialect, "salt": salt}})
    # … and the old GNU dialect around 8 GiB = 8^11, where GNU tar switches to base-256 numbers in the map (a real `tar --format=gnu -S`
    # archive of such a file has exactly this header)
    salt = rng.randrange(1 << 30)
    msg = big_sparse_verdict(ctx, tools, d, "8g", "old", salt, G=1 << 33)
    seen["big_sparse_cases"] += 1
    stats["evaluations"] += 2
    if msg:
        stats["disagreements_checked"] += 1
        if "wrong content" in msg:
            stats["known_old256_seen"] = stats.get("known_old256_seen", 0) + 1
            ctx.violation(KEY_OLD256, "tar2sqfs drops the regions of an old GNU sparse map from the first base-256 entry on (offsets of 8 GiB and more, as "
                          "GNU tar writes them): exit 0, " + msg, {"optprobe": {"kind": "big-sparse", "dialect": "old", "salt": salt, "G": 1 << 33}})
        else:
            report(ctx, "bigsparse", "sparse-8GiB:old", msg, {"optprobe": {"kind": "big-sparse", "dialect": "old", "salt": salt, "G": 1 << 33}})
    # (d) archives that end inside a member (no end marker): tar2sqfs must fail.  Since /repo 1ef571c this includes the padding
    # of the last member / of an extension record and skipped data (`sqfs_istream_skip` reports the early end)
    f5 = mk_header(name=b"f", size=5, mtime=1542905892, dialect="ustar") + pad512(b"hello")
    dirh = mk_header(name=b"d/", mode=0o755, typeflag=b"5", mtime=1542905892, dialect="ustar")
    longn = gen_name(rng, rng.choice([101, 300, 700]))
    lrec = gnu_long(b"L", longn)
    unk = mk_header(name=b"vol", size=700, typeflag=b"V", dialect="gnu") + pad512(b"v" * 700)       # unknown record: skipped by the iterator
    cuts = [(f5[:len(f5) - rng.randint(1, 506)], "inside the padding of its last member"),
            (dirh + lrec[:len(lrec) - rng.randint(1, (-(len(longn) + 1)) % 512)], "inside the padding of a GNU 'L' record"),
            (dirh + unk[:512 + rng.randint(1, 1023)], "inside a record the iterator skips"),
            (dirh + f5 + mk_header(name=b"g", size=1300, mtime=1, dialect="ustar") + b"x" * rng.randint(1, 1299), "inside the data of its last member")]
    for ci, (arc, what) in enumerate(cuts):
        msg = cut_verdict(ctx, tools, d, str(ci), arc, what)
        seen["cut_archives"] = seen.get("cut_archives", 0) + 1
        stats["evaluations"] += 1
        stats["nontrivial"].add(("cut", vlib.sha(tok(arc))[:16]))
        if msg:
            stats["disagreements_checked"] += 1
            report(ctx, "cut", "cut-archive:" + what.replace(" ", "-")[:40], msg, {"optprobe": {"kind": "cut", "archive_hex": tok(arc), "what": what}})
    # (e) compressed input (`tar_open_stream` puts a decompressor in front of the iterator; since /repo d69b61b `it_next` reads the
    # compressed stream to its end when the archive's end marker is reached): an intact .tar.gz converts, one whose gzip trailer
    # (CRC32/ISIZE, which lies behind the end marker) is damaged or missing must fail.  The Lean model is over the *decompressed*
    # byte stream, where this drain is invisible; decompressor errors are C15's subject — this is only the C04-side probe.
    import gzip
    plain = dirh + f5 + b"\0" * (1024 + 512 * rng.randint(600, 1200))     # (the trailer must lie behind the decompressor's first 256 KiB window)
    gz = gzip.compress(plain, mtime=0)
    flipped = gz[:-8] + bytes([gz[-8] ^ 0x55]) + gz[-7:]
    for ci, (arc, what, must_fail) in enumerate([(gz, "gzip, intact", False), (flipped, "gzip, CRC32 of the trailer damaged", True),
                                                 (gz[:-rng.randint(1, 8)], "gzip, trailer cut", True)]):
        img = d / ("gz%d.sqfs" % ci)
        r = sh_t([str(tools["tar2sqfs"]), "-q", "-f", "-j", "1", str(img)], input=arc, env=ctx.san_env(), timeout=1800, text=False)
        try:
            img.unlink()
        except OSError:
            pass
        seen["compressed_input_cases"] = seen.get("compressed_input_cases", 0) + 1
        stats["evaluations"] += 1
        if r.returncode >= 90 or r.returncode < 0 or (r.returncode != 0) != must_fail:
            stats["disagreements_checked"] += 1
            report(ctx, "gzin", "compressed-input:" + what.replace(" ", "-").replace(",", ""), "tar2sqfs on a compressed archive (%s): exit %d, expected %s — %s" % (
                what, r.returncode, "failure" if must_fail else "success", r.stderr.decode("latin1")[-200:]),
                {"optprobe": {"kind": "gz", "archive_hex": tok(arc), "must_fail": must_fail, "what": what}})
    stats["option_probes"] = seen
    if not (seen["exclude_cases"] and seen["no_skip_cases"] and seen.get("big_sparse_cases") and seen.get("cut_archives")):
        raise vlib.CheckFailure("option probes did not all run: %s" % seen)


# ------------------------------------------------------------------ the sqfs2tar model (premise of the fix-point theorems) vs the real sqfs2tar
S2T_POOL = [b"d", b"dx", b"d.y", b"d0", b"a", b"b", b"e", b"f", b"zz", b"d ", b"D", b"\xc3\xa4", b"n" * 99, b"m" * 100, b"L" * 120, b"k" * 255]


def gen_s2t_tree(rng, sock=False):
    """a small tree described by the generator: {path: node}; node = dict(kind, mode, uid, gid, mtime, target, content, xattrs, maj, min,
    link_to).  Names are chosen so that siblings extend each other's names (`d`, `dx`, `d.y`, `d0`: prefix tests of --subdir), paths
    cross the 100-byte header field, and hard links stand before and after their targets in directory order."""
    nodes, dirs = {}, [b""]
    ids = [0, 1, 1000, 65534, (1 << 21) - 1, 1 << 21, (1 << 31), (1 << 32) - 1]
    mts = [0, 1, 1542905892, (1 << 31) - 1, 1 << 31, (1 << 32) - 1]

    def xat():
        if sock or rng.random() < 0.6:
            return []
        out = []
        for _ in range(rng.randint(1, 3)):
            k = rng.choice([b"user.", b"trusted.", b"security."]) + rng.choice([b"a", b"b", b"x=y", b"50%", b"key", b"z" * 40]) + bytes(rng.choice(b"abc") for _ in range(rng.randint(0, 2)))
            if k not in [a for a, _ in out]:
                out.append((k, bytes(rng.choice([0, 10, 61, 0xff, rng.randrange(256)]) for _ in range(rng.choice([0, 1, 5, 80])))))
        return out

    for _ in range(rng.randint(2, 16)):
        parent = rng.choice(dirs)
        name = rng.choice(S2T_POOL[:9] if sock else S2T_POOL)          # (pack files: no trailing blank, ASCII)
        path = parent + b"/" + name if parent else name
        if path in nodes or len(path) > 600:
            continue
        kind = rng.choice(["dir", "dir", "dir", "file", "file", "file", "slink", "chr", "blk", "fifo"] + (["sock", "sock"] if sock else []))
        perm = rng.choice([0o644, 0o755, 0o700, 0o7777, 0, 0o4711])
        n = dict(kind=kind, perm=perm, uid=rng.choice(ids), gid=rng.choice(ids), mtime=0 if sock else rng.choice(mts),
                 target=None, content=b"", xattrs=xat(), maj=0, min=0, link_to=None)
        if kind == "dir":
            dirs.append(path)
        elif kind == "file":
            n["content"] = bytes(rng.randrange(256) for _ in range(rng.choice([0, 1, 5, 511, 512, 513, 1500])))
        elif kind == "slink":
            n["perm"] = 0o777
            n["target"] = rng.choice([b"x", b"../up", b"/abs/path", b"t" * 99, b"t" * 100, b"u" * 101, b"a/b"])
        elif kind in ("chr", "blk"):
            n["maj"], n["min"] = rng.choice([0, 1, 8, 255, 4095]), rng.choice([0, 1, 255, 256, (1 << 20) - 1])
        nodes[path] = n
    prim = [p for p, n in nodes.items() if n["kind"] not in ("dir",)]
    for _ in range(rng.choice([0, 0, 1, 2, 3]) if prim else 0):
        tgt = rng.choice(prim)
        parent = rng.choice(dirs)
        name = rng.choice([b"0hl", b"hl", b"zzhl", b"d", b"h" * 110])             # sorts before / after most targets
        path = parent + b"/" + name if parent else name
        if path in nodes:
            continue
        nodes[path] = dict(kind="hard", link_to=tgt)
    return nodes


def s2t_listing(nodes, no_xattr=False):
    """the recursive listing of the image: pre-order, children by name (bytes), every name of an inode with that inode's attributes and
    the same inode number -> list of dicts for the `s2t` op"""
    kids = {}
    for p in nodes:
        kids.setdefault(p.rsplit(b"/", 1)[0] if b"/" in p else b"", []).append(p)
    ino, out = {}, []
    for i, p in enumerate(sorted(nodes)):
        if nodes[p]["kind"] != "hard":
            ino[p] = i + 1

    def rec(d):
        for c in sorted(kids.get(d, []), key=lambda x: x.rsplit(b"/", 1)[-1]):
            n = nodes[c]
            src = nodes[n["link_to"]] if n["kind"] == "hard" else n
            fm = {"dir": S_IFDIR, "file": S_IFREG, "slink": S_IFLNK, "chr": S_IFCHR, "blk": S_IFBLK, "fifo": S_IFIFO, "sock": S_IFSOCK}[src["kind"]]
            out.append(dict(name=c, mode=fm | src["perm"], uid=src["uid"], gid=src["gid"], mtime=src["mtime"],
                            inode=ino[n["link_to"]] if n["kind"] == "hard" else ino[c], target=src["target"], content=src["content"],
                            xattrs=[] if no_xattr else src["xattrs"], maj=src["maj"], min=src["min"]))
            if n["kind"] == "dir":
                rec(c)
    rec(b"")
    return out


def s2t_archive(rng, nodes, root):
    """a tar archive tar2sqfs turns into the image of `nodes`: directories first (parents before children), then the rest in random
    order, hard link records anywhere among them; xattrs as SCHILY records in *reverse* stored order (the reader prepends)"""
    def member(path, n):
        pre = b""
        if n["kind"] != "hard" and n["xattrs"]:
            pre = pax_member([pax_record(b"SCHILY.xattr." + gnu_escape_key(k), v) for k, v in reversed(n["xattrs"])])
        kw = dict(dialect="gnu")
        if n["kind"] == "hard":
            t = n["link_to"]
            if len(t) > 99:
                pre += gnu_long(b"K", t)
            kw.update(typeflag=b"1", linkname=t[:100], mode=0o644)
        else:
            kw.update(mode=n["perm"], uid=n["uid"], gid=n["gid"], mtime=n["mtime"])
            if n["kind"] == "dir":
                kw.update(typeflag=b"5")
            elif n["kind"] == "file":
                kw.update(typeflag=b"0", size=len(n["content"]))
            elif n["kind"] == "slink":
                if len(n["target"]) > 99:
                    pre += gnu_long(b"K", n["target"])
                kw.update(typeflag=b"2", linkname=n["target"][:100])
            elif n["kind"] in ("chr", "blk"):
                kw.update(typeflag=b"3" if n["kind"] == "chr" else b"4", maj=n["maj"], minr=n["min"])
            else:
                kw.update(typeflag=b"6")
        name = path + (b"/" if n["kind"] == "dir" else b"")
        if len(name) > 99:
            pre += gnu_long(b"L", name)
        body = pad512(n["content"]) if n["kind"] == "file" else b""
        return pre + mk_header(name=name[:100], **kw) + body
    out = b""
    if root is not None:
        out += member(b".", dict(kind="dir", perm=root["perm"], uid=root["uid"], gid=root["gid"], mtime=root["mtime"], xattrs=root["xattrs"]))
    ds = sorted((p for p in nodes if nodes[p]["kind"] == "dir"), key=lambda p: (p.count(b"/"), p))
    rest = [p for p in nodes if nodes[p]["kind"] != "dir"]
    rng.shuffle(rest)
    for p in ds + rest:
        out += member(p, nodes[p])
    # stored order of an inode's xattrs: the xattr writer sorts the pairs of one inode by the index of the key in its string table,
    # i.e. by the first appearance of the key string while tar2sqfs works through the archive (xattr_writer_record.c:123)
    rank = {}
    for n in ([root] if root is not None else []) + [nodes[p] for p in ds + rest]:
        for k, _ in n.get("xattrs") or []:
            rank.setdefault(k, len(rank))
    for n in ([root] if root is not None else []) + list(nodes.values()):
        if n.get("xattrs"):
            n["xattrs"] = sorted(n["xattrs"], key=lambda kv: rank[kv[0]])
    return out + b"\0" * 1024


def s2t_pack_file(nodes, d):
    """gensquashfs pack file for a tree with sockets (tar cannot carry them)"""
    lines = []
    for p in sorted(nodes, key=lambda p: (nodes[p]["kind"] == "hard", p.count(b"/"), p)):
        n = nodes[p]
        q = p.decode("latin1").replace("\\", "\\\\").replace('"', '\\"')
        q = '"%s"' % q
        if n["kind"] == "hard":
            lines.append("link %s 0 0 0 %s" % (q, n["link_to"].decode("latin1")))
            continue
        base = "%s 0%o %d %d" % (q, n["perm"], n["uid"], n["gid"])
        if n["kind"] == "dir":
            lines.append("dir " + base)
        elif n["kind"] == "file":
            f = d / ("c%d.bin" % len(lines))
            f.write_bytes(n["content"])
            lines.append("file %s %s" % (base, f))
        elif n["kind"] == "slink":
            lines.append("slink %s %s" % (base, n["target"].decode("latin1")))
        elif n["kind"] in ("chr", "blk"):
            lines.append("nod %s %s %d %d" % (base, "c" if n["kind"] == "chr" else "b", n["maj"], n["min"]))
        elif n["kind"] == "fifo":
            lines.append("pipe " + base)
        else:
            lines.append("sock " + base)
    return "\n".join(lines) + "\n"


def s2t_line(op, so, root, listing):
    def xs(l):
        return ",".join("%s:%s" % (tok(k), tok(v)) for k, v in l) if l else "-"
    ents = ["%s;%o;%d;%d;%d;%d;%s;%s;%s;%d;%d" % (tok(e["name"]), e["mode"], e["uid"], e["gid"], e["mtime"], e["inode"],
                                                 "null" if e["target"] is None else tok(e["target"]), tok(e["content"]), xs(e["xattrs"]), e["maj"], e["min"])
            for e in listing]
    return "%s %s %d %s %d %d %s %s" % (op, ",".join(tok(x) for x in so["subdirs"]) if so["subdirs"] else "-", so["keep"] or len(so["subdirs"]) > 1,
                                        "null" if so["rb"] is None else tok(so["rb"]), so["L"], so["s"],
                                        "%o;%d;%d;%d;%s" % (S_IFDIR | root["perm"], root["uid"], root["gid"], root["mtime"], xs([] if so["X"] else root["xattrs"])),
                                        " ".join(ents))


def s2t_spec_names(so, listing):
    """independent statement of which entries sqfs2tar emits and under which names (not of the bytes): (names, hard link targets)"""
    sub, keep = so["subdirs"], so["keep"] or len(so["subdirs"]) > 1
    out = []
    for e in listing:
        nm = e["name"]
        isdir = e["mode"] & S_IFMT == S_IFDIR
        if sub:
            below = [p for p in sub if nm == p or nm.startswith(p + b"/")]
            above = [p for p in sub if p.startswith(nm + b"/")]
            if not below and not above:
                continue
            if not keep:
                if not nm.startswith(sub[0] + b"/"):
                    continue
                nm = nm[len(sub[0]) + 1:]
        if so["rb"] is not None:
            nm = so["rb"] + b"/" + nm
        out.append((nm, isdir, e["inode"]))
    if so["rb"] is not None:
        out.insert(0, (so["rb"], True, 0))
    names, first = [], {}
    for nm, isdir, ino in out:
        if not isdir and not so["L"] and ino in first:
            names.append(tok(nm) + ">" + tok(first[ino]))
        else:
            names.append(tok(nm))
            if not isdir:
                first.setdefault(ino, nm)
    return names


def unit_sqfs2tar(ctx, harness, stats):
    """`sqfs2tarFull` (= `sqfs2tarLoop`/`entryBytes`/`wentryOf`, the functions the fixpoint_* theorems are about, behind the models of
    bin/sqfs2tar/src/iterator.c and lib/sqfs/src/io/dir_hl.c) against the real sqfs2tar, byte for byte, on generated images x options"""
    rng = ctx.rng
    tools = {t: ctx.build_tool(t) for t in ("tar2sqfs", "sqfs2tar", "gensquashfs")}
    d = ctx.scratch / "s2t"
    d.mkdir(exist_ok=True)
    env = ctx.san_env({"SOURCE_DATE_EPOCH": "0"})
    nimg = 45 if ctx.quick() else 900
    cases, hist = [], {"images": 0, "socket_images": 0, "runs": 0, "opts": {}, "hard_link_records": 0, "model_fail": 0, "entries": 0, "emitted": 0,
                       "subdir_with_name_extending_sibling": 0}
    for ii in range(nimg):
        sock = ii % 6 == 5
        nodes = gen_s2t_tree(rng, sock)
        if not nodes:
            continue
        root = None
        if not sock and rng.random() < 0.5:
            root = dict(perm=rng.choice([0o755, 0o700, 0o1777]), uid=rng.choice([0, 1000]), gid=rng.choice([0, 7]), mtime=rng.choice([0, 1542905892]),
                        xattrs=[(b"user.root", b"r")] if rng.random() < 0.5 else [])
        img = d / ("i%d.sqfs" % ii)
        if sock:
            wd = d / ("p%d" % ii)
            wd.mkdir(exist_ok=True)
            pf = wd / "pack.txt"
            pf.write_bytes(s2t_pack_file(nodes, wd).encode("latin1"))
            r = sh_t([str(tools["gensquashfs"]), "-q", "-f", "-F", str(pf), str(img)], env=env, timeout=1800, text=False)
            how = {"pack_file": pf.read_text(errors="replace")}
        else:
            arc = s2t_archive(rng, nodes, root)
            r = sh_t([str(tools["tar2sqfs"]), "-q", "-f", "-j", "1", str(img)], input=arc, env=env, timeout=1800, text=False)
            how = {"archive_hex": tok(arc)}
        if r.returncode != 0:
            stats["disagreements_checked"] += 1
            report(ctx, "s2t-build", "s2t-build:" + vlib.sha(repr(sorted(nodes)))[:10], "the image for the sqfs2tar tie cannot be built (exit %d): %s" % (
                r.returncode, r.stderr.decode("latin1")[-300:]), {"s2t": dict(how, nodes=repr(nodes))}, found_input=False)
            continue
        hist["images"] += 1; hist["socket_images"] += sock
        rootd = root or dict(perm=0o755, uid=0, gid=0, mtime=0, xattrs=[])
        dirs = [p for p, n in nodes.items() if n["kind"] == "dir"]
        optsets = [dict(subdirs=[], keep=False, rb=None, L=False, X=False, s=False)]
        for _ in range(2 if ctx.quick() else 4):
            so = dict(subdirs=[], keep=False, rb=None, L=rng.random() < 0.25, X=rng.random() < 0.2, s=rng.random() < (0.5 if sock else 0.1))
            if dirs and rng.random() < 0.7:
                so["subdirs"] = rng.sample(dirs, min(len(dirs), rng.choice([1, 1, 1, 2, 3])))
                so["keep"] = rng.random() < 0.4
            if rng.random() < 0.4:
                so["rb"] = rng.choice([b"r", b"a/b", b".", b"d", b"x" * 101])
            optsets.append(so)
        for so in optsets:
            listing = s2t_listing(nodes, so["X"])
            argv = []
            if so["rb"] is not None:
                argv += ["-r", so["rb"].decode()]
            for sd in so["subdirs"]:
                argv += ["-d", sd.decode("latin1")]
            argv += (["--keep-as-dir"] if so["keep"] else []) + (["--no-xattr"] if so["X"] else []) + (["--no-hard-links"] if so["L"] else []) + \
                (["--no-skip"] if so["s"] else [])
            argvb = [a.encode("latin1") for a in argv]
            r = sh_t([str(tools["sqfs2tar"]).encode()] + argvb + [str(img).encode()], env=env, timeout=1800, text=False)
            if any(any(q != p and q.rsplit(b"/", 1)[0:-1] == p.rsplit(b"/", 1)[0:-1] and q.startswith(p) for q in nodes) for p in so["subdirs"]):
                hist["subdir_with_name_extending_sibling"] += 1
            cases.append((ii, so, argv, rootd, listing, r, how))
        try:
            img.unlink()
        except OSError:
            pass
    if not cases:
        raise vlib.CheckFailure("sqfs2tar tie: no image could be built")
    lines = [s2t_line("s2t", so, rootd, listing) for _, so, _, rootd, listing, _, _ in cases]
    model = run_model(ctx, lines)
    ents = run_model(ctx, [s2t_line("s2tents", so, rootd, listing) for _, so, _, rootd, listing, _, _ in cases])
    for (ii, so, argv, rootd, listing, r, how), l, m, en in zip(cases, lines, model, ents):
        hist["runs"] += 1
        for k in ("keep", "L", "X", "s"):
            hist["opts"][k] = hist["opts"].get(k, 0) + bool(so[k])
        hist["opts"]["subdir%d" % min(len(so["subdirs"]), 2)] = hist["opts"].get("subdir%d" % min(len(so["subdirs"]), 2), 0) + 1
        hist["opts"]["rb"] = hist["opts"].get("rb", 0) + (so["rb"] is not None)
        hist["entries"] += len(listing)
        stats["nontrivial"].add(("s2t", vlib.sha(l)[:16]))
        replay = {"unit_model": [l], "s2t": dict(how, argv=argv)}
        if r.returncode >= 90 or r.returncode < 0:
            ctx.violation("crash:sqfs2tar:" + vlib.sha(l)[:10], "sqfs2tar %s aborts (exit %d): %s" % (" ".join(argv), r.returncode, r.stderr.decode("latin1")[-400:]), replay)
            continue
        got = "fail" if r.returncode != 0 else "ok " + tok(r.stdout)
        # independent statement of the emitted names / hard link targets (Python) against the model's entry list
        want_names = s2t_spec_names(so, listing)
        got_names = [] if en == "" else en.split(" ")
        hist["emitted"] += len(got_names)
        hist["hard_link_records"] += sum(">" in x for x in got_names)
        hist["model_fail"] += m == "fail"
        if got_names != want_names:
            stats["disagreements_checked"] += 1
            report(ctx, "s2t-model", "s2t-model:" + vlib.sha(l)[:10], "the model's entry list for sqfs2tar %s differs from its specification: model %s, specification %s" % (
                " ".join(argv), got_names[:6], want_names[:6]), replay, found_input=False)
        if got == m:
            continue
        stats["disagreements_checked"] += 1
        # which property does the real output violate?  walk its members with the independent reader used for the xattr probe
        what = "sqfs2tar %s: the real tool and the model differ (%s vs %s)" % (" ".join(argv), got[:60], m[:60])
        found = False
        if got != "fail" and m != "fail":
            a, b = untok(got[3:]), untok(m[3:])
            k = next((i for i in range(min(len(a), len(b))) if a[i] != b[i]), min(len(a), len(b)))
            names_real = walk_member_names(a)
            found = names_real is None or names_real != [untok(x.split(">")[0]) for x in want_names if True]
            what += ": %d vs %d bytes, first difference at offset %d (record %d, byte %d); member names of the real archive %s the specification" % (
                len(a), len(b), k, k // 512, k % 512, "differ from" if found else "agree with")
        else:
            found = True
            what += ": exit status %d, the model says %s" % (r.returncode, "failure (--no-skip and a socket)" if m == "fail" else "success")
        report(ctx, "s2t", "s2t:" + vlib.sha(l)[:10], what, replay, found_input=found)
    stats["evaluations"] += 3 * len(cases)
    stats["sqfs2tar_tie"] = hist
    if hist["hard_link_records"] == 0 or hist["opts"].get("subdir1", 0) == 0 or hist["emitted"] == 0:
        raise vlib.CheckFailure("sqfs2tar tie generated no hard link record / no --subdir run: %s" % hist)


def walk_member_names(buf):
    """member names of a tar archive written by sqfs2tar (GNU 'L' records honoured), own walker; None when not well-formed"""
    names, pos, longname = [], 0, None
    while pos + 512 <= len(buf):
        h = buf[pos:pos + 512]
        pos += 512
        if h == b"\0" * 512:
            continue
        try:
            f = h[124:136]
            size = int.from_bytes(f[1:], "big") if f[0] & 0x80 else int(f.rstrip(b" \0") or b"0", 8)
        except ValueError:
            return None
        tf = h[156:157]
        payload = buf[pos:pos + size]
        if tf in (b"L", b"K", b"x", b"0", b"\0"):
            pos += (size + 511) // 512 * 512
        if tf == b"L":
            longname = payload.split(b"\0")[0]
        elif tf in (b"K", b"x"):
            pass
        else:
            nm = longname if longname is not None else h[:100].split(b"\0")[0]
            names.append(nm[:-1] if nm.endswith(b"/") and len(nm) > 1 else nm)
            longname = None
    return names


# ------------------------------------------------------------------ entry points
def run(ctx):
    ok, problems = vlib.proof_gate(ctx, MODULE, REQUIRED)
    okw, logw = ctx.lean_build(["Sqfs.Witness.C04"])              # the witnesses of the known findings must keep checking too
    if not okw:
        ok = False
        problems = list(problems) + ["lake build Sqfs.Witness.C04 failed: " + logw[-1500:]]
    if not ok:
        ctx.violation("proof:C04", "proof obligations of C04 no longer check: " + " | ".join(problems)[:1500],
                      {"broken": problems, "theorems_file": "lean/Sqfs/Props/C04.lean"}, found_input=False)
    stats = {"evaluations": 0, "disagreements_checked": 0, "nontrivial": set(), "samples": []}
    t0 = time.time()
    harness = build_harness(ctx)
    for fn in (unit_numbers, unit_checksum, unit_headers, unit_reader, unit_canon_inplace, unit_sqfs2tar, tool_conv, tool_xattr_keys, tool_option_probes):
        t1 = time.time()
        fn(ctx, harness, stats)
        ctx.log("%s: %.1fs" % (fn.__name__, time.time() - t1))
    stats["unit_wall_s"] = round(time.time() - t0, 1)
    tools_stats = {}
    if os.environ.get("C04_SKIP_TOOLS"):
        # development switch only (the registered commands never set it): a run without the tool-level part is never green
        ctx.violation("infra:tools-skipped", "C04_SKIP_TOOLS is set: the tool-level sub-checks (t2s, s2t, fix-point) did not run", {"env": "C04_SKIP_TOOLS"},
                      found_input=False)
    else:
        try:
            from checks import c04_tools
        except Exception as e:                                # the tool level is the only execution cover of three headline clauses
            import traceback
            ctx.violation("infra:c04_tools-import", "tools/checks/c04_tools.py cannot be imported (%s): the tool-level sub-checks did not run" % e,
                          {"traceback": traceback.format_exc()}, found_input=False)
            c04_tools = None
        if c04_tools is not None:
            t1 = time.time()
            tools_stats = c04_tools.run_tools(ctx) or {}
            tools_stats["wall_s"] = round(time.time() - t1, 1)
    nontrivial = stats.pop("nontrivial")
    ctx.cov.update({
        "evaluations": stats.pop("evaluations") + int(tools_stats.get("counters", {}).get("tool_runs", 0)),
        "distinct_nontrivial": len(nontrivial) + int(tools_stats.get("archives_total", 0)) + int(tools_stats.get("socket_images", 0)),
        "rule": "unit level: every generated field/value/header through the real lib/tar function (ASan+UBSan) and the Lean model, "
                "specification predicates evaluated on the implementation's answer; non-trivial = distinct input that is not a plain "
                "terminated octal number (leading blanks, no terminator, base-256, overflow, …) / distinct writer argument / distinct header. "
                "tool level: see `tools` (archives x options through tar2sqfs/sqfs2tar/rdsquashfs, GNU tar + tarfile read-back, sha256 fix-point)",
        "disagreements_checked": stats.pop("disagreements_checked"),
        "samples": stats.pop("samples") + list(tools_stats.get("samples", []))[:5],
        "unit": stats,
        "tools": {k: v for k, v in tools_stats.items() if k != "samples"},
    })
    return ctx.finish(LEVEL, trusted_extra=TRUSTED, assumptions=ASSUMPTIONS)


TRUSTED = [
    "modelled, not verified directly: the C text of lib/tar/src/{number,checksum,write_header,read_header,pax_header,read_sparse_map_old,"
    "read_sparse_map_new,iterator,record_to_memory,padd_file}.c, bin/tar2sqfs/src/process_tarball.c, bin/sqfs2tar/src/{sqfs2tar,iterator}.c, "
    "lib/sqfs/src/io/dir_hl.c, sqfs_istream_skip of lib/sqfs/src/io/stream_api.c; C strings are their bytes before the NUL; "
    "sqfs_u64 arithmetic is Nat arithmetic with explicit `% 2^64` where the C code can wrap",
    "harness/h_c04.c (includes write_header.c and read_header.c textually to reach the static helpers), tools/checks/c04.py, tools/checks/c04_tools.py",
    "tool level: GNU tar 1.34 and Python tarfile as independent readers; rdsquashfs (built from the same tree) as image observer",
]
ASSUMPTIONS = [
    "the main model mirrors the repaired code (fixes/C04-*.patch); on an unrepaired tree the check recognises the listed known findings by comparing "
    "the implementation with the model of the unrepaired code (Sqfs/Witness/C04.lean) and with the specification",
]


def replay(ctx, path):
    body = json.loads(open(path).read())
    rp = body.get("replay", {})
    if "tar2sqfs" in rp:
        ctx.lean_build(["sqfsmodel"])
        tools = {t: ctx.build_tool(t) for t in ("tar2sqfs", "rdsquashfs", "sqfs2tar")}
        c = rp["tar2sqfs"]
        case = (untok(c["archive_hex"]), c["root_becomes"].encode(), c["S"], c["k"]) + tuple(c["defaults"])
        st, obs = run_conv_case(ctx, tools, ctx.scratch, 0, case)
        model = run_model(ctx, rp["unit"])
        cur = run_model(ctx, ["t2scur" + rp["unit"][0][3:]])
        got = "fail" if st == "fail" else obs
        print("tar2sqfs:", st, got if st != "ok" else "\n  " + "\n  ".join(got))
        print("model   :", norm_conv_model(model[0]))
        print("model of the unrepaired code:", norm_conv_model(cur[0]))
        return 0 if got == norm_conv_model(model[0]) else 1
    if "s2t" in rp and "unit_model" in rp:
        ctx.lean_build(["sqfsmodel"])
        tools = {t: ctx.build_tool(t) for t in ("tar2sqfs", "sqfs2tar", "gensquashfs")}
        env = ctx.san_env({"SOURCE_DATE_EPOCH": "0"})
        img = ctx.scratch / "replay.sqfs"
        c = rp["s2t"]
        if "archive_hex" in c:
            r = sh_t([str(tools["tar2sqfs"]), "-q", "-f", "-j", "1", str(img)], input=untok(c["archive_hex"]), env=env, timeout=1800, text=False)
        else:
            print("image came from a gensquashfs pack file with content files in a scratch directory; pack file:\n" + c.get("pack_file", ""))
            print("re-run the tier with the same VERIF_SEED to regenerate it")
            return 1
        if r.returncode != 0:
            print("tar2sqfs fails on the recorded archive (exit %d): %s" % (r.returncode, r.stderr.decode("latin1")[-300:]))
            return 1
        r = sh_t([str(tools["sqfs2tar"]).encode()] + [a.encode("latin1") for a in c["argv"]] + [str(img).encode()], env=env, timeout=1800, text=False)
        model = run_model(ctx, rp["unit_model"])[0]
        got = "fail" if r.returncode != 0 else "ok " + tok(r.stdout)
        print("sqfs2tar %s: exit %d, %d bytes; model: %s" % (" ".join(c["argv"]), r.returncode, len(r.stdout), "fail" if model == "fail" else "%d bytes" % (len(model) // 2 - 1)))
        if got != model and got != "fail" and model != "fail":
            a, b = r.stdout, untok(model[3:])
            k = next((i for i in range(min(len(a), len(b))) if a[i] != b[i]), min(len(a), len(b)))
            print("first difference at offset %d (record %d): real %r / model %r" % (k, k // 512, a[k - k % 512:k - k % 512 + 120].rstrip(b"\0"), b[k - k % 512:k - k % 512 + 120].rstrip(b"\0")))
            print("member names (real):", walk_member_names(a))
        return 0 if got == model else 1
    if "xkey" in rp:
        tools = {t: ctx.build_tool(t) for t in ("tar2sqfs", "sqfs2tar")}
        pairs = [(untok(k), untok(v)) for k, v in rp["xkey"]["pairs"]]
        fail, obs = run_xkey_case(ctx, tools, ctx.scratch, "replay", untok(rp["xkey"]["archive_hex"]))
        print("stored xattrs           :", sorted(pairs))
        print("after sqfs2tar          :", obs[0] if obs else fail)
        print("after one more round    :", obs[1] if obs else fail)
        v = xkey_verdict(pairs, fail, obs)
        print("verdict:", v)
        return 0 if v == "ok" else 1
    if "optprobe" in rp:
        tools = {t: ctx.build_tool(t) for t in ("tar2sqfs", "rdsquashfs", "sqfs2tar")}
        o = rp["optprobe"]
        if o["kind"] == "big-sparse":
            msg = big_sparse_verdict(ctx, tools, ctx.scratch, "replay", o["dialect"], o.get("salt", 0), o.get("G", 1 << 32))
        elif o["kind"] == "gz":
            img = ctx.scratch / "gzreplay.sqfs"
            r = sh_t([str(tools["tar2sqfs"]), "-q", "-f", "-j", "1", str(img)], input=untok(o["archive_hex"]), env=ctx.san_env(), timeout=1800, text=False)
            msg = None if (r.returncode != 0) == o["must_fail"] and 0 <= r.returncode < 90 else "tar2sqfs on %s: exit %d" % (o["what"], r.returncode)
        elif o["kind"] == "cut":
            msg = cut_verdict(ctx, tools, ctx.scratch, "replay", untok(o["archive_hex"]), o["what"])
        elif o["kind"] == "exclude":
            msg, _ = exclude_verdict(ctx, tools, ctx.scratch, "replay", untok(o["archive_hex"]), o["patterns"])
        else:
            msg = noskip_verdict(ctx, tools, ctx.scratch, "replay", untok(o["archive_hex"]), o["flags"])
        print(msg or "as specified")
        return 1 if msg else 0
    if "unit" in rp:
        ctx.lean_build(["sqfsmodel"])
        harness = build_harness(ctx)
        lines = rp["unit"]
        impl, crash = run_impl(ctx, harness, lines)
        model = run_model(ctx, lines)
        extra = []
        if lines and lines[0].startswith("rn "):
            extra = run_model(ctx, ["rnspec " + lines[0][3:]])
        print("script:", lines)
        print("impl  :", impl, "crash:", crash)
        print("model :", model)
        if extra:
            print("spec  :", extra)
            return 1 if crash or impl[0] != extra[0] else 0
        return 1 if crash or impl != model else 0
    if "tools" in rp:
        from checks import c04_tools
        return c04_tools.replay_tools(ctx, rp["tools"])
    print("replay file names a broken obligation, no input to replay:", json.dumps(rp)[:500])
    return 1
