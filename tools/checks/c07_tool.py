"""
C07, tool level: tar2sqfs / gensquashfs (ASan+UBSan builds of the working tree) on mutated inputs under a timeout.

Oracle (the property statement, clause by clause):
  * the tool terminates within TIMEOUT seconds;
  * never a sanitizer report (exit 98/99) or a signal;
  * exit 0  ⇒ the output image exists and `rdsquashfs -d` reads all of it;
  * exit ≠ 0 ⇒ something was printed on stderr and no output file is left.
Mutated archives whose members *declare* more than BIG (32 MiB) bytes (sparse real size, …) are listed by the tar
harness only and not handed to the packer, to keep the run short: packing time is proportional to the declared size.
That this proportionality is itself a violation of "terminates within bounded time" (a 1.5 KiB archive may declare
2^60 bytes) is covered separately and explicitly: `run_tar_declared` hands archives declaring 2^40, 2^50 and 2^60
bytes to tar2sqfs under a CPU-time limit (findings KEY_DECLARED_BEYOND, KEY_DECLARED_SIZE), and `run_tar_content`
packs well-formed sparse members of up to several MiB with every block size and compares the content read back.
"""
import base64, bz2, gzip, io, lzma, os, resource, shutil, subprocess, tarfile, zlib
from concurrent.futures import ThreadPoolExecutor
from pathlib import Path
import vlib

TIMEOUT = 20          # seconds; an idle machine needs < 0.5 s for any of these runs
BIG = 32 << 20

KEY_D12 = "D12:resolve_link:cycle-not-through-start"
KEY_D22 = "D22:sparse-data-exceeds-record"
KEY_GZIP = "gzip:data-error-hang"
KEY_UB_MTIME = "ubsan:read_header:mtime-negation"
KEY_UB_STRHASH = "ubsan:str_table:strhash-shift"
KEY_UAF_PAX = "uaf:pax_header:sparse-map-then-numbytes"
KEY_NODIAG_TAR = "nodiag:tar2sqfs:iterator-error"
KEY_NODIAG_XATTR = "nodiag:gensquashfs:xattr-map"
KEY_NODIAG_SORT = "nodiag:gensquashfs:sort-file-trailing"
KEY_GLOB_NOPACKDIR = "ubsan:glob:null-basepath"
KEY_DECLARED_SIZE = "declared-size:tar2sqfs:work-proportional-to-declared-size"      # sizes an inode can carry (<= 2^29 blocks)
KEY_DECLARED_BEYOND = "declared-size:tar2sqfs:beyond-inode-capacity"                  # sizes that can never be stored: must be refused at once
MAX_FILE_BLOCKS = 1 << 29      # set_block_size (lib/sqfs/src/block_processor/backend.c): the block list may not exceed 2^31 bytes
DECLARED_CPU_S = 5     # CPU seconds a packer may spend on an archive of a few hundred bytes that declares a huge sparse file

# --------------------------------------------------------------------------------------------- tar mutation

FIELDS = {  # name: (offset, length, kind)
    "name": (0, 100, "s"), "mode": (100, 8, "n"), "uid": (108, 8, "n"), "gid": (116, 8, "n"), "size": (124, 12, "n"),
    "mtime": (136, 12, "n"), "typeflag": (156, 1, "t"), "linkname": (157, 100, "s"), "magic": (257, 6, "m"),
    "version": (263, 2, "m"), "devmajor": (329, 8, "n"), "devminor": (337, 8, "n"), "prefix": (345, 155, "s"),
    "sp0off": (386, 12, "n"), "sp0num": (398, 12, "n"), "sp1off": (410, 12, "n"), "sp1num": (422, 12, "n"),
    "sp3num": (470, 12, "n"), "isextended": (482, 1, "t"), "realsize": (483, 12, "n"),
}
STRS = [b"..", b"../x", b"/abs/path", b"a//b/./c/", b"", b".", b"x" * 100, b"\xff\xfe/\x80", b"a/../../b", b"foo/bar", b"bar/baz", b"./"]
TYPES = b"0123456LKxgSDMNVX\0 7"
PAXKEYS = [b"size", b"path", b"linkpath", b"uid", b"gid", b"mtime", b"GNU.sparse.size", b"GNU.sparse.realsize", b"GNU.sparse.name",
           b"GNU.sparse.major", b"GNU.sparse.minor", b"GNU.sparse.map", b"GNU.sparse.offset", b"GNU.sparse.numbytes",
           b"GNU.sparse.numblocks", b"SCHILY.xattr.user.x", b"LIBARCHIVE.xattr.user.x", b"SCHILY.xattr", b"comment", b"atime",
           # escapes inside xattr keys (GNU tar: %25 = '%', %3D = '='; libarchive: any %XX)
           b"SCHILY.xattr.user.a%25b", b"SCHILY.xattr.user.%3Dx%3d", b"SCHILY.xattr.%2", b"SCHILY.xattr.%25%3D%", b"SCHILY.xattr.user.%253D",
           b"LIBARCHIVE.xattr.user.%3Dy%41%2", b"SCHILY.xattr.", b"LIBARCHIVE.xattr."]


def chksum(block):
    return sum(block[:148]) + 8 * 32 + sum(block[156:512])


def fix_checksum(block):
    block[148:156] = b"%06o\0 " % chksum(block)


def fix_checksum_at(buf, off):
    b = bytearray(buf[off:off + 512]); fix_checksum(b); buf[off:off + 512] = b


def header_ok(block):
    if len(block) < 512 or not any(block):
        return False
    try:
        return int(bytes(block[148:156]).strip(b" \0") or b"0", 8) == chksum(block)
    except ValueError:
        return False


def num_variants(rng, width, old):
    small = rng.choice([0, 1, 2, 5, 7, 100, 511, 512, 513, 1023, 1024, 4096, 65535, 65536, 65537, 1 << 20])
    r = rng.random()
    if r < 0.25:
        return (b"%0*o" % (width - 1, small % (8 ** (width - 1)))) + b"\0"
    if r < 0.35:
        return b"7" * width
    if r < 0.45:   # base-256, positive / negative / overflowing
        v = rng.choice([small, (1 << 62), (1 << 64) - 1, (1 << 63), -1, -small - 1])
        raw = (v % (1 << (8 * (width - 1)))).to_bytes(width - 1, "big")
        return bytes([rng.choice([0x80, 0xff, 0x81, 0xc0])]) + raw
    if r < 0.55:
        return bytes(rng.choice(b" \t\n01234567\0") for _ in range(width))
    if r < 0.65:
        return bytes(rng.randrange(256) for _ in range(width))
    if r < 0.75:
        return b" " * rng.randrange(width + 1) + b"17"
    if r < 0.85:
        try:
            o = int(bytes(old).strip(b" \0") or b"0", 8)
        except ValueError:
            o = 0
        o = max(0, o + rng.choice([-513, -512, -1, 1, 511, 512, 513, 1024]))
        return (b"%0*o" % (width - 1, o % (8 ** (width - 1)))) + b"\0"
    return b"\0" * width


def mutate_header(rng, block):
    b = bytearray(block)
    for _ in range(rng.choice([1, 1, 1, 2, 3])):
        fname = rng.choice(list(FIELDS))
        off, ln, kind = FIELDS[fname]
        if kind == "n":
            v = num_variants(rng, ln, b[off:off + ln])[:ln]
            b[off:off + len(v)] = v
        elif kind == "s":
            v = rng.choice(STRS)[:ln]
            b[off:off + ln] = v.ljust(ln, b"\0") if rng.random() < 0.9 or not v else (v * ln)[:ln]
        elif kind == "t":
            b[off] = rng.choice(TYPES)
        else:
            v = rng.choice([b"ustar\0", b"ustar ", b"\0\0\0\0\0\0", b"USTAR\0", b"ustar\x00"[:ln], b"00", b" \0", b"\0\0"])[:ln]
            b[off:off + len(v)] = v
    b = bytearray(bytes(b[:512]).ljust(512, b"\0"))
    if rng.random() < 0.93:
        fix_checksum(b)
    return bytes(b)


def mutate_pax_payload(rng, payload):
    """payload: the bytes of a PAX extended header (records `<len> <key>=<value>\\n`)"""
    recs, pos = [], 0
    while pos < len(payload):
        sp = payload.find(b" ", pos)
        if sp < 0:
            break
        try:
            ln = int(payload[pos:sp])
        except ValueError:
            break
        if ln <= 0 or pos + ln > len(payload):
            break
        recs.append(payload[pos:pos + ln])
        pos += ln
    if not recs:
        return bytes(rng.randrange(256) for _ in range(len(payload)))
    i = rng.randrange(len(recs))
    body = recs[i].split(b" ", 1)[1] if b" " in recs[i] else recs[i]
    key, _, val = body.rstrip(b"\n").partition(b"=")
    r = rng.random()
    if r < 0.3:
        key = rng.choice(PAXKEYS)
    if r < 0.75:
        val = rng.choice([b"0", b"-1", b"18446744073709551615", b"18446744073709551616", b"99999999999999999999999", b"1.5", b"", b"abc",
                          b"0,512,1024,512", b"0,1,", b",", b"1,2,3", b"0,99999999999999999999", b"AAAA", b"QUJD", b"QUJ", b"Q", b"====", b"%zz%41",
                          b"../../x", b"a/../b", b"/", b"x" * 300, str(rng.randrange(1 << 34)).encode(), b"-9223372036854775808",
                          b"9223372036854775807", b"9223372036854775806"])
    body = key + b"=" + val + b"\n"
    if rng.random() < 0.08:
        body = key + val + b"\n"                      # no '='
    if rng.random() < 0.06:
        body = body[:-1]                              # no newline
    good = len(body) + 2
    while len(str(good)) + 1 + len(body) != good:
        good = len(str(good)) + 1 + len(body)
    r = rng.random()
    if r < 0.70:
        lenfield = str(good).encode()
    else:
        lenfield = rng.choice([b"0", b"-5", b"1", b"2", b"3", str(good - 1).encode(), str(good + 1).encode(), str(good + 600).encode(),
                               b"99999999999999999999", b"+" + str(good).encode(), b" " + str(good).encode(), b"0x10", b"", b"9" * 40])
    recs[i] = lenfield + b" " + body
    if rng.random() < 0.1:
        recs.insert(rng.randrange(len(recs) + 1), recs[i])
    return b"".join(recs)


def parse_size(block):
    raw = bytes(block[124:136])
    if raw[0] & 0x80:
        return None
    try:
        return int(raw.strip(b" \0") or b"0", 8)
    except ValueError:
        return None


def mutate_tar(rng, data):
    """structure-aware mutation of a tar archive (headers keep a valid checksum most of the time)"""
    blocks = [bytearray(data[i:i + 512]) for i in range(0, len(data), 512)]
    hdrs = [i for i, b in enumerate(blocks) if header_ok(b)]
    r = rng.random()
    if not hdrs or r < 0.12:
        d = bytearray(data)
        for _ in range(rng.choice([1, 1, 2, 4, 16])):
            if not d:
                break
            p = rng.randrange(len(d))
            op = rng.random()
            if op < 0.5:
                d[p] ^= 1 << rng.randrange(8)
            elif op < 0.7:
                d[p] = rng.choice(b"\0 \xff\x8007=\n")
            elif op < 0.85:
                del d[p:p + rng.choice([1, 2, 512])]
            else:
                d[p:p] = bytes(rng.randrange(256) for _ in range(rng.choice([1, 3, 512])))
        return bytes(d)
    i = rng.choice(hdrs)
    t = blocks[i][156]
    if t in b"xg" and r < 0.65 and i + 1 < len(blocks):
        size = parse_size(blocks[i]) or 0
        nblk = (size + 511) // 512
        payload = b"".join(bytes(b) for b in blocks[i + 1:i + 1 + nblk])[:size]
        newp = mutate_pax_payload(rng, payload)
        if rng.random() < 0.85:                                   # keep the declared size consistent
            blocks[i][124:136] = b"%011o\0" % len(newp)
            fix_checksum(blocks[i])
        pad = (-len(newp)) % 512
        newblocks = [bytearray((newp + b"\0" * pad)[k:k + 512]) for k in range(0, len(newp) + pad, 512)]
        blocks[i + 1:i + 1 + nblk] = newblocks
    elif r < 0.75 and i + 1 < len(blocks) and blocks[i + 1][:1].isdigit():
        # looks like a GNU 1.0 sparse map / text payload: mutate its digits and newlines
        b = blocks[i + 1]
        for _ in range(rng.choice([1, 2, 5])):
            p = rng.randrange(0, max(1, min(len(b), 64)))
            b[p] = rng.choice(b"0123456789\n\n \0x")
    elif r < 0.80:
        blocks.insert(i, bytearray(mutate_header(rng, blocks[i])))   # duplicated, mutated header
    elif r < 0.84:
        del blocks[i + 1:i + 1 + rng.choice([1, 1, 2])]               # drop payload blocks
    else:
        blocks[i] = bytearray(mutate_header(rng, blocks[i]))
    return b"".join(bytes(b) for b in blocks)


def mk_header(name, size=0, typeflag=b"0", linkname=b"", magic=b"ustar\x0000", sparse=None, realsize=0, isext=0):
    h = bytearray(512)
    h[0:len(name)] = name[:100]
    h[100:108] = b"0000644\0"; h[108:116] = b"0000000\0"; h[116:124] = b"0000000\0"
    h[124:136] = b"%011o\0" % size; h[136:148] = b"%011o\0" % 0
    h[156] = typeflag[0]
    h[157:157 + len(linkname)] = linkname[:100]
    h[257:257 + len(magic)] = magic
    if sparse is not None:
        h[257:265] = b"ustar  \0"
        off = 386
        for o, n in sparse[:4]:
            h[off:off + 12] = (b"%011o\0" % o) if o < 8 ** 11 else (b"\x80" + o.to_bytes(11, "big"))
            h[off + 12:off + 24] = b"%011o\0" % n; off += 24
        h[482] = isext
        h[483:495] = (b"%011o\0" % realsize) if realsize < 8 ** 11 else (b"\x80" + realsize.to_bytes(11, "big"))
    fix_checksum(h)
    return bytes(h)


def tar_hardlinks(pairs, extra_files=()):
    out = b""
    for n in extra_files:
        out += mk_header(n, 3) + b"abc".ljust(512, b"\0")
    for n, t in pairs:
        out += mk_header(n, 0, b"1", t)
    return out + b"\0" * 1024


def tar_sparse_inconsistent(rng):
    """old-GNU sparse member whose map claims more data than the record holds, followed by marker members"""
    stored = rng.choice([0, 512, 1024, 1536])
    claim = stored + rng.choice([1, 512, 1024, 4096, 20000])
    real = claim + rng.choice([0, 4096, 100000])
    k = rng.choice([1, 2, 3])
    parts, left, off = [], claim, 0
    for j in range(k):
        c = left if j == k - 1 else rng.randrange(0, left + 1)
        parts.append((off, c)); off += c + rng.choice([0, 512, 4096]); left -= c
    real = max(real, off)
    out = mk_header(b"sparse", stored, b"S", sparse=parts + [(real, 0)] * (4 - len(parts)), realsize=real)
    out += bytes([65 + (i % 26) for i in range(stored)])
    markers = []
    for i in range(rng.choice([1, 3, 12, 40])):
        nm = b"after%d" % i
        markers.append(nm)
        out += mk_header(nm, 5) + b"hello".ljust(512, b"\0")
    return out + b"\0" * 1024, markers


def pax_rec(k, v):
    body = k + b"=" + v + b"\n"
    n = len(body) + 2
    while len(str(n)) + 1 + len(body) != n:
        n = len(str(n)) + 1 + len(body)
    return str(n).encode() + b" " + body


def pax_rec_of_size(total, key=b"comment"):
    """one well-formed PAX record that is exactly `total` bytes long"""
    n = total - len(str(total)) - 1 - len(key) - 1 - 1
    if n < 0:
        return None
    r = str(total).encode() + b" " + key + b"=" + b"c" * n + b"\n"
    return r if len(r) == total else None


def ext_record(typeflag, payload, declared=None):
    size = len(payload) if declared is None else declared
    return mk_header(b"././@LongLink" if typeflag in b"LK" else b"pax", size, typeflag) + payload + b"\0" * ((-len(payload)) % 512)


def tar_size_gate(rng, limits, kind=None, delta=None):
    """an 'L' / 'K' / 'x' extension record whose declared size is around the implementation limit, *with all its data
    present*, followed by the member it describes and a marker member.  Returns (data, must_reject)"""
    kind = kind or rng.choice(["L", "K", "x", "x"])
    lim = limits[kind]
    S = max(1, lim + (rng.choice([-512, -1, 0, 0, 1, 1, 2, 511, 512, 513, 4096, lim, 3 * lim]) if delta is None else delta))
    if kind == "x":
        payload = pax_rec_of_size(S) or pax_rec(b"comment", b"c")
        S = len(payload)
        rec = ext_record(b"x", payload)
        member = mk_header(b"member", 3) + b"abc".ljust(512, b"\0")
    elif kind == "L":
        comp = b"n" * rng.choice([1, 20, 200])
        path = (b"/".join([comp] * (S // (len(comp) + 1) + 2)))[:S - 1].rstrip(b"/") .ljust(S - 1, b"z")
        rec = ext_record(b"L", path + b"\0")
        member = mk_header(b"short", 3) + b"abc".ljust(512, b"\0")
    else:
        target = (b"t" * 100 + b"/") * (S // 101 + 1)
        rec = ext_record(b"K", target[:S - 1] + b"\0")
        member = mk_header(b"lnk", 0, b"2", b"short-target")
    data = rec + member + mk_header(b"zz-marker", 0) + b"\0" * 1024
    return data, S > lim


def tar_deep(rng, n, kind):
    """one member whose name has `n` components (2n-1 bytes, so up to 32768 components fit a GNU long name / PAX path)"""
    path = b"/".join([b"a"] * n)
    hdr = mk_header(b"d", 0, b"5") if kind == "d" else mk_header(b"f", 3)
    body = b"" if kind == "d" else b"abc".ljust(512, b"\0")
    if rng.random() < 0.5:
        pre = ext_record(b"L", path + b"\0")
    else:
        pre = ext_record(b"x", pax_rec(b"path", path))
    return pre + hdr + body + b"\0" * 1024


# --------------------------------------------------------------------------------------------- sparse members
SPARSE_DIALECTS = ("old", "pax00", "pax01", "pax10")


def sparse_layout(rng, hole, where, ndata=None):
    """data regions [(offset, bytes)] and the real size of a file with one hole of `hole` bytes at the start / in the
    middle / at the end (`where`), a few small data regions around it (and further small holes between them)"""
    def blob():
        n = ndata if ndata is not None else rng.choice([1, 7, 511, 512, 513, 1000, 4096, 5000])
        return bytes(rng.randrange(1, 256) for _ in range(n))
    regions, pos = [], 0
    if where != "start":
        for _ in range(rng.choice([1, 1, 2])):
            d = blob(); regions.append((pos, d)); pos += len(d) + rng.choice([0, 0, 1, 512, 4095, 4096, 4097])
        pos = regions[-1][0] + len(regions[-1][1])
    pos += hole
    if where != "end":
        for _ in range(rng.choice([1, 1, 2])):
            d = blob(); regions.append((pos, d)); pos += len(d) + rng.choice([0, 0, 1, 512, 4096])
        pos = regions[-1][0] + len(regions[-1][1])
    return regions, pos


def sparse_expand(regions, real):
    """the independent expansion: what the unpacked file must look like"""
    out = bytearray(real)
    for off, d in regions:
        out[off:off + len(d)] = d
    return bytes(out)


def sparse_member(dialect, name, regions, real):
    """one sparse member in one of the four dialects (old GNU 'S' header with extension blocks; PAX 0.0
    offset/numbytes pairs; PAX 0.1 GNU.sparse.map; PAX 1.0 map in front of the data), without end-of-archive blocks"""
    data = b"".join(d for _, d in regions)
    ents = [(o, len(d)) for o, d in regions]
    pad = lambda b: b + b"\0" * ((-len(b)) % 512)
    if dialect == "old":
        ents = ents + [(real, 0)]                              # GNU tar ends the map with an empty entry at the real size
        head, rest = ents[:4], ents[4:]
        out = mk_header(name, len(data), b"S", sparse=head, realsize=real, isext=1 if rest else 0)
        while rest:
            blk = bytearray(512)
            for j, (o, c) in enumerate(rest[:21]):
                blk[j * 24:j * 24 + 12] = b"%011o\0" % o
                blk[j * 24 + 12:j * 24 + 24] = b"%011o\0" % c
            rest = rest[21:]
            blk[504] = 1 if rest else 0
            out += bytes(blk)
        return out + pad(data)
    if dialect == "pax00":
        recs = pax_rec(b"GNU.sparse.size", b"%d" % real) + pax_rec(b"GNU.sparse.numblocks", b"%d" % len(ents))
        for o, c in ents:
            recs += pax_rec(b"GNU.sparse.offset", b"%d" % o) + pax_rec(b"GNU.sparse.numbytes", b"%d" % c)
        return ext_record(b"x", recs) + mk_header(name, len(data)) + pad(data)
    if dialect == "pax01":
        recs = pax_rec(b"GNU.sparse.name", name) + pax_rec(b"GNU.sparse.size", b"%d" % real) + \
            pax_rec(b"GNU.sparse.numblocks", b"%d" % len(ents)) + \
            pax_rec(b"GNU.sparse.map", b",".join(b"%d,%d" % e for e in ents))
        return ext_record(b"x", recs) + mk_header(b"GNUSparseFile.0/" + name, len(data)) + pad(data)
    if dialect == "pax10":
        recs = pax_rec(b"GNU.sparse.major", b"1") + pax_rec(b"GNU.sparse.minor", b"0") + \
            pax_rec(b"GNU.sparse.name", name) + pax_rec(b"GNU.sparse.realsize", b"%d" % real)
        m = pad(b"%d\n" % len(ents) + b"".join(b"%d\n%d\n" % e for e in ents))
        return ext_record(b"x", recs) + mk_header(b"GNUSparseFile.0/" + name, len(m) + len(data)) + m + pad(data)
    raise ValueError(dialect)


def tar_sparse_holes(rng, dialect, hole, where, ndata=None):
    """archive: marker member, one sparse member `sp.bin`, marker member; returns (archive, expected content)"""
    regions, real = sparse_layout(rng, hole, where, ndata)
    arch = mk_header(b"before", 3) + b"abc".ljust(512, b"\0") + sparse_member(dialect, b"sp.bin", regions, real) + \
        mk_header(b"zz-after", 5) + b"hello".ljust(512, b"\0") + b"\0" * 1024
    return arch, sparse_expand(regions, real), regions, real


def tar_declared_size(dialect, declared):
    """a sparse member that *declares* `declared` bytes and carries next to no data: the whole file is one hole"""
    return sparse_member(dialect, b"huge.bin", [(0, b"x")], declared) + b"\0" * 1024


def compress_variants(data):
    out = {"gz": gzip.compress(data, mtime=0), "xz": lzma.compress(data), "bz2": bz2.compress(data)}
    return out


def corrupt_stream(rng, d):
    d = bytearray(d)
    r = rng.random()
    if r < 0.45:
        for _ in range(rng.choice([1, 1, 2, 8])):
            p = rng.randrange(len(d)); d[p] ^= 1 << rng.randrange(8)
    elif r < 0.75:
        d = d[:rng.randrange(0, len(d))]
    elif r < 0.85:
        d += bytes(rng.randrange(256) for _ in range(rng.choice([1, 4, 100])))
    else:
        p = rng.randrange(len(d)); del d[p:p + rng.choice([1, 5, 50])]
    return bytes(d)


# --------------------------------------------------------------------------------------------- text inputs

PACK_SEED = """# comment
dir /dev 0755 0 0
dir "/a dir" 0755 1000 100
nod /dev/console 0600 0 0 c 5 1
nod /dev/blk 0600 0 0 b 8 1
slink /bin 0777 0 0 usr/bin
dir /usr/bin 0755 0 0
pipe /dev/pipe 0644 0 0
sock /dev/sock 0644 0 0
file /etc/passwd 0644 0 0 input/passwd
file /etc/motd 0644 0 0
file "/a dir/q\\"uote" 0644 0 0 input/passwd
link /etc/pw2 0644 0 0 /etc/passwd
link /etc/pw3 0644 0 0 etc/pw2
glob /gl 0755 0 0 -type f -name "*.txt" -- input
glob /gl2 * * * input
"""
SORT_SEED = """# sort file
-100 [glob] etc/*
10 etc/passwd
20 [dont_compress,dont_fragment] "etc/motd"
30 [glob_no_path,nosparse,dont_deduplicate] *pw*
-5 "a dir/q\\"uote"
"""
XATTR_SEED = """# file: etc/passwd
user.mime=text/plain
user.hex=0x414243
user.b64=0sQUJDRA==
user.quoted="a\\"b\\\\c\\101"
security.selinux=system_u:object_r:etc_t:s0
# file: /etc/motd
user.empty=
trusted.x=0X00ff
"""
TOKENS = ["0", "1", "-1", "07777", "010000", "4294967295", "4294967296", "18446744073709551615", "18446744073709551616", "0x10", "abc", "",
          "\"\"", "\"", "\\", "\"a\\\"", "\"a\\qb\"", "\"unterminated", "a\"b", "..", "../x", "/", "//", "/./", "a/../b", "x" * 300, "\t", " ",
          "c", "b", "C", "z", "*", "-type", "-name", "--", "-xdev", "-nonrecursive", "-keeptime", "f", "d", "[", "]", "[glob]", "[glob", "[,]",
          "[ glob , nosparse ]", "[bogus]", "0s", "0x", "0sQ", "0sQQ==", "0sQUJD=", "0xzz", "0x4", "=", "a=b=c", "# file: ", "# file: ../x",
          "# file: /", "\"a\\777\"", "\"\\1\"", "\\", "\r", "\x7f", "\xc3\xa4", "9223372036854775807", "-9223372036854775808", "9223372036854775806"]
KEYWORDS = ["dir", "slink", "link", "nod", "pipe", "sock", "file", "glob", "hardlink", ""]


def mutate_text(rng, text):
    lines = text.split("\n")
    for _ in range(rng.choice([1, 1, 2, 3])):
        r = rng.random()
        i = rng.randrange(len(lines))
        if r < 0.45:
            toks = lines[i].split(" ")
            if toks:
                j = rng.randrange(len(toks))
                toks[j] = rng.choice(TOKENS + KEYWORDS)
            lines[i] = " ".join(toks)
        elif r < 0.60:
            l = list(lines[i])
            if l:
                p = rng.randrange(len(l))
                l[p] = rng.choice("\"\\ \t#=[],*0x\r\0\x01\xff/.")
            lines[i] = "".join(l)
        elif r < 0.68:
            lines.insert(i, lines[i])
        elif r < 0.76:
            del lines[i]
        elif r < 0.84:
            toks = lines[i].split(" ")
            if len(toks) > 1:
                del toks[rng.randrange(len(toks))]
            lines[i] = " ".join(toks)
        elif r < 0.92:
            lines[i] = lines[i] + " " + rng.choice(TOKENS)
        else:
            lines[i] = rng.choice(["", " ", "\t\t", "#", "\"", "x" * 5000, "link a 0644 0 0 a", "link /l1 0644 0 0 l2", "link /l2 0644 0 0 l1",
                                   "link /l0 0644 0 0 l1", "link /ld 0644 0 0 /", "link /lx 0644 0 0 nowhere", "link /ly 0644 0 0 etc/passwd/x"])
    out = "\n".join(lines)
    if rng.random() < 0.1:
        out = out.rstrip("\n")
    if rng.random() < 0.05:
        out = out.replace("\n", "\r\n")
    return out


PACK_KEYWORD_LINES = {
    # keyword: (line without the optional trailing argument, the optional argument or None)
    "dir": ("dir /kd 0755 0 0", None),
    "slink": ("slink /ks 0777 0 0 target", None),
    "link": ("link /kl 0644 0 0 /kf", None),
    "nod": ("nod /kn 0600 0 0 c 1 2", None),
    "pipe": ("pipe /kp 0644 0 0", None),
    "sock": ("sock /kso 0644 0 0", None),
    "file": ("file /input/a.txt 0644 0 0", "input/passwd"),
    "glob": ("glob /kg 0755 0 0 -type f", "input"),
    "glob2": ("glob /kg2 * * *", "input/sub"),
    "glob3": ("glob /kg3 0755 1 2 -name \"*.txt\" --", "."),
    # options that want an argument, as the last token of the line
    "glob-name": ("glob /kg4 0755 0 0 -name", "\"*.txt\" input"),
    "glob-type": ("glob /kg5 0755 0 0 -type", "f input"),
    "glob-path": ("glob /kg6 0755 0 0 -type d -path", "\"*/sub\" input"),
    "glob-dd": ("glob /kg7 0755 0 0 --", "input"),
    "glob-bad": ("glob /kg8 0755 0 0 -bogus", "input"),
}
GEN_MODES = ("D", "nodir", "slashdir", "D-rel")


def pack_keyword_matrix():
    """every pack-file keyword x every way of naming the pack file (with -D, without -D in the current directory so that no
    pack directory exists at all, without -D below a sub directory, -D with a relative pack file) x with / without the
    optional location argument"""
    jobs = []
    for kw, (line, opt) in PACK_KEYWORD_LINES.items():
        for mode in GEN_MODES:
            for with_opt in ((False, True) if opt is not None else (False,)):
                text = "file /kf 0644 0 0 input/a.txt\n" + line + ((" " + opt) if with_opt else "") + "\n"
                jobs.append(("kw:%s:%s:%s" % (kw, mode, "loc" if with_opt else "noloc"), text, mode))
    return jobs


def big_text(rng, kind, B):
    """a *valid* pack / sort / xattr file larger than the istream buffer whose interesting line straddles the boundary;
    returns (text, names that must be in the image)"""
    pad_to = rng.choice([B, B, 2 * B]) - rng.randrange(0, 24)
    if kind == "pack":
        head = "dir /big 0755 0 0\n"
        line = "file /big/straddle%d 0644 0 0 input/passwd" % rng.randrange(1000)
        tail = "\nfile /big/after 0644 0 0 input/a.txt\n"
        want = [line.split()[1].lstrip("/"), "big/after"]
    elif kind == "sort":
        head = "# sort\n"
        line = "%d [dont_compress] etc/passwd" % rng.randrange(-100, 100)
        tail = "\n5 etc/motd\n"
        want = []
    else:
        head = "# file: etc/passwd\n"
        line = "user.straddle=\"value %d\"" % rng.randrange(1000)
        tail = "\n# file: etc/motd\nuser.after=0x4142\n"
        want = []
    nl = rng.choice(["\n", "\r\n"])
    fill = pad_to - len(head) - len(nl)
    style = rng.random()
    if style < 0.4:
        filler = "#" + "c" * max(0, fill - 1)                                # one comment line as long as the buffer
    elif style < 0.7:
        filler = ("# comment comment comment" + nl) * (fill // 27)           # many short lines
        filler = filler[:max(0, fill)].rstrip("\r\n")
    else:
        filler = " " * max(0, fill)                                          # a blank line to skip
    text = head + filler + nl + line + rng.choice(["", " ", "  "]) + tail        # (a lone CR would become part of the last field)
    if rng.random() < 0.3:
        text += "#" + "z" * (3 * B)                                          # and a line of three buffers at the end, unterminated
    return text.replace("\n", nl) if nl == "\r\n" and rng.random() < 0.5 else text, want


def pack_deep(n, kind="dir"):
    path = "/" + "/".join(["a"] * n)
    return ("dir %s 0755 0 0\n" % path) if kind == "dir" else ("file %s 0644 0 0 input/a.txt\n" % path)


def pack_hardlink_graph(rng):
    n = rng.randint(1, 5)
    names = ["h%d" % i for i in range(n)]
    lines = ["file /target 0644 0 0 input/passwd", "dir /d 0755 0 0"]
    for nm in names:
        t = rng.choice(names + names + ["target", "d", "", "missing", "target/x", "d/../h0"])
        lines.append("link /%s 0644 0 0 %s" % (nm, t if t else "/"))
    rng.shuffle(lines)
    return "\n".join(lines) + "\n"


# --------------------------------------------------------------------------------------------- running the tools

class Tools:
    def __init__(self, ctx):
        self.ctx = ctx
        self.env = ctx.san_env()
        self.t2s = ctx.build_tool("tar2sqfs")
        self.gen = ctx.build_tool("gensquashfs")
        self.rd = ctx.build_tool("rdsquashfs")
        lib = ctx.build_lib("san")
        self.lister = ctx.cc("h_c07_tar", ["h_c07_tar.c"], libs=[str(lib)] + vlib.CODEC_LIBS)
        self.root = ctx.scratch / "tl"
        self.root.mkdir(exist_ok=True)
        self.packdir = self.root / "packdir"
        (self.packdir / "input").mkdir(parents=True, exist_ok=True)
        (self.packdir / "input" / "passwd").write_bytes(b"root:x:0:0:root:/root:/bin/sh\n" * 40)
        (self.packdir / "input" / "a.txt").write_bytes(b"hello\n")
        (self.packdir / "input" / "sub").mkdir(exist_ok=True)
        (self.packdir / "input" / "sub" / "b.txt").write_bytes(b"\0" * 5000)
        (self.packdir / "etc").mkdir(exist_ok=True)
        (self.packdir / "etc" / "motd").write_bytes(b"motd\n")
        (self.packdir / "etc" / "passwd").write_bytes(b"root:x:0:0:root:/root:/bin/sh\n")
        # a directory worth globbing: a few hundred entries, nesting, long and odd names, links, a fifo
        many = self.packdir / "many"
        many.mkdir(exist_ok=True)
        for i in range(300):
            (many / ("f%03d%s" % (i, ".txt" if i % 3 == 0 else ""))).write_bytes(b"x" * (i % 7))
        (many / ("n" * 255)).write_bytes(b"long")
        (many / "sp ace \"q\" \\b").write_bytes(b"odd")
        (many / "-dash").write_bytes(b"")
        (many / "*star?[x]").write_bytes(b"")
        d = many
        for i in range(40):
            d = d / ("d%d" % i)
            d.mkdir(exist_ok=True)
            (d / "leaf.txt").write_bytes(b"leaf")
        # hard-linked files in a directory of their own: globbing them below a prefix fails today (the link target the scan
        # reports lacks the prefix: "Resolving hard link …: No such file or directory"), which is a diagnosed refusal, not a
        # C07 matter; kept away from the inputs that are expected to be accepted
        links = self.packdir / "links"
        (links / "sub").mkdir(parents=True, exist_ok=True)
        (links / "one").write_bytes(b"1")
        try:
            os.symlink("f000.txt", str(many / "sym"))
            os.symlink("nowhere", str(many / "dangling"))
            os.mkfifo(str(many / "fifo"))
            os.link(str(links / "one"), str(links / "two"))
            os.link(str(links / "one"), str(links / "sub" / "three"))
        except OSError:
            pass
        self.n = 0
        self.slow = 0
        self.lf_refusals = 0
        self.unz = None

    def jobdir(self):
        self.n += 1
        d = self.root / ("j%d" % self.n)
        d.mkdir()
        return d

    def proc(self, cmd, stdin_path=None, cwd=None, timeout=TIMEOUT):
        try:
            fin = open(stdin_path, "rb") if stdin_path else subprocess.DEVNULL
            try:
                r = subprocess.run(cmd, stdin=fin, stdout=subprocess.PIPE, stderr=subprocess.PIPE, env=self.env, cwd=cwd, timeout=timeout)
            finally:
                if stdin_path:
                    fin.close()
            return r.returncode, r.stdout, r.stderr
        except subprocess.TimeoutExpired:
            return "timeout", b"", b""

    def judge(self, rc, err, out_path, what, timeout=TIMEOUT):
        """apply the oracle to one packer run; returns list of (clause, detail)"""
        bad = []
        if rc == "timeout":
            return [("terminates", "%s still running after %ds" % (what, timeout))]
        if rc in (98, 99) or rc < 0 or rc >= 128:
            return [("no-crash", "%s: exit %s: %s" % (what, rc, err[:6000].decode(errors="replace")))]
        if rc == 0:
            if not out_path.exists():
                bad.append(("exit0-image", "%s exits 0 without an output image" % what))
            else:
                rc2, o2, e2 = self.proc([str(self.rd), "-d", str(out_path)], timeout=TIMEOUT * 6)
                if rc2 != 0 and b"a line feed cannot be represented in the listing" in e2:
                    # since /repo 4b35342 `rdsquashfs -d` refuses to *print* a name or target containing a line feed (the
                    # listing format cannot carry one; C16). That happens after the whole tree was read successfully, so the
                    # image is readable; the refusal of the listing is not a C07 matter. Counted, not ignored; the image
                    # still has to pass `rdsquashfs -l /` and the independent validator (harness/unz.c + the executable
                    # invariant list `sqfsmodel c03 validate`), which does not care whether names are printable:
                    self.lf_refusals += 1
                    rc2, o2, e2 = self.proc([str(self.rd), "-l", "/", str(out_path)], timeout=TIMEOUT * 6)
                    if rc2 == 0:
                        viol = self.validate_image(out_path)
                        if viol:
                            bad.append(("exit0-image", "%s exits 0, the image holds a name with a line feed and the independent validator "
                                        "objects: %s" % (what, "; ".join(viol)[:400])))
                if rc2 != 0:
                    bad.append(("exit0-image", "%s exits 0 but rdsquashfs -d fails (%s): %s" % (what, rc2, e2[-400:].decode(errors="replace"))))
        else:
            if out_path.exists():
                bad.append(("failure-leaves-no-output", "%s exits %s and leaves %d bytes of output behind" % (what, rc, out_path.stat().st_size)))
            if not err.strip():
                bad.append(("failure-diagnostic", "%s exits %s without a diagnostic on stderr" % (what, rc)))
        return bad

    def validate_image(self, img):
        """independent reading of an image: harness/unz.c (own decompression and table walk) + `sqfsmodel c03 validate`
        (the invariants of format.adoc as an executable list).  Returns the violated invariants."""
        if self.unz is None:
            self.unz = self.ctx.cc("unz_c07", ["unz.c"], sanitize=False, libs=["-lz", "-llzma", "-llz4", "-lzstd"])
        r = vlib.sh([str(self.unz), str(img)], timeout=300)
        if r.returncode != 0:
            return ["unz cannot read the image: " + r.stderr[-200:]]
        desc = r.stdout
        req = "\n".join(self.ctx.driver(["c03", "blockreq"], desc)) + "\n"
        rq = Path(str(img) + ".req")
        rq.write_text(req)
        r2 = vlib.sh([str(self.unz), "-b", str(rq), str(img)], timeout=300)
        rq.unlink()
        if r2.returncode != 0:
            return ["unz cannot read the data blocks: " + r2.stderr[-200:]]
        val = self.ctx.driver(["c03", "validate", "4096"], desc + r2.stdout)
        return [v for v in val if v.startswith("viol ")]

    def run_tar(self, data, expect_members=None, timeout=TIMEOUT, opts=(), must_reject=None):
        d = self.jobdir()
        inp = d / "in.tar"
        inp.write_bytes(data)
        res = {"bad": [], "listing": None, "rc": None}
        rc, out, err = self.proc([str(self.lister), str(inp), str(BIG)], timeout=timeout)
        res["list_rc"] = rc
        if rc == "timeout":
            res["bad"].append(("terminates", "tar iterator (library) still running after %ds" % timeout))
        elif rc in (98, 99) or rc < 0 or rc >= 128:
            res["bad"].append(("no-crash", "tar iterator: exit %s: %s" % (rc, err[:6000].decode(errors="replace"))))
        else:
            res["listing"] = out.decode(errors="replace").splitlines()
        big = res["listing"] is not None and any(l.endswith(" BIG") for l in res["listing"])
        res["big"] = big
        if not big and rc != "timeout":
            outp = d / "out.sqfs"
            rc, out, err = self.proc([str(self.t2s), "-q", "-f"] + list(opts) + [str(outp)], stdin_path=inp, timeout=timeout)
            res["rc"] = rc
            res["stderr"] = err[-300:].decode(errors="replace")
            res["bad"] += self.judge(rc, err, outp, "tar2sqfs" + (" " + " ".join(opts) if opts else ""), timeout)
            if must_reject and rc == 0:
                res["bad"].append(("limit-enforced", "tar2sqfs accepts an archive it has to refuse: %s" % must_reject))
            if rc == 0 and expect_members and outp.exists():
                rc2, o2, _ = self.proc([str(self.rd), "-d", str(outp)])
                have = o2.decode(errors="replace")
                missing = [m.decode() for m in expect_members if (" %s " % m.decode()) not in have]
                if missing:
                    res["bad"].append(("members-kept", "tar2sqfs exits 0 but %d member(s) following the sparse file are not in the image "
                                       "(first: %s)" % (len(missing), missing[0])))
        shutil.rmtree(d, ignore_errors=True)
        return res

    def run_tar_content(self, data, opts, name, want, markers=(), timeout=TIMEOUT):
        """a well-formed archive: tar2sqfs must accept it, and the content of member `name` read back from the image with
        `rdsquashfs -c` must be `want` (the independent expansion of the sparse map); the marker members must be there"""
        d = self.jobdir()
        inp, outp = d / "in.tar", d / "out.sqfs"
        inp.write_bytes(data)
        what = "tar2sqfs " + " ".join(opts)
        rc, out, err = self.proc([str(self.t2s), "-q", "-f"] + list(opts) + [str(outp)], stdin_path=inp, timeout=timeout)
        res = {"rc": rc, "stderr": err[-300:].decode(errors="replace"), "bad": self.judge(rc, err, outp, what, timeout)}
        if rc not in (0, "timeout") and not res["bad"]:
            res["bad"].append(("valid-input-accepted", "%s refuses a well-formed sparse archive (exit %s): %s" % (what, rc, res["stderr"][-200:])))
        if rc == 0 and outp.exists() and not res["bad"]:
            rc2, got, e2 = self.proc([str(self.rd), "-c", name.decode(), str(outp)], timeout=TIMEOUT * 6)
            if rc2 in (98, 99) or (isinstance(rc2, int) and (rc2 < 0 or rc2 >= 128)):
                res["bad"].append(("no-crash", "rdsquashfs -c on the image %s wrote: exit %s: %s" % (what, rc2, e2[:6000].decode(errors="replace"))))
            elif rc2 != 0:
                res["bad"].append(("exit0-image", "%s exits 0 but rdsquashfs -c %s fails (%s): %s" % (what, name.decode(), rc2, e2[-300:].decode(errors="replace"))))
            elif got != want:
                k = next((i for i, (x, y) in enumerate(zip(got, want)) if x != y), min(len(got), len(want)))
                res["bad"].append(("content-kept", "%s exits 0 but the content of %s in the image differs from the expansion of the sparse "
                                   "map at byte %d (%d bytes read back, %d expected; there: %s, expected %s)" % (
                                       what, name.decode(), k, len(got), len(want), got[k:k + 8].hex() or "-", want[k:k + 8].hex() or "-")))
            if markers:
                rc3, o3, _ = self.proc([str(self.rd), "-d", str(outp)])
                have = o3.decode(errors="replace")
                missing = [m.decode() for m in markers if (" %s " % m.decode()) not in have]
                if missing:
                    res["bad"].append(("members-kept", "%s exits 0 but member %s next to the sparse file is not in the image" % (what, missing[0])))
        shutil.rmtree(d, ignore_errors=True)
        return res

    def run_tar_declared(self, data, cpu_s=None):
        """an archive whose only member declares a huge sparse file: tar2sqfs gets DECLARED_CPU_S seconds of CPU time
        (RLIMIT_CPU: SIGXCPU, then SIGKILL one second later). Either outcome of the packer is fine (refusal, or an image),
        grinding through the declared size is not."""
        cpu_s = cpu_s or DECLARED_CPU_S
        d = self.jobdir()
        inp, outp = d / "in.tar", d / "out.sqfs"
        inp.write_bytes(data)
        def limit():
            resource.setrlimit(resource.RLIMIT_CPU, (cpu_s, cpu_s + 1))
        try:
            with open(inp, "rb") as fin:
                r = subprocess.run([str(self.t2s), "-q", "-f", "-j", "1", str(outp)], stdin=fin, stdout=subprocess.PIPE, stderr=subprocess.PIPE,
                                   env=self.env, preexec_fn=limit, timeout=cpu_s * 12 + 30)
            rc, err = r.returncode, r.stderr
        except subprocess.TimeoutExpired:
            rc, err = "timeout", b""
        res = {"rc": rc, "stderr": err[-300:].decode(errors="replace"), "bad": []}
        if rc == "timeout" or rc in (-24, -9) or b"CPU time limit" in err:
            res["outcome"] = "cpu-limit"
            res["bad"].append(("terminates", "tar2sqfs is still working after %d s of CPU time on %d bytes of input" % (cpu_s, len(data))))
        else:
            res["outcome"] = "exit %s" % (rc if rc == 0 else "!=0")
            res["bad"] += self.judge(rc, err, outp, "tar2sqfs", TIMEOUT)
        shutil.rmtree(d, ignore_errors=True)
        return res

    def run_gen(self, pack=None, sort=None, xattr=None, timeout=TIMEOUT, mode="D", must_accept=None):
        """mode: how the inputs are named on the command line
             D         -D <packdir> -F <abs pack file>                      (the pack directory is given)
             D-rel     -D <packdir> -F pack.txt, cwd = job directory
             nodir     -F pack.txt, cwd = a copy of the pack directory: *no* pack directory (opt->packdir == NULL)
             slashdir  -F sub/pack.txt, cwd = job directory: the pack directory is derived from the file name
             dironly   -D <packdir> and no pack file at all (the directory is scanned); sort / xattr files still apply"""
        d = self.jobdir()
        outp = d / "out.sqfs"
        enc = lambda t: t.encode("latin-1", "replace") if isinstance(t, str) else t
        if pack is None:
            pack = PACK_SEED
        cwd = None
        cmd = [str(self.gen), "-q", "-f"]
        if mode == "D":
            (d / "pack.txt").write_bytes(enc(pack))
            cmd += ["-D", str(self.packdir), "-F", str(d / "pack.txt")]
        elif mode == "D-rel":
            cwd = d
            (d / "pack.txt").write_bytes(enc(pack))
            cmd += ["-D", str(self.packdir), "-F", "pack.txt"]
        elif mode == "nodir":
            cwd = d / "cwd"
            shutil.copytree(str(self.packdir), str(cwd), symlinks=True, ignore=shutil.ignore_patterns("many", "links"))
            (cwd / "pack.txt").write_bytes(enc(pack))
            cmd += ["-F", "pack.txt"]
        elif mode == "slashdir":
            cwd = d
            shutil.copytree(str(self.packdir), str(d / "sub"), symlinks=True, ignore=shutil.ignore_patterns("many", "links"))
            (d / "sub" / "pack.txt").write_bytes(enc(pack))
            cmd += ["-F", "sub/pack.txt"]
        elif mode == "dironly":
            cmd += ["-D", str(self.packdir)]
        else:
            raise vlib.CheckFailure("run_gen: unknown mode %r" % mode)
        if sort is not None:
            (d / "sort.txt").write_bytes(enc(sort))
            cmd += ["-S", str(d / "sort.txt")]
        if xattr is not None:
            (d / "xattr.txt").write_bytes(enc(xattr))
            cmd += ["-A", str(d / "xattr.txt")]
        cmd.append(str(outp))
        rc, out, err = self.proc(cmd, cwd=str(cwd) if cwd else None, timeout=timeout)
        res = {"rc": rc, "stderr": err[-300:].decode(errors="replace"), "bad": self.judge(rc, err, outp, "gensquashfs[%s]" % mode, timeout)}
        if must_accept is not None and rc not in (0, "timeout") and not res["bad"]:
            res["bad"].append(("valid-input-accepted", "gensquashfs[%s] refuses a valid input (exit %s): %s" % (mode, rc, res["stderr"][-200:])))
        if must_accept and rc == 0 and outp.exists():
            rc2, o2, _ = self.proc([str(self.rd), "-d", str(outp)])
            have = o2.decode(errors="replace")
            missing = [m for m in must_accept if (" /%s " % m) not in have and (" %s " % m) not in have]
            if missing:
                res["bad"].append(("valid-input-accepted", "gensquashfs[%s] exits 0 but %s is not in the image" % (mode, missing[0])))
        shutil.rmtree(d, ignore_errors=True)
        return res


def listing_to_hl(listing):
    """entries of the real iterator's listing as an `hl` script line (for the D12 classification)"""
    toks = []
    for l in listing:
        p = l.split()
        if len(p) < 6 or p[0] != "E":
            continue
        name, mode, hard, link = p[1], int(p[2], 8), p[4], p[5]
        if name == "-":
            continue
        if hard == "H":
            toks.append("l:%s:%s" % (name, link))
        elif (mode & 0o170000) == 0o040000:
            toks.append("d:%s:-" % name)
        elif (mode & 0o170000) == 0o120000:
            toks.append("s:%s:%s" % (name, link))
        else:
            toks.append("f:%s:-" % name)
    return "hl " + " ".join(toks)
